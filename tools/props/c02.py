"""C02 (mb / memb part): grace periods always complete once readers leave -- no lost wake-up, no deadlock; with spurious / EINTR futex
returns; with the futex system call unavailable (compat_futex fallbacks).  The qsbr and bp parts come from other modules."""
import os, re, json, shutil
from vlib import *
import conc
from props.gpcommon import gp_component, gp_consts

LEVEL = "model_checking"
ASSUMPTIONS = ["x86-TSO memory model; compiler barriers are honoured by the compiler (not modelled)",
               "deadlock freedom = invariant DeadlockFree (no reachable state with an unfinished thread and no enabled action; a thread asleep in FUTEX_WAIT / "
               "pthread_cond_wait with nobody left to wake it is such a state); checked under TSO with store buffers bounded to 2 entries by a state constraint "
               "(sound for this invariant: a flush is enabled in every state with a non-empty buffer, so the constraint never hides a stuck state)",
               "liveness = TLC PROPERTY Termination (<>all threads done) under SPECIFICATION FairSpec (weak fairness of every thread and of every store-buffer "
               "flush agent; none needed for faults, whose number is bounded) on modules WITHOUT any CONSTRAINT: SC instances, and TSO instances whose store "
               "buffer bound is part of the enabling condition of a store (SBBlock: a store waits while the buffer holds SBMax entries, as on hardware with a "
               "finite buffer; every behaviour is an x86-TSO behaviour, behaviours needing deeper buffers are not covered)",
               "mutex acquisition is only weakly fair in the model; every lock/unlock cycle of the algorithm is bounded by the finite programs, so no strong fairness is needed",
               "FUTEX_WAIT faults: value-unchanged return 0 (spurious) and EINTR, at most FaultBudget (1-2) per execution, injected by schedule choice in the driver "
               "(VRT_SPURIOUS / VRT_EINTR; 'eintr' components inject EINTR only); a fault is a step of its own (the sleeper leaves the futex queue; a FUTEX_WAKE issued before "
               "it runs again finds nobody), as in the kernel and in the runtime; pthread_cond_wait spurious wake-ups only in TLC",
               "signals: in the gp_c02_sig2u configurations a handler (rcu_read_lock; rcu_dereference; rcu_read_unlock) may interrupt a registered thread between any two of its steps "
               "and also while it is asleep in FUTEX_WAIT, whose wait then returns EINTR (SigFutex / VRT_SIG_FUTEX=1); at most one delivery per execution; no liveness configuration has signals",
               "futex unavailable: 'enosys' = what Linux builds execute when futex() fails with ENOSYS (both futex_async and futex_noasync fall back to "
               "compat_futex_async, include/urcu/futex.h:78-112), bound with VRT_FUTEX_ENOSYS=1; 'compat' = generic branch of futex.h (futex_noasync = "
               "compat_futex_noasync with mutex + condition variable), bound by building the driver with futex_async/futex_noasync #defined to the compat "
               "functions (two-line emulation of futex.h:222-236, trusted)",
               "bounds: <= 3 threads (4 in one thorough scenario), <= 2 grace periods per updater, store buffers <= 2; RCU_QS_ACTIVE_ATTEMPTS = URCU_WAIT_ATTEMPTS = 2 "
               "in the driver build and the spec so that the sleep path is reached after one busy-wait round",
               "mb and memb (with / without sys_membarrier) flavors only; qsbr and bp are decided by their own modules"]

INV = ("NoSleepWithRegistryLock", "WaitNodeQuiet")      # besides DeadlockFree, FutexRange, LockOrder and the assertions inside the actions


def gc(flavor, sysmb, **kw):
    return gp_component(flavor, sysmb, extra_invariants=INV, **kw)


# ---------------------------------------------------------------------------------------------------------------- helpers


def comp_key(comp):
    return {"flavor": comp["flavor"], "sysmb": comp["sysmb"], "fault_budget": comp["fault_budget"], "futex_mode": comp["futex_mode"], "faults": comp.get("faults", "mixed")}


def tag_new_violations(ctx, before, comp, extra=None):
    """conc's violation directories do not say which component produced them: add that (needed by replay)."""
    for k in range(before + 1, ctx.nviol + 1):
        d = os.path.join(ctx.outdir, "viol-%d" % k)
        if not os.path.isdir(d):
            continue
        mp = os.path.join(d, "meta.json")
        meta = json.load(open(mp)) if os.path.exists(mp) else {"kind": "tlc-safety"}
        meta["component"] = comp_key(comp)
        if "scenario" not in meta and os.path.exists(os.path.join(d, "tlc.log")):
            m = re.search(r"MC_(\w+?)_mc", open(os.path.join(d, "tlc.log"), errors="replace").read())
            if m:
                meta["scenario"] = m.group(1)
        if extra:
            meta.update(extra)
        json.dump(meta, open(mp, "w"), indent=1)
        if "trace_module" in meta and not ctx.extra.get("_triaged"):
            ctx.extra["_triaged"] = True           # one triage per run is enough (it costs up to 13 validations + TLC runs)
            try:
                triage(ctx, comp, d)
            except Exception as ex:
                log("  triage failed: %s" % str(ex)[:300])


def run_comp(ctx, comp, scenarios, nseeds, nsim, mc=True, mc_timeout=3000):
    """full loop of conc.run_component: TLC safety + SC and software-TSO executions validated + TLC behaviours replayed into the code"""
    before = ctx.nviol
    try:
        conc.run_component(ctx, comp, scenarios, nseeds=nseeds, nsim=nsim, mc=mc, mc_timeout=mc_timeout)
    finally:
        tag_new_violations(ctx, before, comp)
    if mc:
        for scn in scenarios:
            z = ctx.extra.get("actions_never_taken", {}).get(scn)
            if z is not None:
                never = ctx.extra.get("_never")
                ctx.extra["_never"] = sorted(set(z) if never is None else set(never) & set(z))


def slim(ctx, comp, scn, tso, nseeds):
    """conformance only, one memory mode: nseeds seeded executions of the real code (oracles: deadlock, budget, UAF/quarantine, list consistency,
    GP guarantee) validated against the specification in one TLC run.  Used where TLC exhausts the same scenario elsewhere (liveness module or thorough tier)."""
    only = os.environ.get("VERIF_SCEN")
    if (only and scn not in only.split(",")) or len(ctx.violations) >= conc.MAXV:
        return
    wd = os.path.join(ctx.outdir, "work_slim"); shutil.rmtree(wd, ignore_errors=True); os.makedirs(wd)
    exe = build_driver(comp["drvname"], comp["driver"], defines=comp["defines"], tag=ctx.pid + "_" + comp["drvname"])
    sc = load_scenario(scn); before = ctx.nviol
    try:
        runs, fails, pf = conc.run_batch(ctx, comp, exe, sc, tso, [ctx.seed * 100003 + 7919 + i for i in range(nseeds)], wd)
        conc.report_failures(ctx, comp, fails)
        conc.validate(ctx, comp, sc, tso, runs, wd, "tvs_%s_%s_%d" % (scn, comp["name"], tso))
    finally:
        tag_new_violations(ctx, before, comp)
    log("  [conf] %s %s tso=%d: traces validated so far %d, violations %d" % (scn, comp["name"], tso, ctx.traces, len(ctx.violations)))
    shutil.rmtree(wd, ignore_errors=True)


def directed(ctx, entries, nseeds):
    """Force the real code along TLC-generated schedules that reach named target states (tools/gp_sched.py), complete each run nseeds + 1 times
    with differently seeded schedulers, require the target's marker event in the trace, run all oracles, and
    validate every trace against the specification."""
    import gp_sched as G
    only = os.environ.get("VERIF_SCEN")
    groups = {}
    for e in entries:
        if e.get("schedule") and not (only and e["scenario"] not in only.split(",")):
            groups.setdefault((e["scenario"], json.dumps(e["component"]), e["tso"]), []).append(e)
    wd = os.path.join(ctx.outdir, "work_dir"); shutil.rmtree(wd, ignore_errors=True); os.makedirs(wd)
    reached = ctx.extra.setdefault("directed_targets_reached_in_the_real_code", {})
    for (scn, args, tso), es in groups.items():
        if len(ctx.violations) >= conc.MAXV:
            break
        comp = G.comp_of(json.loads(args)); sc = load_scenario(scn); before = ctx.nviol
        exe = build_driver(comp["drvname"], comp["driver"], defines=comp["defines"], tag=ctx.pid + "_" + comp["drvname"])
        pf = conc.program_file(comp, sc, os.path.join(wd, "prog_%s.txt" % sc["name"]))
        runs = []; fails = []; rid = 0
        for e in es:
            hit = 0; early = 0
            for j in range(nseeds + 1):
                rid += 1
                sp = os.path.join(wd, "sched.txt")
                with open(sp, "w") as f:        # an unknown agent ends the forced prefix: the seeded scheduler (fair: uniform, or PCT with spin demotion) completes the run.
                    f.write("#auto-benign\n" + "\n".join(e["schedule"] + ["X:seeded"]) + "\n")      # (the runtime's "lowest agent first" completion would starve the leader behind a polling waiter)
                seed = ctx.seed * 1009 + j
                tp = os.path.join(wd, "d_%s_%d_%d.ndjson" % (scn, tso, rid))
                env = {"VRT_MODE": "uniform" if j % 2 == 0 else "pct", "VRT_DEPTH": 1 + j % 3, "VRT_LEN": comp.get("pct_len", 120)}; env.update(comp.get("env", {})); env["VRT_SCHED"] = sp
                rc, so, se = run_driver(exe, [seed, tso, tp, pf], env=env, timeout=30)
                raw = open(tp, errors="replace").read() if os.path.exists(tp) else ""
                m = re.search(r'"replay_diverged","at":\d+,"agent":"([^"]*)"', raw)
                if m and m.group(1) != "X:seeded":             # the code could not follow the forced prefix up to its end
                    early += 1
                if re.search(G.TARGETS[e["target"]][1], raw):
                    hit += 1
                if rc != 0:
                    env.pop("VRT_SCHED")
                    fails.append({"kind": "directed", "seed": seed, "tso": tso, "rc": rc, "stderr": se[-500:], "trace": tp, "env": env, "scenario": scn, "target": e["target"],
                                  "schedule": e["schedule"] + ["X:seeded"]})
                else:
                    runs.append((rid, read_trace(tp))); os.unlink(tp)
            key = "%s/%s/%s/tso%d" % (scn, comp["name"], e["target"], tso)
            reached[key] = "%d of %d runs" % (hit, nseeds + 1)
            if early:
                ctx.extra["directed_prefix_not_followed"] = ctx.extra.get("directed_prefix_not_followed", 0) + early
            if hit == 0 and not fails:
                ctx.extra.setdefault("_stale", []).append(key)
        try:
            conc.report_failures(ctx, comp, fails)
            n0 = ctx.traces
            conc.validate(ctx, comp, sc, tso, runs, wd, "tvd_%s_%s_%d" % (scn, comp["name"], tso))
            ctx.replays += ctx.traces - n0
        finally:
            tag_new_violations(ctx, before, comp)
        log("  [directed] %s %s tso=%d: %d targets, %d forced runs, traces validated so far %d, violations %d" % (scn, comp["name"], tso, len(es), rid, ctx.traces, len(ctx.violations)))
    shutil.rmtree(wd, ignore_errors=True)
    stale = ctx.extra.pop("_stale", [])
    if stale and not ctx.violations:
        raise RuntimeError("directed schedules no longer reach their targets on this tree although no check failed: %s (regenerate with `python3 tools/gp_sched.py --regen`)" % stale)


# ---------------------------------------------------------------------------------------------------------------- triage of rejected traces (DESIGN 2.6)
CAND = [("skip", l) for l in ("rl_mb", "ru_mb1", "ru_mb2", "s_mb0", "s_popmb", "s_mm1", "s_mb2", "s_mb3", "s_mm2", "w_mm", "w_mm2", "wg_mm")] + [("weak", "ru_st")]


def triage(ctx, comp, d):
    """A recorded execution was rejected.  If it IS a behaviour of the specification with exactly one fence removed (Skip) or one seq_cst store
    weakened (Weak), say which one, let TLC decide whether that fence is necessary on the bounded model, and when TLC has a counterexample force the
    real code along it under software-TSO (confirmation replay).  The verdict is appended to meta.json; the violation itself stands."""
    import gp_sched as G
    mp = os.path.join(d, "meta.json"); tp = os.path.join(d, "trace.ndjson")
    if not (os.path.exists(mp) and os.path.exists(tp)):
        return
    meta = json.load(open(mp))
    if "trace_module" not in meta or meta.get("triage"):
        return
    sc = load_scenario(meta["scenario"]); tso = meta["tso"]
    for kind, label in CAND:
        c = conc.consts_for(comp, sc, tso, True); c["__spec__"] = comp["spec"]
        c["Skip" if kind == "skip" else "Weak"] = tla({label})
        mod = gen_trace_module(comp["trace"], comp["spec"], "TVT_%s%s_%s_%d" % (sc["name"], comp["variant"], label, tso), c)
        v = validate_trace_file(mod, tp, tag="triage_" + mod, timeout=300)
        if not v.accepted:
            continue
        res = {"explained_by": "%s={%s}" % ("Skip" if kind == "skip" else "Weak", label)}
        # is the fence necessary?  bounded model with the fence removed, events recorded so that a counterexample is a schedule
        for scn in dict.fromkeys([sc["name"], "gp_c02_sleep", "gp_nest"]):
            s2 = load_scenario(scn)
            c2 = conc.consts_for(comp, s2, True, True); c2["Skip" if kind == "skip" else "Weak"] = tla({label})
            m2 = gen_mc(s2, "triage_%s_%s" % (comp["variant"], label), c2, cfg_lines=["SPECIFICATION Spec"] + ["INVARIANT " + i for i in comp["mc_invariants"]] + ["CONSTRAINT SBBound", "ACTION_CONSTRAINT IpiAtomic", "CHECK_DEADLOCK FALSE"],
                        extra_defs="IpiAtomic == \\A t \\in Threads : ((pc[t] = \"m_ipi\" /\\ ipi[t] # Threads) \\/ pc[t] = \"m_sys\") => (pc'[t] # pc[t] \\/ ipi'[t] # ipi[t])")
            r = run_tlc(m2, timeout=1500)
            ctx.states += r.distinct; ctx.transitions += r.states
            if r.violation:
                res["tlc"] = "counterexample: %s in %s with the fence removed (%d states)" % (r.violation, scn, r.distinct)
                sched = G.schedule_from_trace(r.out)
                exe = build_driver(comp["drvname"], comp["driver"], defines=comp["defines"], tag=ctx.pid + "_" + comp["drvname"])
                wd = os.path.join(d, "confirm"); os.makedirs(wd, exist_ok=True)
                pf = conc.program_file(comp, s2, os.path.join(wd, "prog.txt")); sp = os.path.join(wd, "sched.txt")
                open(sp, "w").write("#auto-benign\n" + "\n".join(sched) + "\n")
                env = dict(comp.get("env", {})); env["VRT_SCHED"] = sp
                rc, so, se = run_driver(exe, [0, 1, os.path.join(wd, "trace.ndjson"), pf], env=env, timeout=30)
                shutil.copy(r.log, os.path.join(wd, "tlc.log"))
                m = re.search(r"VRT-FAIL (.*)", se)
                res["confirmation_replay"] = ("the real code, forced along the TLC counterexample under software-TSO, fails: %s (schedule, trace, tlc.log in %s)" % (m.group(1) if m else "rc=%d" % rc, wd)) if rc != 0 \
                    else "the real code followed the schedule without an oracle failure (the model is more permissive here); the TLC counterexample in %s/tlc.log is the artefact" % wd
                break
            elif not r.ok:
                res["tlc"] = "TLC did not finish on %s (%s)" % (m2, r.error); break
        else:
            res["tlc"] = "no counterexample within the bounds (fence redundant on x86-TSO for these scenarios): drift, not a property violation by itself"
        meta["triage"] = res
        json.dump(meta, open(mp, "w"), indent=1)
        log("  triage %s: trace explained by %s; TLC: %s%s" % (d, res["explained_by"], res["tlc"], "; " + res["confirmation_replay"] if "confirmation_replay" in res else ""))
        return
    meta["triage"] = {"explained_by": None, "note": "not explained by removing a single fence: the implementation left the verified design"}
    json.dump(meta, open(mp, "w"), indent=1)
    log("  triage %s: not explained by the removal of any single fence / weakening of the seq_cst store" % d)


def directed_tier(ctx, prefix):
    """quick: the committed corpus scenarios/gp_corpus.json; thorough: schedules regenerated from TLC for the 2-thread scenarios (SC and TSO instances),
    the committed ones for the 3-thread scenarios (each costs minutes of TLC time; `python3 tools/gp_sched.py --regen` refreshes them)"""
    import gp_sched as G
    corpus = [e for e in G.load_corpus() if e["scenario"].startswith(prefix)]
    if ctx.quick():         # a subset: one trace-validation run per (scenario, component)
        skip = {("gp_c02_sleep", "memb_sys_f2"), ("gp_c02_2u", "memb_sys"), ("gp_c02_sleep", "memb_sys_enosys"), ("gp_c02_sleep", "mb_compat"), ("gp_c02_2u", "mb_f1"),
                ("gp_c02_2u", "memb_sys_f1e"), ("gp_c02_sig2u", "memb_sys_sigfx"), ("gp_c15_unreg", "memb_nosys"), ("gp_c15_rereg", "memb_nosys")}
        # (C15: 6 seeded completions per forced prefix -- what happens after the window, e.g. whether the held reader is still registered when the
        # grace period splices its lists back, is left to the seeded scheduler)
        return directed(ctx, [e for e in corpus if (e["scenario"], G.comp_of(e["component"])["name"]) not in skip], 6 if prefix == "gp_c15_" else 2)
    big = lambda scn: len(load_scenario(scn)["threads"]) > 2
    fresh = G.generate([p for p in G.PLAN if p[0].startswith(prefix) and not big(p[0])], tsos=(0, 1))
    ctx.extra["directed_targets_unreachable_in_TLC"] = ["%s/%s/tso%d" % (e["scenario"], e["target"], e["tso"]) for e in fresh if not e["schedule"]]
    directed(ctx, fresh + [e for e in corpus if big(e["scenario"])], 12)


def finish(ctx):
    ctx.extra.pop("_triaged", None)
    never = ctx.extra.pop("_never", None)
    if never is not None:
        ctx.extra["actions_never_taken_in_any_exhaustive_config_of_this_run"] = [a for a in never if not a.startswith("h_")]


def liveness(ctx, comp, scn, tso, sbmax=2, invariants=INV, timeout=3000):
    """FairSpec => Termination on a module with NO state constraint.  tso=False: SC instance.  tso=True: stores block on a full buffer of
    sbmax entries (SBBlock), so the bound lives in the enabling condition and no behaviour is cut."""
    only = os.environ.get("VERIF_SCEN")
    if (only and scn not in only.split(",")) or len(ctx.violations) >= conc.MAXV:
        return None
    sc = load_scenario(scn)
    c = gp_consts(sc, comp["flavor"], comp["sysmb"], comp["fault_budget"], futex_mode=comp["futex_mode"], sbblock=True, sbmax=sbmax)       # (no signals in the liveness configurations)
    c["TSO"] = "TRUE" if tso else "FALSE"; c["Tracing"] = "FALSE"
    cfg = ["SPECIFICATION FairSpec", "PROPERTY Termination"] + ["INVARIANT " + i for i in ("DeadlockFree", "FutexRange", "LockOrder") + tuple(invariants)] + ["CHECK_DEADLOCK FALSE"]
    mod = gen_mc(sc, "live_%s_%s" % (comp["variant"], "tso%d" % sbmax if tso else "sc"), c, cfg_lines=cfg)
    assert "CONSTRAINT" not in open(os.path.join(GEN, mod + ".cfg")).read()
    r = run_tlc(mod, timeout=timeout, heap=comp.get("heap", "8g"), coverage=True)
    ctx.add_tlc(r, mod, {k: v for k, v in c.items() if len(v) < 200})
    if r.ok and r.coverage:
        z = {k for k, v in r.coverage.items() if v[0] == 0 and k != "Terminating"}
        never = ctx.extra.get("_never")
        ctx.extra["_never"] = sorted(z if never is None else set(never) & z)
    checked = "Checking temporal properties for the complete state space" in r.out
    ctx.extra.setdefault("liveness", []).append({"module": mod, "scenario": scn, "component": comp["name"], "memory": ("TSO, stores block at %d buffered entries" % sbmax) if tso else "SC",
                                                 "fairness": "WF(each thread), WF(each flush agent)", "property": "Termination == <>(all threads Done)", "state_constraint": None,
                                                 "distinct_states": r.distinct, "wall_s": round(r.wall, 1), "temporal_check_ran": checked, "result": "holds" if r.ok else (r.violation or r.error)})
    log("  [TLC-live] %s %s %s: %d distinct states, %.0fs, %s" % (scn, comp["name"], "tso" if tso else "sc", r.distinct, r.wall, "Termination holds" if r.ok else (r.violation or r.error)))
    if r.violation:
        d = ctx.viol_dir(); shutil.copy(r.log, os.path.join(d, "tlc.log"))
        json.dump({"kind": "tlc-liveness", "scenario": scn, "tso": int(tso), "sbmax": sbmax, "invariants": list(invariants), "component": comp_key(comp), "module": mod}, open(os.path.join(d, "meta.json"), "w"), indent=1)
        ctx.violation("TLC: %s violated in %s under FairSpec (%s; counterexample in tlc.log)" % (r.violation, mod, "a synchronize_rcu() call never returns / a thread never finishes" if r.violation == "temporal property" else "safety"), d)
    elif not r.ok:
        if r.error == "timeout":
            ctx.notes.append("%s: TLC timed out after %ds (liveness not decided)" % (mod, timeout))
        else:
            raise RuntimeError("TLC failed on %s: %s\n%s" % (mod, r.error, r.out[-1500:]))
    elif not checked:
        raise RuntimeError("TLC did not run the temporal check on %s" % mod)
    return r


# ---------------------------------------------------------------------------------------------------------------- fence table (vacuity control)
# (component args, label, kind, scenarios, expected): every fence of the reader fast path and of synchronize_rcu()/wait_for_readers()/wait_gp()
# is removed in turn (Skip) -- or the seq_cst store weakened (Weak) -- and the bounded model re-checked: "necessary" = TLC finds a counterexample
# (which invariant is recorded in the evidence), "redundant" = exhaustive exploration of the listed scenarios finds none (on x86-TSO, within the bounds).
# A fence listed as necessary for which TLC no longer finds a counterexample means the invariants lost their teeth: the check fails (exit 2).
MB, MS, MN = ("mb", False), ("memb", True), ("memb", False)
SAFE = ["gp_c02_sleep", "gp_nest"]
FENCES = [
    # reader side
    (MB, "rl_mb", "skip", SAFE, "necessary"), (MN, "rl_mb", "skip", SAFE, "necessary"),
    (MN, "ru_mb1", "skip", SAFE, "redundant"),
    (MN, "ru_mb2", "skip", SAFE, "necessary"), (MB, "ru_st", "weak", SAFE, "necessary"),
    # updater side
    (MB, "s_mb0", "skip", SAFE, "redundant"), (MB, "s_popmb", "skip", SAFE, "redundant"),
    (MB, "s_mm1", "skip", SAFE, "redundant"), (MS, "s_mm1", "skip", SAFE, "necessary"),
    (MB, "s_mb2", "skip", SAFE, "redundant"), (MB, "s_mb3", "skip", SAFE, "redundant"), (MS, "s_mb2", "skip", SAFE, "redundant"), (MS, "s_mb3", "skip", SAFE, "redundant"),
    (MB, "s_mm2", "skip", SAFE, "redundant"), (MS, "s_mm2", "skip", SAFE, "redundant"), (MN, "s_mm1", "skip", SAFE, "redundant"), (MN, "s_mm2", "skip", SAFE, "redundant"),
    (MB, "w_mm", "skip", SAFE, "redundant"), (MN, "w_mm", "skip", SAFE, "redundant"), (MS, "w_mm", "skip", SAFE, "necessary"),
    (MB, "w_mm2", "skip", SAFE, "redundant"), (MS, "w_mm2", "skip", SAFE, "redundant"),
    (MB, "wg_mm", "skip", SAFE, "redundant"), (MS, "wg_mm", "skip", SAFE, "redundant"),
]


def fence_table(ctx, entries, timeout=1500):
    tab = ctx.extra.setdefault("fence_table", [])
    for (flavor, sysmb), label, kind, scns, expected in entries:
        comp = gp_component(flavor, sysmb)
        found = None; total = 0
        for scn in scns:
            sc = load_scenario(scn)
            c = gp_consts(sc, flavor, sysmb, skip=(label,) if kind == "skip" else (), weak=(label,) if kind == "weak" else ())
            c["TSO"] = "TRUE"; c["Tracing"] = "FALSE"
            mod = gen_mc(sc, "fence_%s_%s" % (comp["variant"], label), c, cfg_lines=["SPECIFICATION Spec"] + ["INVARIANT " + i for i in comp["mc_invariants"]] + ["CONSTRAINT SBBound", "CHECK_DEADLOCK FALSE"])
            r = run_tlc(mod, timeout=timeout)
            total += r.distinct
            ctx.states += r.distinct; ctx.transitions += r.states      # mutated models: counted, but not listed as claim configs
            if r.violation:
                found = "%s in %s (%d states)" % (r.violation, scn, r.distinct); break
            if not r.ok:
                raise RuntimeError("TLC failed on %s: %s\n%s" % (mod, r.error, r.out[-1500:]))
        verdict = "necessary" if found else "redundant"
        tab.append({"component": comp["name"], "label": label, "mutation": kind, "verdict": verdict, "counterexample": found, "states_explored": total, "scenarios": scns})
        log("  [fence] %-10s %s %-8s: %s%s" % (comp["name"], kind, label, verdict, " -- " + found if found else " (%d states, no counterexample)" % total))
        if verdict != expected:
            if expected == "necessary":
                raise RuntimeError("vacuity control: removing %s (%s) no longer yields a counterexample -- the invariants of UrcuGp lost their teeth" % (label, comp["name"]))
            ctx.notes.append("fence table: %s in %s was expected to be redundant on x86-TSO but TLC found %s" % (label, comp["name"], found))


# ---------------------------------------------------------------------------------------------------------------- run


def _flavor_parts(ctx):
    # the qsbr and bp flavors (their own specifications and drivers)
    from props import qsbr_parts, bp_parts
    ctx.extra.setdefault("flavors_covered", []).extend(["mb", "memb+sys_membarrier", "memb without sys_membarrier"])
    if len(ctx.violations) < conc.MAXV:
        qsbr_parts.run_c02(ctx); ctx.extra["flavors_covered"].append("qsbr")
    if len(ctx.violations) < conc.MAXV:
        bp_parts.run_c02(ctx); ctx.extra["flavors_covered"].append("bp")


def run(ctx):
    if COV:         # coverage pass: the flavor parts first (a forced schedule that a coverage build cannot follow must not hide them)
        _flavor_parts(ctx)
    q = ctx.quick()
    n, sim = (40, 12) if q else (400, 100)
    mb = gc("mb", False); ms = gc("memb", True); mn = gc("memb", False)
    mb1 = gc("mb", False, fault_budget=1); ms2 = gc("memb", True, fault_budget=2); mn2 = gc("memb", False, fault_budget=2); mb2 = gc("mb", False, fault_budget=2)
    mbe = gc("mb", False, futex_mode="enosys"); mse = gc("memb", True, futex_mode="enosys"); mne = gc("memb", False, futex_mode="enosys")
    mbc = gc("mb", False, futex_mode="compat"); mbc1 = gc("mb", False, futex_mode="compat", fault_budget=1); msc = gc("memb", True, futex_mode="compat")
    # first the directed schedules: they put the real code into the sleep / wake-up windows, so a lost wake-up shows up as a concrete DEADLOCK replay
    directed_tier(ctx, "gp_c02_")
    if q:
        # one full loop on the smallest scenario (TLC safety with action coverage, seeded SC + software-TSO executions validated) ...
        run_comp(ctx, mb, ["gp_c02_sleep"], n, 0)
        # ... per configuration one exhaustive FairSpec/Termination module (it also checks every safety invariant on all reachable states of the
        # same bounded instance), the directed-schedule corpus (below), and seeded executions of two 3-thread scenarios
        live = [("gp_c02_sleep", ms2, True, 2), ("gp_c02_sleep", mn2, True, 2), ("gp_c02_2u", mb1, True, 2), ("gp_c02_2u", mbe, True, 2), ("gp_c02_2u", mbc1, True, 2)]
        for comp, scn, tso in ((mb1, "gp_c02_2r", 1), (mbc1, "gp_c02_2u1r", 0)):
            slim(ctx, comp, scn, tso, n)
    else:
        n, sim = (int(os.environ.get("VERIF_C02_N", n)), int(os.environ.get("VERIF_C02_SIM", sim)))
        two = ["gp_c02_sleep", "gp_c02_2gp", "gp_c02_2u"]
        run_comp(ctx, mb, two + ["gp_c02_2u1r", "gp_c02_2r", "gp_c02_2u2gp"] + (["gp_c02_3u"] if os.environ.get("VERIF_C02_HUGE") else []), n, sim)
        run_comp(ctx, ms, two + ["gp_c02_2u1r"], n, sim)
        run_comp(ctx, mn, two + ["gp_c02_2r"], n, sim)
        run_comp(ctx, mb2, ["gp_c02_sleep", "gp_c02_2gp", "gp_c02_2u1r"], n, sim)
        run_comp(ctx, mb1, ["gp_c02_2u", "gp_c02_2r"], n, sim)
        run_comp(ctx, ms2, ["gp_c02_sleep", "gp_c02_2gp", "gp_c02_2u"], n, sim)
        run_comp(ctx, mn2, ["gp_c02_sleep", "gp_c02_2u"], n, sim)
        run_comp(ctx, mbe, ["gp_c02_sleep", "gp_c02_2u", "gp_c02_2u1r"], n, sim)
        run_comp(ctx, mse, ["gp_c02_sleep", "gp_c02_2u"], n, sim)
        run_comp(ctx, mne, ["gp_c02_sleep"], n, sim)
        run_comp(ctx, mbc, ["gp_c02_sleep", "gp_c02_2u", "gp_c02_2u1r"], n, sim)
        run_comp(ctx, msc, ["gp_c02_2u"], n, sim)
        run_comp(ctx, mbc1, ["gp_c02_2u"], n, sim)
        run_comp(ctx, gc("mb", False, fault_budget=1, faults="eintr"), ["gp_c02_2u"], n, sim)
        # signal handlers (with their own read-side section) interrupting either caller anywhere, also while it is asleep in FUTEX_WAIT (-> EINTR)
        run_comp(ctx, gc("mb", False, sig_threads=("u1", "u2"), sig_budget=1, sig_futex=True), ["gp_c02_sig2u"], n, sim)
        run_comp(ctx, gc("memb", True, sig_threads=("u1", "u2"), sig_budget=1, sig_futex=True), ["gp_c02_sig2u"], n, sim)
        live = [(s, c, True, 2) for s in two for c in (mb2, ms2, mn2, mbe, mbc1)] + [(s, c, False, 0) for s in ("gp_c02_sleep", "gp_c02_2u") for c in (mb2, ms2)]
        live += [("gp_c02_2u1r", mb, False, 0), ("gp_c02_2u1r", ms, False, 0), ("gp_c02_2r", mn, False, 0), ("gp_c02_2u1r", mbe, False, 0), ("gp_c02_2u1r", mbc, False, 0), ("gp_c02_2u1r", mb1, True, 1)]
    for scn, comp, tso, sbmax in live:
        liveness(ctx, comp, scn, tso=tso, sbmax=sbmax)
    if q:
        # two entries of the fence table as a permanent teeth check of DeadlockFree (lost wake-up under TSO only)
        fence_table(ctx, [(MN, "ru_mb2", "skip", ["gp_c02_sleep"], "necessary"), (MB, "ru_st", "weak", ["gp_c02_sleep"], "necessary")])
    else:
        fence_table(ctx, FENCES)
    finish(ctx)
    if not COV:
        _flavor_parts(ctx)


def replay(ctx, path):
    from props import qsbr_parts, bp_parts
    if qsbr_parts.is_mine(path):
        return qsbr_parts.replay_c02(ctx, path)
    if bp_parts.is_bp_replay(path):
        return bp_parts.replay(ctx, path)
    mp = os.path.join(path, "meta.json")
    if not os.path.exists(mp):
        raise RuntimeError("no meta.json in %s" % path)
    meta = json.load(open(mp))
    comp = gp_component(meta["component"]["flavor"], meta["component"]["sysmb"], fault_budget=meta["component"]["fault_budget"], futex_mode=meta["component"]["futex_mode"], faults=meta["component"].get("faults", "mixed"),
                        extra_invariants=tuple(meta.get("invariants", ()))) if "component" in meta else gp_component("mb", False)
    if meta.get("kind") == "tlc-liveness":
        liveness(ctx, comp, meta["scenario"], tso=bool(meta["tso"]), sbmax=meta["sbmax"], invariants=tuple(meta.get("invariants", ())))
    elif meta.get("kind") == "tlc-safety":
        conc.model_check(ctx, comp, load_scenario(meta["scenario"]))
    elif meta.get("kind") == "directed":
        sc = load_scenario(meta["scenario"]); wd = os.path.join(ctx.outdir, "replay_work"); shutil.rmtree(wd, ignore_errors=True); os.makedirs(wd)
        exe = build_driver(comp["drvname"], comp["driver"], defines=comp["defines"], tag=ctx.pid + "_" + comp["drvname"])
        pf = conc.program_file(comp, sc, os.path.join(wd, "prog_%s.txt" % sc["name"])); sp = os.path.join(wd, "sched.txt"); tp = os.path.join(wd, "t.ndjson")
        open(sp, "w").write("#auto-benign\n" + "\n".join(meta["schedule"]) + "\n")
        env = dict(meta["env"]); env["VRT_SCHED"] = sp
        rc, so, se = run_driver(exe, [meta["seed"], meta["tso"], tp, pf], env=env, timeout=30)
        if rc != 0:
            conc.report_failures(ctx, comp, [dict(meta, rc=rc, stderr=se[-500:], trace=tp)])
        else:
            conc.validate(ctx, comp, sc, meta["tso"], [(meta["seed"], read_trace(tp))], wd, "tv_replay")
    else:
        conc.replay(ctx, comp, path)
        return
    log("replay of %s: %s" % (path, "violation reproduced" if ctx.violations else "no violation on the current tree"))
