"""C19 parts added to tools/props/c19.py (run concurrently with its original body, in a context of their own):

A. Signals in the middle of call_rcu().  spec/CallRcu.tla has a signal-handler process per interruptible thread (SigThreads, SigBudget):
   rcu_read_lock(); p = rcu_dereference(gptr); touch *p; rcu_read_unlock() on the abstract reader state of the interrupted thread, enabled
   between any two of its steps -- inside call_rcu()'s internal read-side section, inside the lazy creation of the default helper under
   call_rcu_mutex, between the two steps of the wfcq enqueue, in the wake-up of the helper, in get_default_call_rcu_data(), and with the
   caller already inside a section of its own (nesting depth 2 for the handler, 3 with its own lock).  TLC checks SigRestores (nesting and
   open section at sig_exit are those at sig_enter), NoUseAfterFree (the handler touching an object reclaimed after pub; synchronize_rcu; qfree
   by an updater), AfterGP / AtMostOnce / NoLoss for the callback being enqueued, deadlock freedom.  harness/d_callrcu.c runs the REAL
   urcu-call-rcu-impl.h inside the real mb / memb translation units (src/urcu.c): the runtime delivers the handler at the k-th scheduling
   point of the caller for every k (VRT_SIGAT) and at random points (VRT_SIGS); driver oracles: use-after-free in the handler (flag +
   quarantine), reader word / nesting count / rcu_read_ongoing() at handler exit equal to those at entry, callback exactly once after a grace
   period; every execution, projected on the call_rcu component (tools/callrcu_common.py project_real), is validated against CallRcu including
   the nesting counts the executed code read from the flavor's reader word at sig_enter / sig_exit.
B. spec/UrcuGp.tla <-> harness/d_gp.c: gp_sig_nest (reader with a nested section: handler at depth 0, 1, 2) and gp_sig_sync (registered
   updater interrupted anywhere inside synchronize_rcu(), also while asleep in FUTEX_WAIT: VRT_SIG_FUTEX) in the quick tier.
"""
import os, json, re, shutil, threading, traceback
import concurrent.futures as cf
from vlib import *
import conc
import callrcu_common as cc
from props.gpcommon import gp_component

ASSUMPTIONS = [
    "call_rcu() interruption: the handler is delivered at the scheduling points of the VSCHED runtime (hooked shared accesses, mutex / futex / pthread_create calls of the "
    "interrupted thread, including those of the flavor's own rcu_read_lock / rcu_read_unlock inside call_rcu()), not at every machine instruction; signals are blocked by the "
    "library itself around pthread_create in call_rcu_data_init (modelled as interruptible in the specification: a superset)",
    "call_rcu() interruption: grace period abstract in spec/CallRcu.tla; the executed code is the real mb flavor (quick and thorough) and memb flavor (quick: one scenario; "
    "thorough: all) with grace-period internals projected away; bp: call_rcu() inside urcu-bp is not executed with signals",
    "call_rcu() interruption bounds: one interrupted caller, one rcu_head, default helper (created lazily inside the interrupted call, or beforehand), one updater "
    "(pub; synchronize_rcu; reclaim), one signal per execution in TLC (two in the thorough tier)",
]
CRCU_QUICK_MC = ["crcu_sig", "crcu_sig_nest"]
CRCU_ALL = ["crcu_sig", "crcu_sig_pre", "crcu_sig_nest"]
NEG = [("crcu_sig", ["sigleak"], "SigRestores"), ("crcu_sig", ["nousync"], "uaf")]
SIG_THREAD = "e1"


def tlc_workers():
    return max(1, min(6, int(os.environ.get("VERIF_TLC_WORKERS", "0")) or 6))


def site_of(ev, thread):
    """Where the handler interrupted `thread` in one recorded execution: (nesting count found, last event of the thread before the frame)."""
    mine = [e for e in ev if e.get("t") == thread and e.get("op") not in ("flush", "sigmask")]
    i = next((i for i, e in enumerate(mine) if e.get("op") == "sig_enter"), None)
    if i is None:
        return None
    st = mine[i + 1] if i + 1 < len(mine) and mine[i + 1].get("op") == "sigst" else {}
    p = mine[i - 1] if i else {}
    var = p.get("var", "-")
    return "depth %s after %s%s%s" % (st.get("nest", "?"), p.get("op", "start"), "" if var in ("-", "?") else " " + var, " @" + p["loc"] if p.get("loc") else "")


def patch_metas(ctx, nv0, keymap, extra_env):
    """Violation directories written by conc.validate for executions of a sweep carry the sweep's composite key as seed: put the real seed and the
    runtime environment (VRT_SIGAT ...) there, so that ./check C19 --replay re-runs exactly that execution."""
    for v in ctx.violations[nv0:]:
        mp = os.path.join(v["replay"], "meta.json")
        try:
            meta = json.load(open(mp))
        except Exception:
            continue
        if "env" in meta or meta.get("seed") not in keymap:
            continue
        seed, env = keymap[meta["seed"]]
        meta["seed"] = seed; meta["env"] = dict(env, **extra_env)
        json.dump(meta, open(mp, "w"), indent=1)


def crcu_conformance(ctx, flavor, scn, kmax, nsweep, nrand, tsos, plain=False):
    """SIGAT sweep (every scheduling point of e1) + random delivery, executions validated against CallRcu.
    plain: every compiler-instrumented plain access of the library code is a scheduling point too (CR_WATCH_PLAIN=2: a superset of the hooked
    accesses, about twice as many delivery points: inside call_rcu_data_init, between the plain read of the reader word and its store, ...)."""
    comp = cc.component(cc.REAL_DEFINES[flavor], variant="_" + flavor) if flavor != "abs" else cc.component()
    comp["env"] = dict(comp["env"], VRT_BUDGET=30000, **({"CR_WATCH_PLAIN": 2} if plain else {}))
    proj = cc.project_real if flavor != "abs" else cc.project
    wd = os.path.join(ctx.outdir, "work_crcu_" + flavor); shutil.rmtree(wd, ignore_errors=True); os.makedirs(wd)
    exe = build_driver(comp["drvname"], comp["driver"], defines=comp["defines"], tag=ctx.pid + "_" + comp["drvname"])
    sc = load_scenario(scn)
    sites = set(); n0 = ctx.traces; points = 0
    fenv = dict({"CR_REAL_FLAVOR": flavor} if flavor != "abs" else {}, **({"CR_WATCH_PLAIN": 2} if plain else {}))
    tag = "%s/%s%s" % (scn, flavor, "+plain" if plain else "")
    for tso in tsos:
        if len(ctx.violations) >= conc.MAXV:
            break
        allruns = []; miss = 0; keymap = {}; pts = 0
        for k in range(kmax):
            env = {"VRT_SIGAT": "%s:%d" % (SIG_THREAD, k), "VRT_SIGS": 0}
            runs, fails, pf = conc.run_batch(ctx, comp, exe, sc, tso, [ctx.seed * 7 + j for j in range(nsweep)], wd, env_extra=env)
            for f in fails:
                f["env"].update(fenv)
            conc.report_failures(ctx, comp, fails)
            hit = 0
            for s, ev in runs:
                st = site_of(ev, SIG_THREAD)
                if st:
                    sites.add(st); hit += 1
                allruns.append((s * 1000 + k, proj(ev))); keymap[s * 1000 + k] = (s, env)
            miss = 0 if hit else miss + 1
            pts += 1 if hit else 0
            if miss >= 3:       # past the last scheduling point of the thread
                break
        points = max(points, pts)
        env = {"VRT_SIGS": sc.get("sig_budget", 1)}
        runs, fails, pf = conc.run_batch(ctx, comp, exe, sc, tso, [ctx.seed * 100003 + 90000 + i for i in range(nrand)], wd, env_extra=env)
        for f in fails:
            f["env"].update(fenv)
        conc.report_failures(ctx, comp, fails)
        for s, ev in runs:
            st = site_of(ev, SIG_THREAD)
            if st:
                sites.add(st)
            keymap[s] = (s, env)
        allruns += [(s, proj(ev)) for s, ev in runs]
        if allruns and tso == tsos[0]:
            smp = next((r for r in allruns if any(e["op"] == "sig_enter" for e in r[1])), allruns[0])
            i = next((i for i, e in enumerate(smp[1]) if e["op"] == "sig_enter"), 0)
            ctx.sample({"kind": "recorded execution of the real code, projected on the call_rcu component (events around the signal handler frame)", "scenario": scn, "flavor": flavor,
                        "tso": tso, "seed": smp[0], "events": [{k: v for k, v in e.items() if v != "-"} for e in smp[1][max(0, i - 3):i + 8]]})
        nv0 = len(ctx.violations)
        conc.validate(ctx, comp, sc, tso, allruns, wd, "tvsig_%s_%s_%d" % (flavor, scn, tso))
        patch_metas(ctx, nv0, keymap, fenv)
    ctx.extra.setdefault("interruption_points_exercised", {})[tag] = points          # scheduling points of the interrupted thread at which the handler was delivered (VRT_SIGAT sweep)
    ctx.extra.setdefault("interruption_sites", {})[tag] = sorted(sites)             # ... described by nesting depth found and the thread's last recorded event (sweep and random delivery)
    log("  [sig call_rcu] %s: handler delivered at %d scheduling points (%d distinct sites by depth / preceding event), traces validated %d, violations %d" % (
        tag, points, len(sites), ctx.traces - n0, len(ctx.violations)))
    shutil.rmtree(wd, ignore_errors=True)


def gp_model_check(comp, sc, workers, timeout):
    c = conc.consts_for(comp, sc, True, False)
    mod = gen_mc(sc, "mc" + comp.get("variant", ""), c, cfg_lines=["SPECIFICATION " + comp.get("mc_spec", "Spec")] + ["INVARIANT " + i for i in comp["invariants"] + comp.get("mc_invariants", [])] +
                 ["CONSTRAINT " + x for x in comp.get("constraints", [])] + ["CHECK_DEADLOCK FALSE"])
    for attempt in (1, 2):
        r = run_tlc(mod, coverage=True, timeout=timeout, heap="8g", workers=workers)
        if r.ok or r.violation or r.error:
            break
    return mod, c, r


def gp_report(ctx, sc, mod, c, r, timeout):
    ctx.add_tlc(r, mod, {k: v for k, v in c.items() if len(v) < 200})
    log("  [TLC] %s: %d distinct states, %.0fs, %s" % (mod, r.distinct, r.wall, "ok" if r.ok else (r.violation or r.error)))
    if r.violation:
        d = ctx.viol_dir(); shutil.copy(r.log, os.path.join(d, "tlc.log"))
        json.dump({"kind": "tlc", "scenario": sc["name"], "module": mod}, open(os.path.join(d, "meta.json"), "w"))
        ctx.violation("TLC: %s violated in %s (design-level counterexample in tlc.log)" % (r.violation, mod), d)
    elif not r.ok:
        if r.error == "timeout":
            ctx.notes.append("%s: TLC timed out after %ds with %d distinct states (not exhaustive)" % (mod, timeout, r.distinct))
        else:
            raise RuntimeError("TLC failed on %s: %s\n%s" % (mod, r.error, r.out[-1500:]))
    ctx.extra.setdefault("actions_never_taken", {})[mod] = [k for k, v in r.coverage.items() if v[1] == 0 and k not in ("Terminating",)]


def gp_conformance(ctx, comp, scn, thread, kmax, nsweep, nrand, tsos, nsim):
    """d_gp over the real mb / memb flavor: SIGAT sweep over the scheduling points of `thread` + random delivery (with VRT_SIG_FUTEX: also
    while the thread sleeps in FUTEX_WAIT), executions validated against UrcuGp; optionally TLC-simulated behaviours replayed into the code."""
    wd = os.path.join(ctx.outdir, "work_gp_" + comp["name"]); shutil.rmtree(wd, ignore_errors=True); os.makedirs(wd)
    exe = build_driver(comp["drvname"], comp["driver"], defines=comp["defines"], tag=ctx.pid + "_" + comp["drvname"])
    sc = load_scenario(scn)
    n0 = ctx.traces; points = 0; asleep = 0
    for tso in tsos:
        if len(ctx.violations) >= conc.MAXV:
            break
        allruns = []; miss = 0; pts = 0; keymap = {}
        # sweep seeds: among 24 signal-free executions, those in which `thread` takes the most steps (the longest paths through its operations:
        # extra scan rounds, waits), one per distinct length
        runs, fails, pf = conc.run_batch(ctx, comp, exe, sc, tso, [ctx.seed * 7 + j for j in range(24)], wd, env_extra={"VRT_SIGS": 0})
        conc.report_failures(ctx, comp, fails)
        allruns += [(s * 1000 + 999, ev) for s, ev in runs]
        keymap.update({s * 1000 + 999: (s, {"VRT_SIGS": 0}) for s, ev in runs})
        bylen = {}
        for s, ev in runs:
            bylen.setdefault(sum(1 for e in ev if e.get("t") == thread and e.get("op") not in ("flush", "call", "ret")), s)
        sweep_seeds = [bylen[n] for n in sorted(bylen, reverse=True)[:nsweep]] or [ctx.seed * 7]
        for k in range(kmax):
            env = {"VRT_SIGAT": "%s:%d" % (thread, k), "VRT_SIGS": 0}
            runs, fails, pf = conc.run_batch(ctx, comp, exe, sc, tso, sweep_seeds, wd, env_extra=env)
            conc.report_failures(ctx, comp, fails)
            hit = [r for r in runs if any(e.get("op") == "sig_enter" for e in r[1])]
            pts += 1 if hit else 0
            allruns += [(s * 1000 + k, ev) for s, ev in runs]
            keymap.update({s * 1000 + k: (s, env) for s, ev in runs})
            miss = 0 if (hit or fails) else miss + 1
            if miss >= 3:
                break
        points = max(points, pts)
        runs, fails, pf = conc.run_batch(ctx, comp, exe, sc, tso, [ctx.seed * 100003 + 90000 + i for i in range(nrand)], wd)
        conc.report_failures(ctx, comp, fails)
        for s, ev in runs:      # a handler frame that starts while the thread is asleep: the event before sig_enter is its fwait ... SLEEP
            mine = [e for e in ev if e.get("t") == thread]
            for i, e in enumerate(mine):
                if e.get("op") == "sig_enter" and i and mine[i - 1].get("op") == "fwait" and mine[i - 1].get("r") == "SLEEP":
                    asleep += 1
        allruns += runs
        nv0 = len(ctx.violations)
        conc.validate(ctx, comp, sc, tso, allruns, wd, "tvsig_%s_%s_%d" % (scn, comp["name"], tso))
        patch_metas(ctx, nv0, keymap, {})
        if nsim and len(ctx.violations) < conc.MAXV:
            conc.spec_to_code(ctx, comp, exe, sc, tso, nsim, wd)
    ctx.extra.setdefault("interruption_points_exercised", {})["%s/%s" % (scn, comp["name"])] = points
    if comp["env"].get("VRT_SIG_FUTEX") and asleep:
        ctx.extra.setdefault("handler_frames_started_while_asleep_in_futex_wait", {})["%s/%s" % (scn, comp["name"])] = asleep
    log("  [sig gp] %s over %s: %d interruption points, traces validated %d, violations %d" % (scn, comp["name"], points, ctx.traces - n0, len(ctx.violations)))
    shutil.rmtree(wd, ignore_errors=True)


def gp_asleep(ctx, flavor, n, tsos):
    """Directed runs: the handler is delivered ONLY to a thread asleep in FUTEX_WAIT (VRT_SIG_FUTEX=2) -- two registered updaters in concurrent
    synchronize_rcu() calls (scenario gp_c02_sig2u: the follower sleeps on its wait node, the leader on the gp futex when it finds the other's handler
    section open); the interrupted wait returns EINTR afterwards.  Executions validated against UrcuGp (SigFutex = TRUE); the scenario's TLC run is C02's."""
    comp = gp_component(flavor, flavor == "memb", sig_threads=("u1", "u2"), sig_budget=1, sig_futex=True)
    comp["name"] += "_asleep"; comp["variant"] = comp["name"]; comp["drvname"] = "d_gp_" + comp["name"]
    comp["env"] = dict(comp["env"], VRT_SIG_FUTEX=2)
    wd = os.path.join(ctx.outdir, "work_gp_" + comp["name"]); shutil.rmtree(wd, ignore_errors=True); os.makedirs(wd)
    exe = build_driver(comp["drvname"], comp["driver"], defines=comp["defines"], tag=ctx.pid + "_" + comp["drvname"])
    sc = load_scenario("gp_c02_sig2u"); asleep = 0; n0 = ctx.traces
    for tso in tsos:
        if len(ctx.violations) >= conc.MAXV:
            break
        runs, fails, pf = conc.run_batch(ctx, comp, exe, sc, tso, [ctx.seed * 100003 + 95000 + i for i in range(n)], wd)
        conc.report_failures(ctx, comp, fails)
        for s, ev in runs:
            for u in ("u1", "u2"):
                mine = [e for e in ev if e.get("t") == u]
                asleep += sum(1 for i, e in enumerate(mine) if e.get("op") == "sig_enter" and i and mine[i - 1].get("op") == "fwait" and mine[i - 1].get("r") == "SLEEP")
        conc.validate(ctx, comp, sc, tso, runs, wd, "tvsig_asleep_%s_%d" % (comp["name"], tso))
    ctx.extra.setdefault("handler_frames_started_while_asleep_in_futex_wait", {})["gp_c02_sig2u/" + comp["name"]] = asleep
    log("  [sig gp] gp_c02_sig2u over %s: %d handler frames on a thread asleep in FUTEX_WAIT, traces validated %d, violations %d" % (comp["name"], asleep, ctx.traces - n0, len(ctx.violations)))
    shutil.rmtree(wd, ignore_errors=True)


def run_parts(ctx):
    q = ctx.quick()
    W = tlc_workers()
    crcomp = cc.component()
    gp = {("mb", "nest"): gp_component("mb", False, sig_threads=("r1",), sig_budget=1),
          ("memb", "nest"): gp_component("memb", True, sig_threads=("r1",), sig_budget=1),
          ("mb", "sync"): gp_component("mb", False, sig_threads=("u1",), sig_budget=1, sig_futex=True),
          ("memb", "sync"): gp_component("memb", True, sig_threads=("u1",), sig_budget=1, sig_futex=True)}
    for (fl, kind), c in gp.items():      # distinct names: the components of c19.py's own body use the same flavors with other signal threads
        c["name"] += "_" + kind; c["variant"] = c["name"]; c["drvname"] = "d_gp_" + c["name"]
    with cf.ThreadPoolExecutor(1) as pool:          # one background TLC at a time (<= 6 workers) next to the foreground driver runs / trace validation
        jobs = []
        mc_timeout = 900 if q else 3000
        for s in ([] if COV else CRCU_QUICK_MC if q else CRCU_ALL):      # (anchor coverage pass: only the drivers matter)
            jobs.append(("crcu", load_scenario(s), None, pool.submit(cc.model_check, crcomp, load_scenario(s), W, mc_timeout, (), (), True)))
        gpjobs = [(("mb", "sync"), "gp_sig_sync"), (("mb", "nest"), "gp_sig_nest")] + ([] if q else [(("memb", "sync"), "gp_sig_sync"), (("memb", "nest"), "gp_sig_nest")])
        for key, s in ([] if COV else gpjobs):
            jobs.append(("gp", load_scenario(s), None, pool.submit(gp_model_check, gp[key], load_scenario(s), W, mc_timeout)))
        if not COV:
            for s, m, exp in NEG:       # model-level negative controls: the invariants have teeth (a few hundred states each)
                jobs.append(("crcu", load_scenario(s), exp, pool.submit(cc.model_check, crcomp, load_scenario(s), W, mc_timeout, (), tuple(m))))
        if not q and not COV:
            s2 = dict(load_scenario("crcu_sig"), sig_budget=2, name="crcu_sig_b2")
            jobs.append(("crcu", s2, None, pool.submit(cc.model_check, crcomp, s2, W, mc_timeout, (), (), False)))
        # ---- A: call_rcu() interrupted, real flavors
        if q:
            crcu_conformance(ctx, "mb", "crcu_sig", 70, 1, 12, (1,), plain=True)
            crcu_conformance(ctx, "mb", "crcu_sig_nest", 70, 1, 12, (1,), plain=True)
            crcu_conformance(ctx, "mb", "crcu_sig_pre", 70, 1, 12, (0,), plain=True)
            crcu_conformance(ctx, "memb", "crcu_sig_nest", 70, 1, 12, (1,), plain=True)
        else:
            for fl in ("mb", "memb", "abs"):
                for s in CRCU_ALL:
                    if len(ctx.violations) < conc.MAXV:
                        crcu_conformance(ctx, fl, s, 40, 6, 400, (0, 1))
                    if len(ctx.violations) < conc.MAXV and fl != "abs":
                        crcu_conformance(ctx, fl, s, 90, 3, 200, (0, 1), plain=True)
        # ---- B: depth 2, inside synchronize_rcu (UrcuGp)
        for (fl, kind), comp in gp.items():
            if len(ctx.violations) >= conc.MAXV:
                break
            scn, thr = ("gp_sig_nest", "r1") if kind == "nest" else ("gp_sig_sync", "u1")
            if q:
                gp_conformance(ctx, comp, scn, thr, 40 if kind == "nest" else 110, 1 if kind == "nest" else 3, 25 if kind == "nest" else 30, (1,), 0)
            else:
                gp_conformance(ctx, comp, scn, thr, 60 if kind == "nest" else 140, 5, 1500, (0, 1), 200)
            if kind == "sync" and len(ctx.violations) < conc.MAXV:
                gp_asleep(ctx, fl, 40 if q else 600, (1,) if q else (0, 1))
        for kind, sc, exp, j in jobs:
            mod, c, r = j.result()
            if kind == "crcu":
                cc.mc_report(ctx, sc, mod, c, r, mc_timeout, expect=exp)
            else:
                gp_report(ctx, sc, mod, c, r, mc_timeout)
    ctx.extra.pop("actions_taken", None)


class Part:
    """Runs run_parts in a thread with a context of its own (counters, violation directories under <outdir>/sig) and merges it into the check's context."""
    def __init__(self, ctx):
        import check
        self.ctx = ctx; self.err = None
        self.sub = check.Ctx(ctx.pid, ctx.tier, ctx.seed)
        self.sub.outdir = os.path.join(ctx.outdir, "sig"); shutil.rmtree(self.sub.outdir, ignore_errors=True); os.makedirs(self.sub.outdir)
        self.sub.findings = ctx.findings
        self.th = threading.Thread(target=self._run, daemon=True)
        self.th.start()

    def _run(self):
        try:
            run_parts(self.sub)
        except BaseException as ex:
            self.err = (ex, traceback.format_exc())

    def join(self):
        self.th.join()
        c, s = self.ctx, self.sub
        if self.err:
            log(self.err[1])
            raise RuntimeError("signal parts (tools/props/sig_parts.py) failed: %s" % (self.err[0],))
        c.states += s.states; c.transitions += s.transitions; c.traces += s.traces; c.events += s.events; c.replays += s.replays
        c.configs += s.configs; c.notes += s.notes; c.violations += s.violations; c.known += [k for k in s.known if k not in c.known]
        for x in s.samples:
            if len(c.samples) < 8:
                c.samples.append(x)
        for k, v in s.extra.items():
            if isinstance(v, dict) and isinstance(c.extra.get(k), dict):
                c.extra[k].update(v)
            elif isinstance(v, list) and isinstance(c.extra.get(k), list):
                c.extra[k] += v
            else:
                c.extra[k] = v
        c.assumptions += [a for a in ASSUMPTIONS if a not in c.assumptions]


def is_part_replay(path):
    try:
        meta = json.load(open(os.path.join(path, "meta.json")))
    except Exception:
        return False
    return str(meta.get("scenario", "")).startswith("crcu_sig") or str(meta.get("scenario", "")) in ("gp_sig_nest", "gp_sig_sync", "gp_c02_sig2u")


def replay(ctx, path):
    meta = json.load(open(os.path.join(path, "meta.json")))
    scn = str(meta.get("scenario", ""))
    if scn.startswith("crcu_"):
        return cc.replay(ctx, path)
    ident = str(meta.get("module") if meta.get("kind") == "tlc" else (meta.get("component") or meta.get("driver_name") or meta.get("trace_module")))
    flavor = "memb" if "memb" in ident else "mb"
    thr = {"gp_sig_nest": ("r1",), "gp_sig_sync": ("u1",)}.get(scn, ("u1", "u2"))
    comp = gp_component(flavor, flavor == "memb", sig_threads=thr, sig_budget=1, sig_futex=scn != "gp_sig_nest")
    if scn == "gp_c02_sig2u":
        comp["env"] = dict(comp["env"], VRT_SIG_FUTEX=2)
    if meta.get("kind") == "tlc":
        mod, c, r = gp_model_check(comp, load_scenario(scn), tlc_workers(), 3000)
        gp_report(ctx, load_scenario(scn), mod, c, r, 3000)
        log("replay of %s: %s" % (path, "violation reproduced" if ctx.violations else "no violation on the current tree"))
    else:
        conc.replay(ctx, comp, path)
