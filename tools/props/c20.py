"""C20: uatomic ops are atomic and return the documented value for every width/operand.

Input dimension (model checking over the operand-class product):
  spec -> code   TLC enumerates the vectors of spec/UatomicVec.tla together with the memory image and return value the
                 byte-level semantics spec/Uatomic.tla prescribes; harness/d_uatomic.c executes them on the REAL macros
                 (default x86 implementation and -DCONFIG_RCU_USE_ATOMIC_BUILTINS) and compares.
  code -> spec   TLC (spec/UatomicTrace.tla) validates every logged record against the semantics.
Schedule dimension (exploration on real hardware): 8-thread hammer + store-buffering litmus of the same driver; TLC
  evaluates the explainability predicates of spec/UatomicExplain.tla on the logged results (spec/UatomicHammer.tla), and
  model-checks the same predicates on the x86-TSO model spec/UatomicConc.tla (with negative controls).
"""
import re, json, os, shutil, time, concurrent.futures as cf
from vlib import *

LEVEL = "model_checking"
ASSUMPTIONS = ["x86-64 host, gcc; char/short/int/long are 1/2/4/8 bytes, little endian, two's complement",
               "operand classes {00,01,7f,80,ff} on the extreme bytes, {00,ff,seeded} in between; derived coordinates (offset, middle "
               "classes) follow seeded linear hashes of the enumerated ones (see spec/UatomicVec.tla)",
               "schedule dimension and fence strength: exploration on the real hardware this check runs on (8 threads, no scheduler "
               "control); the x86-TSO model UatomicConc is checked exhaustively only for 2-3 threads x 1-2 operations"]
OPS = ["?", "set", "read", "xchg", "cmpxchg", "add_return", "sub_return", "add", "sub", "inc", "dec", "and", "or"]
IMPLS = [("x86", []), ("builtins", ["CONFIG_RCU_USE_ATOMIC_BUILTINS"])]
SRC = os.path.join(HARNESS, "d_uatomic.c")


# ------------------------------------------------------------------ building (standalone: no vrt runtime, no hooks)
def build(impl, defines, opt="-O1"):
    tag = "C20_%s_%s" % (impl, opt.strip("-"))
    bdir = os.path.join(BUILD, tag)
    os.makedirs(bdir, exist_ok=True)
    exe = os.path.join(bdir, "d_uatomic")
    cmd = ["gcc", "-g", opt, "-fno-omit-frame-pointer", "-D_GNU_SOURCE", "-Wall", "-Wno-unused-function", "-Wno-unused-variable"]
    cmd += config_h_flags(bdir) + ["-I", os.path.join(REPO, "include")] + ["-D" + d for d in defines] + [SRC, "-o", exe, "-lpthread"]
    r = sh(cmd, capture_output=True, text=True)
    if r.returncode:
        raise RuntimeError("driver build failed (%s):\n%s" % (impl, r.stderr[-4000:]))
    return exe


def build_all(opts):
    jobs = [(impl, defs, o) for impl, defs in IMPLS for o in opts]
    with cf.ThreadPoolExecutor(max_workers=4) as ex:
        exes = list(ex.map(lambda j: build(*j), jobs))
    return [("%s%s" % (j[0], "" if j[2] == "-O1" else j[2]), e) for j, e in zip(jobs, exes)]


# ------------------------------------------------------------------ TLC helpers
def mc_module(name, extends, consts, cfg):
    return gen_mc({"name": name, "spec": extends}, "c20", consts, cfg_lines=cfg, module="MC_C20_" + name)


def gen_vectors(ctx, seed, k, tag):
    """TLC enumerates the vectors and the expected results (spec -> code)."""
    mod = mc_module("vec_" + tag, "UatomicVec", {"Seed": str(seed % 100000), "K": str(k)},
                    ["SPECIFICATION Spec", "INVARIANT Emit", "CHECK_DEADLOCK FALSE"])
    r = run_tlc(mod, workers=8, timeout=3000, heap="8g", tag="c20_vec_" + tag)
    if not r.ok:
        d = ctx.viol_dir(); shutil.copy(r.log, os.path.join(d, "tlc.log"))
        if r.violation:       # WellFormed / SemSane: the semantics itself is inconsistent -> machinery problem, not a library violation
            raise RuntimeError("UatomicVec: %s on an enumerated vector (specification error), see %s" % (r.violation, d))
        raise RuntimeError("TLC failed on %s: %s\n%s" % (mod, r.error, r.out[-1500:]))
    vecs = []
    for m in re.finditer(r"<<\s*777001,([\d,\s]+?),\s*777002\s*>>", r.out):
        xs = [int(x) for x in m.group(1).split(",")]
        if len(xs) != 64:
            raise RuntimeError("malformed vector tuple printed by TLC")
        vecs.append(xs)
    vecs.sort()
    uniq = [v for i, v in enumerate(vecs) if i == 0 or v != vecs[i - 1]]
    if len(uniq) != r.distinct - 97:     # root + 96 group states
        raise RuntimeError("vector transport: %d tuples parsed, TLC reports %d vector states" % (len(uniq), r.distinct - 97))
    ctx.add_tlc(r, mod, {"Seed": seed % 100000, "K": k})
    r.out = ""
    try:
        os.unlink(r.log)          # tens of MB of printed tuples
    except OSError:
        pass
    return uniq


def coverage_of(vecs):
    """every (op, width, offset, ts) and every (op, width, operand type) must be hit"""
    combos = set(); otypes = set(); lits = set()
    for v in vecs:
        combos.add((v[0], v[1], v[2], v[3])); otypes.add((v[0], v[1], v[4], v[5])); lits.add((v[0], v[6]))
    missing = []
    for op in range(1, 13):
        for w in (1, 2, 4, 8):
            for off in range(0, 16, w):
                for ts in (0, 1):
                    if (op, w, off, ts) not in combos:
                        missing.append("op=%s w=%d off=%d ts=%d" % (OPS[op], w, off, ts))
            if OPS[op] not in ("read", "inc", "dec"):
                for ow in (1, 2, 4, 8):
                    for os_ in (0, 1):
                        if (op, w, ow, os_) not in otypes:
                            missing.append("op=%s w=%d operand type %d/%d" % (OPS[op], w, ow, os_))
        if OPS[op] not in ("read", "inc", "dec"):
            for k in range(1, 13):
                if (op, k) not in lits:
                    missing.append("op=%s literal %d" % (OPS[op], k))
    return missing


def write_vectors(path, vecs):
    with open(path, "w") as f:
        for v in vecs:
            f.write(" ".join(map(str, v)) + "\n")


def vec_desc(v):
    hx = lambda b: "".join("%02x" % x for x in reversed(b))
    return ("op=%s w=%d off=%d ts=%d operand_type=%d bytes %s imm=%d a=0x%s b=0x%s mem_before=%s expected_mem_after=%s expected_ret=%s" % (
        OPS[v[0]], v[1], v[2], v[3], v[4], "signed" if v[5] else "unsigned", v[6], hx(v[7:7 + v[4]]), hx(v[15:15 + v[4]]),
        " ".join("%02x" % x for x in v[23:39]), " ".join("%02x" % x for x in v[39:55]), ("0x" + hx(v[56:64])) if v[55] else "(void)"))


def tlc_validate(module_ext, invariant, trace, tag, workers=1, heap="6g", timeout=1800):
    mod = mc_module(tag, module_ext, {}, ["SPECIFICATION Spec", "INVARIANT " + invariant, "POSTCONDITION Post", "CHECK_DEADLOCK FALSE"])
    r = run_tlc(mod, workers=workers, timeout=timeout, heap=heap, env={"TRACE": trace}, tag="c20_" + tag)
    m = re.search(r'"VALIDATED", (\d+), (\d+)', r.out)
    r.validated = int(m.group(1)) if m else 0
    r.badpos = None
    if r.violation:
        ps = re.findall(r"/\\ pos = (\d+)", r.out)
        r.badpos = int(ps[-1]) if ps else None
    return r


def nth_line(path, n):
    with open(path) as f:
        for i, ln in enumerate(f, 1):
            if i == n:
                return ln.strip()
    return None


# ------------------------------------------------------------------ input dimension
def check_transport(vecs, lp, name):
    """the records TLC is going to validate are exactly the enumerated vectors, in order (inputs only)"""
    n = 0
    with open(lp) as f:
        for n, ln in enumerate(f, 1):
            e = json.loads(ln); v = vecs[n - 1]
            if [OPS.index(e["op"]), e["w"], e["off"], e["ts"], e["ow"], e["os"], e["imm"]] + e["a"] + e["b"] + e["m0"] != v[:39] or e["i"] != n:
                raise RuntimeError("log of %s: record %d does not carry the inputs of vector %d" % (name, n, n))
    if n != len(vecs):
        raise RuntimeError("log of %s has %d records for %d vectors" % (name, n, len(vecs)))


def input_dimension(ctx, exes, seed, k, tag):
    od = ctx.outdir
    vecs = gen_vectors(ctx, seed, k, tag)
    miss = coverage_of(vecs)
    if miss:
        raise RuntimeError("vector enumeration does not cover: " + "; ".join(miss[:10]))
    vp = os.path.join(od, "vectors_%s.txt" % tag)
    write_vectors(vp, vecs)
    log("  %d vectors enumerated by TLC (seed %d, K=%d)" % (len(vecs), seed, k))
    ctx.replays += len(vecs) * len(exes)
    logs = {}
    for name, exe in exes:
        lp = os.path.join(od, "veclog_%s_%s.ndjson" % (tag, name))
        rc, so, se = run_driver(exe, ["vec", vp, lp], timeout=600)
        logs[name] = lp
        if rc == 3:            # spec -> code mismatch
            d = ctx.viol_dir()
            bad = [int(x) for x in re.findall(r"MISMATCH impl=\S+ vector=(\d+)", so)]
            write_vectors(os.path.join(d, "vectors.txt"), [vecs[i - 1] for i in bad])
            open(os.path.join(d, "driver_output.txt"), "w").write(so)
            json.dump({"kind": "vectors", "impl": name, "exe_defines": dict(IMPLS).get(name.split("-")[0], []), "first_vector": vec_desc(vecs[bad[0] - 1]) if bad else None},
                      open(os.path.join(d, "meta.json"), "w"), indent=1)
            first = so.strip().split("\n")[0] if so.strip() else ""
            ctx.violation("implementation %s: result differs from the value Uatomic.tla prescribes: %s  [%s]" % (name, first, so.strip().split("\n")[-1]), d, key="vec-" + name)
        elif rc != 0:
            raise RuntimeError("driver %s failed rc=%s: %s %s" % (name, rc, so[-500:], se[-500:]))
        else:
            ctx.sample("%s: %s" % (name, so.strip().split("\n")[-1]))
        check_transport(vecs, lp, name)

    # code -> spec: TLC validates the logs (one JVM per log, in parallel; 1 worker each: constants are evaluated per worker)
    def val(item):
        name, lp = item
        return name, lp, tlc_validate("UatomicTrace", "AllOK", lp, "tv_%s_%s" % (tag, name.replace("-", "")), workers=1)
    with cf.ThreadPoolExecutor(max_workers=4) as ex:
        results = list(ex.map(val, logs.items()))
    for name, lp, r in results:
        if r.violation:
            d = ctx.viol_dir(); shutil.copy(r.log, os.path.join(d, "tlc.log"))
            rec = nth_line(lp, r.badpos) if r.badpos else None
            open(os.path.join(d, "trace.ndjson"), "w").write((rec or "") + "\n")
            json.dump({"kind": "veclog", "impl": name, "record_index": r.badpos}, open(os.path.join(d, "meta.json"), "w"), indent=1)
            ctx.violation("implementation %s: logged record #%s is not what Uatomic.tla computes (%s): %s" % (name, r.badpos, r.violation, rec), d, key="trace-" + name)
        elif not r.ok or r.validated != len(vecs):
            raise RuntimeError("trace validation did not complete for %s: %s validated=%d/%d\n%s" % (name, r.error, r.validated, len(vecs), r.out[-1500:]))
        else:
            ctx.add_tlc(r, "UatomicTrace(%s,%s)" % (tag, name))
            ctx.traces += 1; ctx.events += r.validated
    # the implementations against each other (reporting only: each was already judged against the spec)
    names = list(logs)
    for other in names[1:]:
        with open(logs[names[0]]) as f1, open(logs[other]) as f2:
            for i, (a, b) in enumerate(zip(f1, f2), 1):
                if a != b:
                    ctx.notes.append("implementations %s and %s disagree on vector %d: %s | %s" % (names[0], other, i, a.strip(), b.strip()))
                    log("  DISAGREEMENT %s vs %s on vector %d (%s)" % (names[0], other, i, vec_desc(vecs[i - 1])))
                    break
    if not ctx.violations:
        for lp in list(logs.values()) + [vp]:
            os.unlink(lp)
    return len(vecs)


# ------------------------------------------------------------------ schedule dimension: model
CONC_BASE = {"TSeq": '<<"t1", "t2">>', "Iters": "2", "W": "1", "InitV": "<<0>>", "DV": "<<1>>", "Scenario": '"counter"', "Op": '"add_return"',
             "Atomic": "TRUE", "Fence": '"none"', "Locked": "TRUE", "SBMax": "2"}


def conc_models_run(thorough):
    """run the TLC configurations (name, overrides, invariant, expect_violation) of the TSO model; no ctx access (background thread)"""
    cfgs = []
    for op in ("add_return", "sub_return", "cmpxchg", "xchg"):
        init = "<<254>>" if op == "add_return" else "<<1>>" if op == "sub_return" else "<<0>>" if op == "xchg" else "<<255>>"
        cfgs.append(("ctr_" + op, {"Op": '"%s"' % op, "InitV": init}, "Explainable", False))
        cfgs.append(("ctr_" + op + "_nonatomic", {"Op": '"%s"' % op, "InitV": init, "Atomic": "FALSE"}, "Explainable", True))
    cfgs.append(("ctr_add_return_3t", {"TSeq": '<<"t1", "t2", "t3">>', "Iters": "2" if thorough else "1", "W": "2", "InitV": "<<255, 255>>", "DV": "<<1, 0>>"}, "Explainable", False))
    for f in ("xchg", "cmpxchg", "add_return", "sub_return"):
        cfgs.append(("sb_" + f, {"Scenario": '"sb"', "Iters": "1", "Fence": '"%s"' % f}, "NoRelaxedOutcome", False))
    cfgs.append(("sb_none", {"Scenario": '"sb"', "Iters": "1", "Fence": '"none"'}, "NoRelaxedOutcome", True))
    cfgs.append(("sb_unlocked_add_return", {"Scenario": '"sb"', "Iters": "1", "Fence": '"add_return"', "Locked": "FALSE"}, "NoRelaxedOutcome", True))

    def one(c):
        name, ov, inv, expect = c
        consts = dict(CONC_BASE); consts.update(ov)
        mod = mc_module("conc_" + name, "UatomicConc", consts, ["SPECIFICATION Spec", "INVARIANT " + inv, "INVARIANT DeadlockFree", "CONSTRAINT SBBound", "CHECK_DEADLOCK FALSE"])
        return c, mod, consts, run_tlc(mod, workers=2, timeout=900, heap="2g", tag="c20_conc_" + name)
    with cf.ThreadPoolExecutor(max_workers=4) as ex:
        return list(ex.map(one, cfgs))


def conc_models_apply(ctx, results):
    for (name, ov, inv, expect), mod, consts, r in results:
        if expect:
            if r.violation != "invariant " + inv:
                raise RuntimeError("negative control %s: TLC was expected to violate %s but reported %s / %s" % (name, inv, r.violation, r.error))
            ctx.notes.append("negative control %s: TLC finds the %s violation as required (%d states)" % (name, inv, r.distinct))
        elif r.violation:
            d = ctx.viol_dir(); shutil.copy(r.log, os.path.join(d, "tlc.log"))
            json.dump({"kind": "model", "module": mod}, open(os.path.join(d, "meta.json"), "w"))
            ctx.violation("design-level model UatomicConc (%s): %s" % (name, r.violation), d, key="model-" + name)
        elif not r.ok:
            raise RuntimeError("TLC failed on %s: %s\n%s" % (mod, r.error, r.out[-1500:]))
        else:
            ctx.add_tlc(r, mod, {k: v for k, v in consts.items() if k in ov or k in ("TSeq", "Iters")})


# ------------------------------------------------------------------ schedule dimension: real hardware
def describe_experiment(rec):
    try:
        e = json.loads(rec)
    except Exception:
        return rec[:300]
    if e.get("k") == "sb":
        return "store-buffering litmus with %s between store and load: outcome r1=r2=0 observed %d times in %d iterations (impl %s)" % (e["op"], e["n00"], e["iters"], e["impl"])
    if e.get("k") == "ps":
        return ("plain assignment followed by uatomic_%s on a %d-byte %s variable in one optimised function: location holds %s afterwards, the assigned value was %s, "
                "operand %s (impl %s): the operation did not act on the value the plain store wrote" % (e["op"], e["w"], e["sc"], e["res"], e["init"], e["d"], e["impl"]))
    if e.get("k") == "cb":
        return ("compiler-barrier litmus: a plain counter polled under a lock built from %s alone %s (final %s, expected %s, impl %s): the operation does "
                "not order the caller's plain accesses" % (e["op"], "was seen to complete" if e.get("done") else "never showed its final value to the poller", e.get("final"), e.get("expect"), e["impl"]))
    s = "%s experiment, op=%s, width %d, %d threads x %d operations per location (impl %s):" % (e.get("k"), e.get("op"), e.get("w"), e["locs"][0]["n"] if e.get("locs") else 0, e.get("iters"), e.get("impl"))
    for L in e.get("locs", []):
        s += " [off=%d init=%s d=%s final=%s" % (L["off"], L["init"], L["d"], L["final"])
        if "runs" in L:
            s += " sorted results as runs(lo,len,mult)=%s%s" % ([(r["lo"], r["len"], r["mult"]) for r in L["runs"][:6]], " ... %d runs" % L["nruns"] if L["nruns"] > 6 else "")
        s += "]"
    return s


def hammer(ctx, exes, seed, scale):
    od = ctx.outdir
    runs = []
    for name, exe in exes:            # one after the other: the hammer threads are pinned to the same CPUs
        lp = os.path.join(od, "hammer_%s.ndjson" % name)
        rc, so, se = run_driver(exe, ["hammer", seed, lp, scale], timeout=900)
        if rc != 0:
            raise RuntimeError("hammer %s failed rc=%s: %s %s" % (name, rc, so[-500:], se[-500:]))
        # compiler-barrier litmus of the same implementation in an -O2 build (only an optimising compiler moves plain accesses); its
        # records are appended to the hammer log and judged by the same TLC predicate
        impl = name.split("-")[0]
        defs = dict(IMPLS).get(impl)
        if defs is not None:
            rc, so, se = run_driver(build(impl, defs, "-O2"), ["cb", lp], timeout=300)
            if rc != 0:
                raise RuntimeError("compiler-barrier litmus %s failed rc=%s: %s %s" % (name, rc, so[-500:], se[-500:]))
        runs.append((name, lp))
    with cf.ThreadPoolExecutor(max_workers=3) as ex:
        vals = list(ex.map(lambda x: tlc_validate("UatomicHammer", "Explainable", x[1], "hv_" + x[0].replace("-", ""), workers=4, heap="4g"), runs))
    for (name, lp), r in zip(runs, vals):
        recs = read_trace(lp)
        lines = [ln for ln in open(lp).read().split("\n") if ln.strip()]
        ctrl = [e for e in recs if e.get("k") == "sb" and e.get("op") == "none"]
        if ctrl:
            c = ctrl[0]
            ctx.notes.append("%s: store-buffering control without fence op shows r1=r2=0 in %d of %d iterations%s" % (
                name, c["n00"], c["iters"], "" if c["n00"] else " (NOT observed: the litmus could not discriminate on this run)"))
        nbad = 0
        while r.violation and nbad < 3 and len(ctx.violations) < 6:
            # TLC stops at the first offending record: report it, drop it, look for further ones
            nbad += 1
            d = ctx.viol_dir(); shutil.copy(r.log, os.path.join(d, "tlc.log"))
            rec = lines[r.badpos - 1] if r.badpos and r.badpos <= len(lines) else ""
            open(os.path.join(d, "trace.ndjson"), "w").write(rec + "\n")
            if nbad == 1:
                shutil.copy(lp, os.path.join(d, "hammer_full.ndjson"))
            json.dump({"kind": "hammer", "impl": name, "seed": seed}, open(os.path.join(d, "meta.json"), "w"), indent=1)
            ctx.violation("implementation %s: results of concurrent operations are not explainable by atomic read-modify-writes / full barriers "
                          "(UatomicExplain!ExperimentOK is false): %s" % (name, describe_experiment(rec)), d, key="hammer-" + name)
            if not r.badpos:
                break
            del lines[r.badpos - 1]
            if not lines:
                break
            rest = os.path.join(od, "hammer_%s_rest.ndjson" % name)
            open(rest, "w").write("\n".join(lines) + "\n")
            r = tlc_validate("UatomicHammer", "Explainable", rest, "hv_" + name.replace("-", ""), workers=4, heap="4g")
        if nbad:
            continue
        if not r.ok or r.validated != len(recs):
            raise RuntimeError("hammer validation did not complete for %s: %s validated=%d/%d\n%s" % (name, r.error, r.validated, len(recs), r.out[-1500:]))
        ctx.add_tlc(r, "UatomicHammer(%s)" % name)
        ctx.traces += 1; ctx.events += len(recs)
        nres = sum(L["n"] * e["iters"] for e in recs if e.get("locs") for L in e["locs"]) + sum(e["iters"] for e in recs if e.get("k") == "sb")
        ctx.sample("%s hammer: %d experiments, %d concurrent operations, all explainable" % (name, len(recs), nres))
        ctx.extra["concurrent_operations_executed"] = ctx.extra.get("concurrent_operations_executed", 0) + nres


# ------------------------------------------------------------------ entry points
def run(ctx):
    q = ctx.quick()
    log("C20: building the driver twice (x86 asm / compiler builtins)%s" % ("" if q else " at -O1, -O0 and -O2"))
    exes = build_all(["-O1"] if q else ["-O1", "-O0", "-O2"])
    ctx.notes.append("input dimension: model checking over the operand-class product (every vector and its expected result enumerated by TLC, "
                     "every logged record validated by TLC); schedule dimension and fence strength: EXPLORATION ON REAL HARDWARE "
                     "(8-thread hammer and store-buffering litmus, results judged by TLC predicates), plus exhaustive TLC checking of the small "
                     "x86-TSO model UatomicConc")
    log("C20: schedule dimension, design level (UatomicConc, in the background) / input dimension")
    with cf.ThreadPoolExecutor(max_workers=1) as bg:
        fut = bg.submit(conc_models_run, not q)
        if q:
            input_dimension(ctx, exes, ctx.seed, 3, "q")
        else:
            for j in range(3):
                if len(ctx.violations) < 3:
                    input_dimension(ctx, exes, ctx.seed + 7919 * j, 1, "t%d" % j)
        conc_models_apply(ctx, fut.result())
    log("C20: schedule dimension, real hardware (8-thread hammer, store-buffering litmus)")
    if len(ctx.violations) < 3:
        hammer(ctx, exes[:2] if q else exes, ctx.seed, 1 if q else 4)
    ctx.extra["implementations"] = [n for n, _ in exes]


def replay(ctx, path):
    """Re-judge a saved violation: vectors are re-executed on the real macros (deterministic) and re-validated; hammer
    results come from a real-hardware schedule that cannot be reproduced, so the saved log is re-validated by TLC."""
    path = os.path.abspath(path)
    meta = json.load(open(os.path.join(path, "meta.json")))
    kind = meta.get("kind")
    if kind == "vectors":
        exes = dict(build_all(["-O1", "-O0", "-O2"]))
        exe = exes.get(meta["impl"]) or exes["x86"]
        lp = os.path.join(ctx.outdir, "replay.ndjson")
        rc, so, se = run_driver(exe, ["vec", os.path.join(path, "vectors.txt"), lp], timeout=600)
        log(so.strip())
        r = tlc_validate("UatomicTrace", "AllOK", lp, "replay", workers=1)
        if rc == 3 or r.violation:
            ctx.violation("replayed: %s; TLC: %s" % (so.strip().split("\n")[-1], r.violation), path)
    elif kind in ("veclog", "hammer"):
        r = tlc_validate("UatomicTrace" if kind == "veclog" else "UatomicHammer", "AllOK" if kind == "veclog" else "Explainable",
                         os.path.join(path, "trace.ndjson"), "replay", workers=1)
        if r.violation:
            ctx.violation("replayed (recorded results re-validated by TLC; a real-hardware schedule cannot be re-executed): %s" % r.violation, path)
        elif not r.ok:
            raise RuntimeError("replay validation failed: %s" % r.error)
    else:
        log("model-level counterexample: see %s/tlc.log" % path)
        ctx.violation("design-level counterexample (TLC trace in tlc.log)", path)
