"""C12: the RCU lock-free queue (cds_lfq_*_rcu) is a linearizable FIFO; dummies never escape and are reclaimed after a grace period.

Known finding C12-head-overtakes-tail (known_findings.jsonl): _cds_lfq_dequeue_rcu() never helps q->tail, so q->head can overtake
q->tail; the removed node stays reachable through q->tail and a late enqueuer dereferences it after its grace period.  Lfq.tla tracks
exactly that pattern apart (ghosts ovt/stale, invariant NoStaleTailDeref); it is reported with the finding's key, everything else
(any other use-after-free, linearizability, conservation, unexplained traces) is an ordinary violation.
Repair candidate (Lfq with HelpTail = TRUE: dequeue loads q->tail and, when it equals head, cmpxchg's it to next before moving q->head):
which of the two variants the library under test implements is found by a probe run of the driver (does a dequeue load q.tail before its
cmpxchg on q.head?), VERIF_LFQ_HELPTAIL=0/1 overrides.  For the repaired variant there is no exemption: NoStaleTailDeref and NoOvertake
are ordinary invariants and the stored schedules of the finding are not replayed."""
import os, re, json, shutil
from vlib import *
import vlib, conc

LEVEL = "model_checking"
KEY = "C12-head-overtakes-tail"
HELPTAIL = False            # set by configure()
ASSUMPTIONS = ["x86-TSO memory model (Sewell et al.); compiler honours volatile/atomic accesses and asm barriers; the algorithm's shared stores are all seq_cst cmpxchg, "
               "plain stores (node initialisation) are committed in program order (runtime L-B semantics), so TSO and SC runs coincide for this component",
               "serialised execution: scheduling points are the hooked shared accesses, watched plain accesses, blocking calls and the start of every driver operation",
               "RCU is abstract (harness/absrcu.h = grace period waits for exactly the read-side sections open at its start); the real flavors' grace periods are C01's claim",
               "API preconditions are the scenario's responsibility: enqueue/dequeue inside a read-side critical section, a dequeued node freed or re-enqueued only after "
               "synchronize_rcu, destroy only when no other operation is in flight",
               "known finding %s is tracked apart (NoStaleTailDeref); after such a dereference the model assumes the freed block still holds its last contents" % KEY,
               "bounds: 1 queue, <= 3 user nodes, <= 3 threads, <= 4 operations per thread, <= 6 dummy allocations"]

WORKERS = 8


def _run_tlc(*a, **k):          # shared machine: never more than 8 TLC workers
    k["workers"] = min(k.get("workers") or WORKERS, WORKERS)
    return vlib.run_tlc(*a, **k)


conc.run_tlc = _run_tlc


def lfq_program(sc):
    out = []
    for t, ops in sc["threads"].items():
        out.append("thread %s" % t)
        for o in ops:
            if o["op"] == "enq": out.append("enq %s" % o["n"])
            elif o["op"] == "wait": out.append("wait %s" % ",".join(o["ts"]))
            else: out.append(o["op"])
    return "\n".join(out) + "\n"


def _consts(sc):
    return {"Threads": tla(set(sc["threads"])), "Prog": tla_fun(sc["threads"]), "SBMax": str(sc.get("sbmax", 2)),
            "MaxDm": str(sc.get("maxdm", 4)), "HelpTail": "TRUE" if HELPTAIL else "FALSE"}


MAIN_INV = ["Linearizable", "NoUseAfterFree", "NoDummyReturned", "Conservation", "NoLeak"]
LFQ = {}
LFQ_K = {}


def configure(help_tail):
    global HELPTAIL
    HELPTAIL = bool(help_tail)
    LFQ.clear()
    LFQ.update({
        "spec": "Lfq", "driver": "d_lfq.c", "trace": "LfqTrace", "variant": "_ht" if HELPTAIL else "",
        "invariants": MAIN_INV + (["NoStaleTailDeref", "NoOvertake"] if HELPTAIL else []),
        "mc_invariants": ["DeadlockFree"], "constraints": ["SBBound"],
        "consts": _consts, "program": lfq_program,
    })
    # the known finding's own invariant, checked apart so that it never hides (or is hidden by) anything else
    LFQ_K.clear()
    LFQ_K.update(dict(LFQ, variant="_k", invariants=["NoStaleTailDeref"], mc_invariants=[]))


configure(False)


def detect_variant(ctx, exe, wd):
    """Probe run (one thread: enq n1; deq): the repaired dequeue loads q.tail between its loads of head->next and its cmpxchg on q.head."""
    env = os.environ.get("VERIF_LFQ_HELPTAIL")
    if env not in (None, ""):
        return env != "0"
    pf = os.path.join(wd, "probe.txt"); open(pf, "w").write("thread p\nenq n1\ndeq\n")
    tp = os.path.join(wd, "probe.ndjson")
    rc, so, se = run_driver(exe, [0, 0, tp, pf], timeout=30)
    if rc != 0:
        return False
    ev = [e for e in read_trace(tp) if e.get("t") == "p"]
    k = [j for j, e in enumerate(ev) if e.get("op") == "call" and e.get("api") == "deq"]
    deq = ev[k[0]:] if k else []
    c = [j for j, e in enumerate(deq) if e.get("op") == "cas" and e.get("var") == "q.head"]
    return bool(c) and any(e.get("op") == "ld" and e.get("var") == "q.tail" for e in deq[:c[0]])


QUICK = ["lfq_2e1d1", "lfq_empty", "lfq_destroy", "lfq_recycle"]
THOROUGH = ["lfq_2e1d", "lfq_lag", "lfq_empty", "lfq_destroy", "lfq_recycle", "lfq_stale_user"]
K_QUICK = ["lfq_2e1d1"]
K_THOROUGH = ["lfq_2e1d1", "lfq_stale_user"]
DEMOS = [os.path.join(VERIF, "scenarios", f) for f in ("lfq_finding_stale_tail.sched", "lfq_finding_stale_tail_recycle.sched")]


# ------------------------------------------------------------------ classification of the known finding
def _fail_node(stderr):
    m = re.search(r"UAF access to quarantined (\w+) at rculfqueue\.h:\d+", stderr or "")
    return m.group(1) if m else None


def _stale_tail_failure(ctx, replay):
    """A run aborted by the runtime's use-after-free oracle is the known finding iff its recorded prefix is a behaviour of Lfq that ends
    with the failing thread at e_cas holding, as its tail pointer, the freed node named by the oracle, removed while q.tail pointed at it."""
    mp = os.path.join(replay, "meta.json"); tp = os.path.join(replay, "trace.ndjson")
    if not (os.path.exists(mp) and os.path.exists(tp)):
        return False
    meta = json.load(open(mp)); node = _fail_node(meta.get("stderr"))
    if not node or "scenario" not in meta:
        return False
    sc = load_scenario(meta["scenario"]); tso = meta.get("tso", 1)
    ev = normalize(read_trace(tp))
    if not ev or ev[-1]["op"] != "fail":
        return False
    ev[-1]["var"] = node
    c = conc.consts_for(LFQ_K, sc, tso, True); c["__spec__"] = "Lfq"
    mod = gen_trace_module("LfqTrace", "Lfq", "TVK_%s_%d" % (sc["name"], tso), c, invariants=LFQ_K["invariants"])
    p = os.path.join(replay, "classify.ndjson"); write_ndjson(p, ev)
    v = validate_trace_file(mod, p, tag="tvk_" + ctx.pid, timeout=300)
    ctx.states += v.tlc.distinct; ctx.transitions += v.tlc.states
    # the fail event is consumable only by the stale-tail disjunct of LfqTrace (which sets the stale ghost): a fully explained trace is the pattern
    ok = (v.accepted or v.violation == "invariant NoStaleTailDeref") and v.maxl >= len(ev)
    json.dump(dict(meta, classification={"stale_tail_pattern": ok, "node": node, "events_explained": v.maxl, "events": len(ev)}), open(mp, "w"), indent=1)
    return ok


def _install_classifier(ctx):
    orig = ctx.violation

    def violation(what, replay, key=None):
        if key is None and not HELPTAIL:
            if "invariant NoStaleTailDeref" in what or (replay and os.path.isdir(replay) and _stale_tail_failure(ctx, replay)):
                key = KEY
                ctx.extra["known_finding_hits"] = ctx.extra.get("known_finding_hits", 0) + 1
                if not any(f.get("key") == KEY for f in ctx.findings):
                    what = "[finding %s, not listed as known] %s" % (KEY, what)
        return orig(what, replay, key)
    ctx.violation = violation


def known_probe(ctx, sc):
    """Design level: TLC looks for the stale-tail dereference (NoStaleTailDeref only; not counted as a model-checking configuration)."""
    c = conc.consts_for(LFQ_K, sc, True, False)
    mod = gen_mc(sc, "mc_k", c, cfg_lines=["SPECIFICATION Spec", "INVARIANT NoStaleTailDeref", "CONSTRAINT SBBound", "CHECK_DEADLOCK FALSE"])
    r = _run_tlc(mod, timeout=900, heap="8g")
    ctx.states += r.distinct; ctx.transitions += r.states
    log("  [TLC] %s known-finding probe: %s, %d distinct states, %.0fs" % (sc["name"], r.violation or ("none" if r.ok else r.error), r.distinct, r.wall))
    if r.violation == "invariant NoStaleTailDeref":
        d = ctx.viol_dir(); shutil.copy(r.log, os.path.join(d, "tlc.log"))
        ctx.violation("TLC: invariant NoStaleTailDeref violated in %s: an enqueuer dereferences, through its tail pointer, a freed node that was removed while "
                      "q.tail still pointed at it (design-level counterexample in tlc.log)" % mod, d)
    elif r.violation:
        d = ctx.viol_dir(); shutil.copy(r.log, os.path.join(d, "tlc.log"))
        ctx.violation("TLC: %s in %s" % (r.violation, mod), d)
    elif not r.ok:
        raise RuntimeError("TLC failed on %s: %s\n%s" % (mod, r.error, r.out[-1500:]))
    return r


def demo_replay(ctx, exe, wd, DEMO):
    """Replay the stored schedule of the finding on the real code: the runtime's use-after-free oracle fires at the stale cmpxchg (or, with a
    runtime that does not re-check quarantine when the access executes, the recorded trace violates NoStaleTailDeref)."""
    if not os.path.exists(DEMO):
        return
    lines = open(DEMO).read().split("\n")
    scn = [l.split(":", 1)[1].strip() for l in lines if l.startswith("# scenario:")][0]
    sched = [l.strip() for l in lines if l.strip() and not l.startswith("#")]
    sc = load_scenario(scn); tso = 1
    pf = conc.program_file(LFQ, sc, os.path.join(wd, "prog_%s.txt" % sc["name"]))
    sp = os.path.join(wd, "demo_sched.txt"); open(sp, "w").write("#auto-benign\n" + "\n".join(sched) + "\n")
    tp = os.path.join(wd, "demo.ndjson")
    rc, so, se = run_driver(exe, [0, tso, tp, pf], env={"VRT_SCHED": sp}, timeout=30)
    meta = {"seed": 0, "tso": tso, "rc": rc, "stderr": se[-500:], "scenario": sc["name"], "schedule": sched, "known_key": KEY, "env": {}}
    if rc != 0 and _fail_node(se):
        d = ctx.viol_dir(); shutil.move(tp, os.path.join(d, "trace.ndjson")); json.dump(meta, open(os.path.join(d, "meta.json"), "w"), indent=1)
        shutil.copy(pf, os.path.join(d, "prog.txt"))
        m = re.search(r"VRT-FAIL (.*)", se)
        ctx.violation("oracle failure on the real code under the stored schedule %s: %s" % (os.path.basename(DEMO), m.group(1) if m else se[-200:]), d)
        return
    if rc == 0:
        before = ctx.extra.get("known_finding_hits", 0)
        conc.validate(ctx, LFQ_K, sc, tso, [(0, read_trace(tp))], wd, "tvk_demo")
        for v in range(1, ctx.nviol + 1):       # make the recorded directory replayable with its schedule
            mp = os.path.join(ctx.outdir, "viol-%d" % v, "meta.json")
            if os.path.exists(mp):
                mm = json.load(open(mp))
                if mm.get("scenario") == sc["name"] and mm.get("seed") == 0 and "schedule" not in mm:
                    mm.update(schedule=sched, known_key=KEY); json.dump(mm, open(mp, "w"), indent=1)
        if ctx.extra.get("known_finding_hits", 0) != before:
            return
    ctx.notes.append("stored schedule of finding %s no longer reproduces it on this tree (rc=%d %s)" % (KEY, rc, se.strip()[-120:]))
    log("  [demo] finding %s not reproduced by %s on this tree (rc=%d)" % (KEY, os.path.basename(DEMO), rc))


# ------------------------------------------------------------------ the check
def run_scenarios(ctx, comp, scenarios, nseeds, nsim, both_modes, mc_timeout=3000):
    """conc.run_component with a choice of memory modes: SC and TSO runs coincide for this component (no buffered stores), so the quick
    tier alternates the mode per scenario instead of running both."""
    wd = os.path.join(ctx.outdir, "work"); shutil.rmtree(wd, ignore_errors=True); os.makedirs(wd)
    exe = build_driver("d_lfq", comp["driver"], tag=ctx.pid + "_d_lfq")
    configure(detect_variant(ctx, exe, wd))
    if HELPTAIL:
        ctx.notes.append("the library under test (%s) implements the repaired dequeue (helps q->tail before moving q->head): checked against Lfq with "
                         "HelpTail = TRUE, no known-finding exemption" % REPO)
        log("  [variant] repaired dequeue detected: HelpTail = TRUE")
    only = os.environ.get("VERIF_SCEN")
    if not HELPTAIL:
        for dm in DEMOS:
            demo_replay(ctx, exe, wd, dm)
    for k, scn in enumerate(scenarios):
        if only and scn not in only.split(","):
            continue
        if len(ctx.violations) >= conc.MAXV:
            break
        sc = load_scenario(scn)
        r = conc.model_check(ctx, comp, sc, timeout=mc_timeout)
        log("  [TLC] %s: %d distinct states, %.0fs, %s" % (sc["name"], r.distinct, r.wall, "ok" if r.ok else (r.violation or r.error)))
        skip = ("Terminating", "fl") + (() if HELPTAIL else ("d_ldt", "d_help"))
        ctx.extra.setdefault("actions_never_taken", {})[sc["name"]] = [a for a, v in r.coverage.items() if v[0] == 0 and a not in skip]
        for tso in ((0, 1) if both_modes else (1 - k % 2,)):
            if len(ctx.violations) >= conc.MAXV:
                break
            seeds = [ctx.seed * 100003 + j for j in range(nseeds)]
            runs, fails, pf = conc.run_batch(ctx, comp, exe, sc, tso, seeds, wd)
            conc.report_failures(ctx, comp, fails)
            if runs:
                ctx.sample({"kind": "recorded execution of the real code (first events)", "scenario": sc["name"], "tso": tso, "seed": runs[0][0],
                            "events": [e for e in runs[0][1][:12]]})
            conc.validate(ctx, comp, sc, tso, runs, wd, "tv_%s_%d" % (sc["name"], tso))
            if nsim:
                conc.spec_to_code(ctx, comp, exe, sc, tso, nsim, wd)
        log("  [conf] %s: traces validated so far %d, events %d, replays %d, violations %d" % (sc["name"], ctx.traces, ctx.events, ctx.replays, len(ctx.violations)))
    shutil.rmtree(wd, ignore_errors=True)


def run(ctx):
    q = ctx.quick()
    _install_classifier(ctx)
    run_scenarios(ctx, LFQ, QUICK if q else THOROUGH, nseeds=60 if q else 1500, nsim=24 if q else 300, both_modes=not q)
    if not HELPTAIL:
        only = os.environ.get("VERIF_SCEN")
        for scn in (K_QUICK if q else K_THOROUGH):
            if only and scn not in only.split(","):
                continue
            known_probe(ctx, load_scenario(scn))
    nt = list(ctx.extra.get("actions_never_taken", {}).values())
    ctx.extra["actions_never_taken_in_any_scenario"] = sorted(set.intersection(*[set(v) for v in nt])) if nt else []


def replay(ctx, path):
    _install_classifier(ctx)
    wd = os.path.join(ctx.outdir, "replay_probe"); os.makedirs(wd, exist_ok=True)
    configure(detect_variant(ctx, build_driver("d_lfq", "d_lfq.c", tag=ctx.pid + "_d_lfq"), wd))
    meta = json.load(open(os.path.join(path, "meta.json"))) if os.path.exists(os.path.join(path, "meta.json")) else {}
    if "scenario" not in meta:      # TLC counterexample only (design level): re-run the model checker on that configuration
        m = re.search(r"MC_(\w+?)_mc(_k|_ht)?\.tla", open(os.path.join(path, "tlc.log")).read())
        sc = load_scenario(m.group(1))
        (known_probe(ctx, sc) if m.group(2) == "_k" else conc.model_check(ctx, LFQ, sc))
        return
    conc.replay(ctx, LFQ_K if meta.get("known_key") and not HELPTAIL else LFQ, path)
