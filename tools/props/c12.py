"""C12: the RCU lock-free queue (cds_lfq_*_rcu) is a linearizable FIFO; dummies never escape and are reclaimed after a grace period."""
from vlib import *
import vlib, conc

LEVEL = "model_checking"
ASSUMPTIONS = ["x86-TSO memory model (Sewell et al.); compiler honours volatile/atomic accesses and asm barriers; the algorithm's shared stores are all seq_cst cmpxchg, "
               "plain stores (node initialisation) are committed in program order (runtime L-B semantics), so TSO and SC runs coincide for this component",
               "serialised execution: scheduling points are the hooked shared accesses, watched plain accesses, blocking calls and the start of every driver operation",
               "RCU is abstract (harness/absrcu.h = grace period waits for exactly the read-side sections open at its start); the real flavors' grace periods are C01's claim",
               "API preconditions are the scenario's responsibility: enqueue/dequeue inside a read-side critical section, a dequeued node freed or re-enqueued only after "
               "synchronize_rcu, destroy only when no other operation is in flight",
               "bounds: 1 queue, <= 3 user nodes, <= 3 threads, <= 4 operations per thread, <= 6 dummy allocations"]

WORKERS = 8


def _run_tlc(*a, **k):          # shared machine: never more than 8 TLC workers
    k["workers"] = min(k.get("workers") or WORKERS, WORKERS)
    return vlib.run_tlc(*a, **k)


conc.run_tlc = _run_tlc


def lfq_program(sc):
    out = []
    for t, ops in sc["threads"].items():
        out.append("thread %s" % t)
        for o in ops:
            if o["op"] == "enq": out.append("enq %s" % o["n"])
            elif o["op"] == "wait": out.append("wait %s" % ",".join(o["ts"]))
            else: out.append(o["op"])
    return "\n".join(out) + "\n"


LFQ = {
    "spec": "Lfq", "driver": "d_lfq.c", "trace": "LfqTrace",
    "invariants": ["Linearizable", "NoUseAfterFree", "NoDummyReturned", "Conservation", "NoLeak"],
    "mc_invariants": ["DeadlockFree"], "constraints": ["SBBound"],
    "consts": lambda sc: {"Threads": tla(set(sc["threads"])), "Prog": tla_fun(sc["threads"]), "SBMax": str(sc.get("sbmax", 2)),
                          "MaxDm": str(sc.get("maxdm", 4))},
    "program": lfq_program,
}

QUICK = ["lfq_2e1d", "lfq_lag", "lfq_empty", "lfq_destroy", "lfq_recycle"]
THOROUGH = QUICK


def run(ctx):
    q = ctx.quick()
    conc.run_component(ctx, LFQ, QUICK if q else THOROUGH, nseeds=60 if q else 2000, nsim=24 if q else 400)


def replay(ctx, path):
    conc.replay(ctx, LFQ, path)
