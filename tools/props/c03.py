"""C03: call_rcu() -- every callback runs exactly once, with its own rcu_head, only after a grace period covering the
read-side sections open at ITS call_rcu() entry; default / per-thread / per-CPU helpers, concurrent enqueuers, callbacks
re-enqueuing, helpers destroyed with callbacks still queued, create_all_cpu_call_rcu_data (two racing callers: the loser frees
its helper) and free_all_cpu_call_rcu_data against a concurrent call_rcu() on that CPU.

spec/CallRcu.tla (one action per shared access / blocking call of src/urcu-call-rcu-impl.h and of the wfcqueue operations
it uses, x86-TSO; grace period abstract) is model checked per scenario: NoErr (AtMostOnce, AfterGP, RightArg, FreedOnce),
NoUseAfterFree, NoLoss (at quiescence every queued callback has run), TLC deadlock check (lost wake-up), liveness under
fairness on a small configuration; model-level negative controls (Mut) show the invariants have teeth.
harness/d_callrcu.c runs the REAL urcu-call-rcu-impl.h over the framework's abstract RCU with the library-created helper
threads as daemon model threads; every recorded execution (seeded PCT / uniform schedules, SC and software TSO) is
validated against the specification by TLC (spec/trace/CallRcuTrace.tla.in), driver-level oracles run on every execution,
and directed schedules derived from TLC counterexamples (scenario "scripts") are enforced on the real code.
Shared machinery: tools/callrcu_common.py.
"""
from vlib import *
import callrcu_common as cc

LEVEL = "model_checking"
ASSUMPTIONS = [
    "x86-TSO memory model (Sewell et al.); compiler honours volatile/atomic accesses and asm barriers",
    "serialised execution: scheduling points are the hooked shared accesses and blocking calls",
    "grace period abstract (a blocking step waiting for the read-side sections open at its start) both in the specification and in the "
    "executed code: urcu-call-rcu-impl.h is compiled against the framework's abstract flavor; that the four real flavors implement it is C01",
    "urcu-call-rcu-impl.h is one file included by every flavor; integration runs execute it inside the real mb flavor (quick and thorough) and memb flavor "
    "(thorough) and qsbr (quick and thorough; scenarios without call_rcu_data_free / call_rcu_before_fork by an online caller -- observation O4 -- and without "
    "real-time helpers) translation units with the grace-period internals projected away; bp integration is not executed",
    "CPU selection is an environment input (model CPUs 0..1 through the redirected sched_getcpu); in the scenarios with create_all_cpu_call_rcu_data / "
    "free_all_cpu_call_rcu_data the possible-CPU array length seen by the library is the model's NCpu (1 or 2; get_possible_cpus_array_len is renamed at "
    "preprocessing time in the driver), elsewhere the machine's value only sizes the pointer array; helper CPU affinity (sched_setaffinity) is not modelled",
    "bounds: <= 2 enqueuers, <= 3 rcu_heads (one re-enqueued from a callback), <= 2 readers, default + 1 extra helper (per-thread, per-CPU, RT or futex-woken), "
    "one call_rcu_data_free; store buffers <= 2 in TLC, 32-entry software store buffers in the executed code",
    "pthread_create is not a store-buffer drain in the VSCHED runtime (it is in the specification when model checking)",
]
QUICK = ["crcu_one", "crcu_2e_s", "crcu_thr_re", "crcu_rt", "crcu_pause"]
THOROUGH = ["crcu_2e", "crcu_cpu_s", "crcu_cpu", "crcu_late", "crcu_thr", "crcu_all1"]
QUICK_CONF_ONLY = ["crcu_all2", "crcu_all", "crcu_all_w"]      # create_all / free_all: executions validated in quick, TLC on the scenario in thorough
THOROUGH_CONF_ONLY = ("crcu_all",)      # two CPUs, three helpers: > 7.7 M states unfinished after 25 min; crcu_all1 is its exhaustively explored one-CPU form
NEG_QUICK = [("crcu_one", ["gpfirst"], "AfterGP")]
NEG_THOROUGH = [("crcu_one", ["nowake"], "NoLoss"), ("crcu_thr_re", ["nohandover"], "NoLoss"), ("crcu_one", ["nogp"], "AfterGP"), ("crcu_neg_nosync", [], "uaf"), ("crcu_cpu", ["norlock"], "uaf"),
                ("crcu_all1", ["nofasync"], "uaf")]
LIVE = [("crcu_live", ["EventuallyInvoked", "BarrierReturns"])]


def run(ctx):
    q = ctx.quick()
    ctx.notes.append("spec -> code: directed schedules (orders on driver-visible events taken from TLC counterexamples of mutated specifications) are enforced "
                     "on the real code with scheduler-level gates; step-exact replay of tlc -simulate behaviours is not used (the executed code has private "
                     "scheduling points -- the helper's temporary queue -- that the specification folds into the adjacent step)")
    cc.qsbr_finding(ctx)
    if q:
        cc.run_property(ctx, "C03", QUICK + QUICK_CONF_ONLY, NEG_QUICK, [], nseeds=25, nscript=10, sc_tsos={"crcu_one": (0, 1)}, mc_workers=3, mc_timeout=900,
                        conf_only=tuple(QUICK_CONF_ONLY))
        cc.real_flavor(ctx, "mb", ["crcu_one"], nseeds=15)
        cc.real_flavor(ctx, "qsbr", ["crcu_one"], nseeds=10)
    else:
        cc.real_flavor(ctx, "mb", QUICK + ["crcu_2e", "crcu_cpu", "crcu_late"], nseeds=150, tsos=(0, 1))
        cc.real_flavor(ctx, "memb", ["crcu_one", "crcu_2e_s", "crcu_rt"], nseeds=100, tsos=(1,))
        cc.real_flavor(ctx, "qsbr", ["crcu_one", "crcu_2e_s", "crcu_all2"], nseeds=100, tsos=(0, 1))
        cc.run_property(ctx, "C03", QUICK + QUICK_CONF_ONLY + THOROUGH, NEG_QUICK + NEG_THOROUGH, LIVE, nseeds=500, nscript=60, sc_tsos={s: (0, 1) for s in QUICK + QUICK_CONF_ONLY + THOROUGH},
                        mc_workers=4, mc_timeout=3000, coverage=True, conf_only=THOROUGH_CONF_ONLY)


def replay(ctx, path):
    cc.replay(ctx, path)
