"""C10: wait-free queues are FIFO (cds_wfcq, legacy cds_wfq)."""
from vlib import *
import conc

LEVEL = "model_checking"
ASSUMPTIONS = ["x86-TSO memory model (Sewell et al.); compiler honours volatile/atomic accesses and asm barriers",
               "serialised execution: scheduling points are the hooked shared accesses and blocking calls",
               "bounds: 2 queues, <= 3 nodes, <= 3 threads, store buffer <= 2 in TLC; executed code uses unbounded (32-entry) software store buffers"]


def wfcq_program(sc):
    out = []
    for t, ops in sc["threads"].items():
        out.append("thread %s" % t)
        for o in ops:
            if o["op"] == "enq": out.append("enq %s %s" % (o["q"], o["n"]))
            elif o["op"] == "deq": out.append("deq %s %d %d" % (o["q"], o["blk"], o["lck"]))
            elif o["op"] == "splice": out.append("splice %s %s %d %d" % (o["q"], o["s"], o["blk"], o["lck"]))
            else: out.append("%s %s" % (o["op"], o["q"]))
    return "\n".join(out) + "\n"


WFCQ = {
    "spec": "Wfcq", "driver": "d_wfcq.c", "trace": "WfcqTrace",
    "invariants": ["Linearizable", "Conservation"], "mc_invariants": ["DeadlockFree"], "constraints": ["SBBound"],
    "consts": lambda sc: {"Threads": tla(set(sc["threads"])), "Prog": tla_fun(sc["threads"]), "SBMax": str(sc.get("sbmax", 2))},
    "program": wfcq_program,
}


def run(ctx):
    q = ctx.quick()
    conc.run_component(ctx, WFCQ, ["wfcq_2e1d", "wfcq_nb", "wfcq_splice", "wfcq_locked"], nseeds=150 if q else 3000, nsim=40 if q else 400)


def replay(ctx, path):
    conc.replay(ctx, WFCQ, path)
