"""C10: wait-free queues are FIFO (cds_wfcq, legacy cds_wfq)."""
from vlib import *
import conc

LEVEL = "model_checking"
ASSUMPTIONS = ["x86-TSO memory model (Sewell et al.); compiler honours volatile/atomic accesses and asm barriers",
               "serialised execution: scheduling points are the hooked shared accesses and blocking calls",
               "bounds: 2 queues, <= 3 nodes, <= 3 threads, store buffer <= 2 in TLC; executed code uses unbounded (32-entry) software store buffers"]


def wfcq_program(sc):
    out = []
    for t, ops in sc["threads"].items():
        out.append("thread %s" % t)
        for o in ops:
            if o["op"] == "enq": out.append("enq %s %s" % (o["q"], o["n"]))
            elif o["op"] == "deq": out.append("deq %s %d %d" % (o["q"], o["blk"], o["lck"]))
            elif o["op"] == "splice": out.append("splice %s %s %d %d" % (o["q"], o["s"], o["blk"], o["lck"]))
            else: out.append("%s %s" % (o["op"], o["q"]))
    return "\n".join(out) + "\n"


WFCQ = {
    "spec": "Wfcq", "driver": "d_wfcq.c", "trace": "WfcqTrace",
    "invariants": ["Linearizable", "Conservation"], "mc_invariants": ["DeadlockFree"], "constraints": ["SBBound"],
    "consts": lambda sc: {"Threads": tla(set(sc["threads"])), "Prog": tla_fun(sc["threads"]), "SBMax": str(sc.get("sbmax", 2))},
    "program": wfcq_program, "normalize": {"extra_fields": ("ws",)},
}


def wfq_program(sc):
    out = []
    for t, ops in sc["threads"].items():
        out.append("thread %s" % t)
        for o in ops:
            if o["op"] == "enq": out.append("enq %s" % o["n"])
            elif o["op"] == "deq": out.append("deq %d" % o["lck"])
            else: out.append("reenq")
    return "\n".join(out) + "\n"


def wfq_component(plainbuf):
    # legacy cds_wfq.  TLC explores with the plain node_init store buffered (hardware behaviour); recorded executions are validated
    # with PlainBuf = FALSE because the executed code commits plain stores at once (one of the TSO behaviours, see Lfs)
    return {
        "spec": "Wfq", "driver": "d_wfq.c", "trace": "WfqTrace", "variant": "_pb" if plainbuf else "",
        "invariants": ["Linearizable", "Conservation"], "mc_invariants": ["DeadlockFree"], "constraints": ["SBBound"],
        "consts": lambda sc: {"Threads": tla(set(sc["threads"])), "Prog": tla_fun(sc["threads"]), "SBMax": str(sc.get("sbmax", 2)),
                              "PlainBuf": "TRUE" if plainbuf else "FALSE"},
        "program": wfq_program, "defines": ["URCU_VERIF_WFQ_ADAPT_ATTEMPTS=2"],
    }


def run(ctx):
    q = ctx.quick()
    conc.run_component(ctx, WFCQ, ["wfcq_2e1d", "wfcq_nb", "wfcq_splice", "wfcq_locked"], nseeds=150 if q else 3000, nsim=40 if q else 400)
    wq = ["wfq_2e1d", "wfq_locked", "wfq_reuse"]
    conc.run_component(ctx, wfq_component(False), wq, nseeds=60 if q else 2000, nsim=20 if q else 300)
    for scn in (["wfq_reuse"] if q else wq):      # design level with the plain store buffered as on the hardware (no code binding needed: same labels)
        if len(ctx.violations) < conc.MAXV:
            r = conc.model_check(ctx, wfq_component(True), load_scenario(scn))
            log("  [TLC] %s (PlainBuf): %d distinct states, %.0fs, %s" % (scn, r.distinct, r.wall, "ok" if r.ok else (r.violation or r.error)))


def replay(ctx, path):
    import json, os
    meta = json.load(open(os.path.join(path, "meta.json")))
    conc.replay(ctx, wfq_component(False) if str(meta.get("scenario", "")).startswith("wfq_") else WFCQ, path)
