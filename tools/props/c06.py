"""C06: keys inserted only with cds_lfht_add_unique / cds_lfht_add_replace never expose duplicates (to lookups, duplicate walks and
full traversals, concurrent ones included); of several concurrent add_unique of an absent key exactly one wins and the others return
a node present during their call; a key that is replaced is never reported absent; a replaced node goes to exactly one caller.

Same component as C05 (tools/lfht_common.py), scenarios restricted to add_unique / add_replace / replace / del on one key with
concurrent lookups, duplicate walks and traversals.  Monitors: GuaranteeF, NoDupExposed, ResidentFound (its kres part = "continuously
present key is found"), Linearizable (exactly one winner), SingleOwner."""
from vlib import *
import conc, lfht_common as L

LEVEL = "model_checking"
ASSUMPTIONS = L.ASSUMPTIONS
INV = ["Linearizable", "GuaranteeF", "NoDupExposed", "ResidentFound", "SingleOwner", "InTabIsPhysical", "Sorted", "FlagsOk", "Conservation", "NoUAF"]
COMP = L.comp_for(INV)
QUICK = ["lfht_uniq", "lfht_uniq_trav", "lfht_uniq_grow", "lfht_repl_lookup", "lfht_addr_del", "lfht_addr_del_addu"]
THOROUGH = QUICK + ["lfht_mix3", "lfht_repl2"]
NEG = [("lfht_uniq_trav", "uniq_tail")]


def run(ctx):
    q = ctx.quick()
    L.run_lfht(ctx, COMP, QUICK if q else THOROUGH, nseeds=30 if q else 1000, nsim=8 if q else 200, both_modes=not q,
               mm_variants=())
    if not q:
        L.negative_controls(ctx, COMP, NEG)


def replay(ctx, path):
    L.replay(ctx, COMP, path)
