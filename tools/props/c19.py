"""C19: read-side critical sections are safe inside signal handlers (memb, mb; bp: see DESIGN).

spec/UrcuGp.tla (mb, memb) and the bp specification (tools/props/bp_parts.py) have a signal-handler process per interruptible thread:
rcu_read_lock(); rcu_dereference(); rcu_read_unlock() between any two steps of the interrupted thread; TLC checks that the reader word at
sig_exit is the one at sig_enter and the C01 assertions for the handler's and the interrupted code's sections.  harness/d_gp.c / d_bp.c run
the handler on the victim's stack at the k-th scheduling point for every k (VRT_SIGAT) and at random points (VRT_SIGS); driver oracle: reader
word (nesting, phase inside a section) and rcu_read_ongoing() at handler exit equal to those at entry, use-after-free in the handler.
Scenarios: gp_sig (reader interrupted inside lock / section / unlock), gp_sig_nest (reader with a nested section: handler at depth 0, 1, 2),
gp_sig_sync (registered updater interrupted inside synchronize_rcu(), also while asleep in FUTEX_WAIT), gp_sig2 (thorough: two grace periods,
reader and updater interrupted), bp_sig*; crcu_sig* (tools/props/sig_parts.py): a registered reader interrupted in the MIDDLE OF call_rcu() --
inside its internal read-side section (the handler's section nests in it), inside the lazy creation of the default helper under
call_rcu_mutex, between the two steps of the wfcq enqueue, in the helper wake-up, and with the caller inside a section of its own -- on the
real mb / memb flavors, against spec/CallRcu.tla extended with the same handler process (invariants SigRestores, NoUseAfterFree, AfterGP,
AtMostOnce, NoLoss).
"""
from vlib import *
import conc
from props.gpcommon import gp_component
from props import bp_parts, sig_parts

LEVEL = "model_checking"
ASSUMPTIONS = ["interruption points are the thread's shared-memory accesses and blocking calls (between any two steps of the specification), not machine instructions",
               "the handler performs rcu_read_lock(); rcu_dereference(); rcu_read_unlock(); nesting of handlers <= 1 in TLC (one handler frame at a time; the "
               "interrupted code may itself be at nesting depth 0, 1 or 2)",
               "x86-TSO; bounds as in C01"]


def run(ctx):
    import os
    if os.environ.get("VERIF_C19_NOPARTS") == "1":       # (timing / debugging aid: the original body alone)
        return run_body(ctx)
    part = sig_parts.Part(ctx)         # crcu_sig* (call_rcu interrupted), gp_sig_nest, gp_sig_sync: run next to the body below, merged at the end
    try:
        run_body(ctx)
    finally:
        part.join()


def run_body(ctx):
    q = ctx.quick()
    n, sim = (80, 30) if q else (2000, 400)
    for comp in (gp_component("mb", False, sig_threads=("r1",), sig_budget=1), gp_component("memb", True, sig_threads=("r1",), sig_budget=1)):
        conc.run_component(ctx, comp, ["gp_sig"] + ([] if q else ["gp_sig2"]), nseeds=n, nsim=sim)
        # every interruption point: deliver the signal at the k-th scheduling point of r1, for all k, under a few schedules
        import os, shutil
        wd = os.path.join(ctx.outdir, "work_at"); shutil.rmtree(wd, ignore_errors=True); os.makedirs(wd)
        exe = build_driver(comp["drvname"], comp["driver"], defines=comp["defines"], tag=ctx.pid + "_" + comp["drvname"])
        for scn in ["gp_sig"] + ([] if q else ["gp_sig2"]):
            sc = load_scenario(scn)
            points = 0
            for tso in (0, 1):
                allruns = []
                for k in range(0, 40 if q else 90):
                    runs, fails, pf = conc.run_batch(ctx, comp, exe, sc, tso, [ctx.seed * 7 + j for j in range(2 if q else 6)], wd, env_extra={"VRT_SIGAT": "r1:%d" % k, "VRT_SIGS": 0})
                    conc.report_failures(ctx, comp, fails)
                    hit = [r for r in runs if any(e.get("op") == "sig_enter" for e in r[1])]
                    points += 1 if hit else 0
                    allruns += [(s * 1000 + k, ev) for s, ev in runs]
                conc.validate(ctx, comp, sc, tso, allruns, wd, "tvat_%s_%s_%d" % (scn, comp["name"], tso))
            ctx.extra.setdefault("interruption_points_exercised", {})[scn + "/" + comp["name"]] = points
        shutil.rmtree(wd, ignore_errors=True)
    if not q:
        conc.run_component(ctx, gp_component("memb", False, sig_threads=("r1", "u1"), sig_budget=2), ["gp_sig", "gp_sig2"], nseeds=n, nsim=sim)
    ctx.extra.setdefault("flavors_covered", []).extend(["mb", "memb"])
    if len(ctx.violations) < conc.MAXV:
        bp_parts.run_c19(ctx); ctx.extra["flavors_covered"].append("bp")


def replay(ctx, path):
    if bp_parts.is_bp_replay(path):
        return bp_parts.replay(ctx, path)
    if sig_parts.is_part_replay(path):
        return sig_parts.replay(ctx, path)
    conc.replay(ctx, gp_component("mb", False, sig_threads=("r1",), sig_budget=1), path)
