"""C13: defer_rcu() -- calls run once, in order, with their exact arguments, after a grace period; barriers;
background reclaimer (no lost wake-up); re-registration.

Two parts (DESIGN 4, C13):
 (a) CODEC    spec/DeferCodec.tla (sequential ring + encoder/decoder, all call sequences over the pointer-class
              alphabet, model checked for Q in {4, 8}); TLC-generated behaviours (exhaustive short ones + simulated
              long ones, spec/DeferCodecGen.tla) are replayed on the real defer_rcu()/rcu_defer_barrier_thread() and the
              invoked calls and the ring image after every call are compared with what the specification computed.
 (b) PROTOCOL spec/Defer.tla (one action per shared access, TSO) model checked per scenario; executions of the real
              src/urcu-defer-impl.h (through src/urcu.c, mb flavor) under VSCHED with the library-created reclaimer as
              model thread h1 are validated against it by TLC (spec/trace/DeferTrace.tla.in).  The grace-period
              internals of urcu.c are projected away: the events of synchronize_rcu() become gp_begin/gp_end.
"""
import os, json, re, shutil, concurrent.futures as cf
from vlib import *
import conc

LEVEL = "model_checking"
ASSUMPTIONS = [
    "x86-TSO memory model (Sewell et al.); compiler honours volatile/atomic accesses and asm barriers",
    "serialised execution: scheduling points are the hooked shared accesses and blocking calls",
    "grace period abstract in the specification (a blocking step waiting for the read-side sections open at its start); the "
    "executed code runs the real mb-flavor synchronize_rcu(), whose internals are projected out of the traces (C01 covers them)",
    "flavor: the defer implementation is one shared file (urcu-defer-impl.h) included by urcu.c, urcu-qsbr.c and urcu-bp.c; "
    "it is executed here through urcu.c with -DRCU_MB",
    "pointer values abstracted to classes {aligned, low bit set, DQ_FCT_MARK, NULL} with concrete representatives "
    "(odd function = stub emitted at an odd address of an executable page)",
    "bounds: DEFER_QUEUE_SIZE overridden to 4 / 8 (URCU_VERIF_DEFER_QUEUE_SIZE); protocol scenarios: <= 3 threads + reclaimer, "
    "store buffer <= 2 in TLC; executed code uses 32-entry software store buffers",
]
DEFINES = ["RCU_MB", "URCU_VERIF_RCU_QS_ACTIVE_ATTEMPTS=2", "URCU_VERIF_URCU_WAIT_ATTEMPTS=2", "URCU_VERIF_KICK_READER_LOOPS=2"]
FINDING_KEY = "C13-reregister-last_head-assert"


# ------------------------------------------------------------------ protocol component
def defer_program(sc):
    out = []
    for t, ops in sc["threads"].items():
        out.append("thread %s" % t)
        for o in ops:
            out.append("defer %s %s" % (o["f"], o["p"]) if o["op"] == "defer" else o["op"])
    return "\n".join(out) + "\n"


def defer_consts(sc):
    return {"Threads": tla(set(sc["threads"])), "Prog": tla_fun(sc["threads"]), "SBMax": str(sc.get("sbmax", 2)),
            "Q": str(sc.get("q", 4)), "NRecl": str(sc.get("nrecl", 1)), "Spurious": str(sc.get("spurious", 0))}


def component(q):
    return {
        "spec": "Defer", "driver": "d_defer.c", "trace": "DeferTrace",
        "invariants": ["NoErr"], "mc_invariants": ["DeadlockFree", "QuiescentDone"], "constraints": [],
        "consts": defer_consts, "program": defer_program,
        "defines": DEFINES + ["URCU_VERIF_DEFER_QUEUE_SIZE=%d" % q],
        "normalize": {"drop_ops": ("end",), "extra_fields": ("xa", "xb", "xr")},
        "trace_consts": {"SBMax": "40"},
        "pct_len": 200, "env": {"VRT_BUDGET": 6000},
    }


# ------------------------------------------------------------------ projection of recorded executions
MY_MUTEXES = ("rcu_defer_mutex", "defer_thread_mutex")
DRIVER_OPS = ("call", "ret", "cb", "rlock", "runlock", "spawn", "join", "exit", "fail", "reset")
DROP_OPS = ("rmb", "wmb", "sigmask", "end", "blocked", "relax", "poll")   # no effect on x86-TSO / bookkeeping of the runtime


def project(events):
    """Runtime events -> events of the Defer specification.
    Kept: accesses, barriers and futex calls issued from urcu-defer-impl.h (`loc`), the two defer mutexes, flushes of
    named locations, thread start/join/exit, driver events.  Everything else executed by a thread while it is inside a
    defer API call (or by a reclaimer) is the inside of synchronize_rcu(): its first event becomes gp_begin, its last
    one gp_end.  Reader-side and registration code of urcu.c run by scenario threads between API calls is dropped."""
    out = []
    inapi = {}          # thread -> inside a defer API call
    gp_last = {}        # thread -> index in `out` of the placeholder after its latest projected-away event
    def close_gp(t):
        i = gp_last.pop(t, None)
        if i is not None:
            out[i] = {"t": t, "op": "gp_end", "var": "-"}
    for e in events:
        t = e.get("t", "-"); op = e.get("op")
        if op in DROP_OPS:
            continue
        loc = e.get("loc"); var = e.get("var", "-")
        mine = None
        if op in DRIVER_OPS:
            mine = True
        elif op == "flush":
            if var == "?":
                continue
            mine = True
        elif loc is not None:
            mine = loc.startswith("urcu-defer-impl.h:")
        elif op in ("lock", "unlock", "trylock"):
            mine = var in MY_MUTEXES
        elif op in ("fwait", "fwoke", "fwake"):
            mine = var == "futex"
        else:
            mine = False
        if not mine:
            if inapi.get(t) or t.startswith("h"):
                if t not in gp_last:
                    out.append({"t": t, "op": "gp_begin", "var": "-"})
                gp_last[t] = len(out); out.append(None)
            continue
        if op != "flush":
            close_gp(t)
        n = {"t": t, "op": op, "var": "-"}
        if op == "call":
            inapi[t] = True; n["xa"] = e.get("api"); n["xb"] = e.get("f", "-"); n["xr"] = e.get("p", "-")
        elif op == "ret":
            inapi[t] = False
        elif op == "cb":
            n["xa"] = e.get("f"); n["xb"] = e.get("p")
        elif op in ("spawn", "join", "lock", "unlock"):
            n["var"] = var
        elif op in ("ld", "dec"):
            n["var"] = var; n["xr"] = e.get("r")
        elif op in ("st", "flush"):
            n["var"] = var; n["xa"] = e.get("a")
        elif op == "fwait":
            n["var"] = var; n["xa"] = e.get("a"); n["xr"] = e.get("r")
        elif op in ("fwoke", "fwake"):
            n["var"] = var; n["xr"] = e.get("r")
        elif op == "fail":
            n["what"] = e.get("what", "")
        out.append(n)
    for t in list(gp_last):
        close_gp(t)
    return [e for e in out if e is not None]


def run_batch_projected(ctx, comp, exe, sc, tso, seeds, wd):
    env = {}
    if sc.get("spurious"):
        env = {"VRT_SPURIOUS": (sc["spurious"] + 1) // 2, "VRT_EINTR": sc["spurious"] // 2}
    runs, fails, pf = conc.run_batch(ctx, comp, exe, sc, tso, seeds, wd, env_extra=env)
    return [(seed, project(ev)) for seed, ev in runs], fails


def model_check(ctx, comp, sc, workers, timeout, props=()):
    """TLC on the scenario (safety: invariants; with `props`: the liveness configuration FairSpec)."""
    c = conc.consts_for(comp, sc, True, False)
    if props:
        mod = gen_mc(sc, "live", c, cfg_lines=["SPECIFICATION FairSpec"] + ["PROPERTY " + p for p in props] + ["INVARIANT NoErr", "CHECK_DEADLOCK FALSE"])
    else:
        mod = gen_mc(sc, "mc", c, cfg_lines=["SPECIFICATION Spec"] + ["INVARIANT " + i for i in comp["invariants"] + comp["mc_invariants"]] + ["CHECK_DEADLOCK FALSE"])
    for attempt in (1, 2):
        r = run_tlc(mod, coverage=not props, timeout=timeout, heap="8g", workers=workers)
        if r.ok or r.violation or r.error:
            break           # (a TLC process killed from outside leaves none of the three: run it again once)
    return mod, c, r


def mc_report(ctx, sc, mod, c, r, timeout):
    ctx.add_tlc(r, mod, {k: v for k, v in c.items() if len(v) < 200})
    log("  [TLC] %s: %d distinct states, %.0fs, %s" % (mod, r.distinct, r.wall, "ok" if r.ok else (r.violation or r.error)))
    if r.violation:
        d = ctx.viol_dir(); shutil.copy(r.log, os.path.join(d, "tlc.log"))
        json.dump({"kind": "tlc", "scenario": sc["name"], "module": mod}, open(os.path.join(d, "meta.json"), "w"))
        ctx.violation("TLC: %s violated in %s (design-level counterexample in tlc.log)" % (r.violation, mod), d)
    elif not r.ok:
        if r.error == "timeout":
            ctx.notes.append("%s: TLC timed out after %ds with %d distinct states (not exhaustive)" % (mod, timeout, r.distinct))
        else:
            raise RuntimeError("TLC failed on %s: %s\n%s" % (mod, r.error, r.out[-1500:]))
    if r.coverage:
        ctx.extra.setdefault("actions_never_taken", {})[sc["name"]] = [k for k, v in r.coverage.items() if v[0] == 0 and k != "Terminating"]
        ctx.extra.setdefault("actions_taken", set()).update(k for k, v in r.coverage.items() if v[0] > 0)


def protocol(ctx, pool, scenarios, nseeds, sc_tsos, live=(), mc_workers=3, mc_timeout=3000):
    """Model checking of the scenarios (background jobs in `pool`) while the real code is run and its executions are
    validated (foreground, one more TLC worker).  Returns the background jobs."""
    wd = os.path.join(ctx.outdir, "work"); shutil.rmtree(wd, ignore_errors=True); os.makedirs(wd)
    only = os.environ.get("VERIF_SCEN")
    scs = [load_scenario(s) for s in scenarios if not only or s in only.split(",")]
    lives = [load_scenario(s) for s in live if not only or s in only.split(",")]
    exes = {}
    for sc in scs:
        q = sc.get("q", 4)
        if q not in exes:
            exes[q] = build_driver("d_defer", "d_defer.c", defines=component(q)["defines"], tag=ctx.pid + "_d_defer_q%d" % q)
    jobs = [(sc, pool.submit(model_check, ctx, component(sc.get("q", 4)), sc, mc_workers, mc_timeout)) for sc in scs]
    jobs += [(sc, pool.submit(model_check, ctx, component(sc.get("q", 4)), sc, mc_workers, mc_timeout, ("EventuallyRun",))) for sc in lives]
    for sc in scs:
        comp = component(sc.get("q", 4))
        for tso in sc_tsos.get(sc["name"], (1,)):
            if len(ctx.violations) >= conc.MAXV:
                break
            seeds = [ctx.seed * 100003 + i for i in range(nseeds)]
            runs, fails = run_batch_projected(ctx, comp, exes[sc.get("q", 4)], sc, tso, seeds, wd)
            conc.report_failures(ctx, comp, fails)
            if runs:
                ctx.sample({"kind": "recorded execution of the real code, projected on urcu-defer-impl.h (first events)", "scenario": sc["name"],
                            "tso": tso, "seed": runs[0][0], "events": [{k: v for k, v in e.items() if v != "-"} for e in runs[0][1][:16]]})
            conc.validate(ctx, comp, sc, tso, runs, wd, "tv_%s_%d" % (sc["name"], tso))
        log("  [conf] %s: traces validated so far %d, events %d, violations %d" % (sc["name"], ctx.traces, ctx.events, len(ctx.violations)))
    shutil.rmtree(wd, ignore_errors=True)
    return [(sc, j, mc_timeout) for sc, j in jobs]


# ------------------------------------------------------------------ codec component
F_ALL = ["fA", "fB", "gO", "MARK", "NULL"]
F_CALL = ["fA", "fB", "gO"]
P_ALL = ["a1", "o1", "MARK", "NULL"]
UNCALLABLE = ("MARK", "NULL")


def codec_module(name, base, q, extra_consts, cfg_lines, falpha=F_ALL, palpha=P_ALL, h0=(0,), junk=False, maxlen=0):
    os.makedirs(GEN, exist_ok=True)
    with open(os.path.join(GEN, name + ".tla"), "w") as f:
        f.write("---- MODULE %s ----\nEXTENDS %s\nmc_F == %s\nmc_P == %s\nmc_H0 == %s\n====\n" % (name, base, tla(set(falpha)), tla(set(palpha)), tla(set(h0))))
    consts = {"Q": q, "MaxLen": maxlen, "Wrap": 2 * q, "Junk": "TRUE" if junk else "FALSE"}
    consts.update(extra_consts)
    with open(os.path.join(GEN, name + ".cfg"), "w") as f:
        f.write("CONSTANTS\n" + "".join("  %s = %s\n" % kv for kv in consts.items()) + "  H0 <- mc_H0\n  FAlpha <- mc_F\n  PAlpha <- mc_P\n" + "\n".join(cfg_lines) + "\nCHECK_DEADLOCK FALSE\n")
    return name, {k: str(v) for k, v in consts.items()}


def codec_mc(ctx, q, junk=False, falpha=F_ALL, timeout=3000, workers=8):
    """All call sequences of any length (MaxLen = 0: fixpoint) over the alphabet, arbitrary drains, every ring offset."""
    mod, consts = codec_module("MC_defer_codec_q%d" % q, "DeferCodec", q, {}, ["SPECIFICATION CSpec", "INVARIANT CodecOK", "INVARIANT RingBound", "INVARIANT EmptyConsistent"],
                               falpha=falpha, junk=junk)
    for attempt in (1, 2):
        r = run_tlc(mod, workers=workers, timeout=timeout, heap="8g")
        if r.ok or r.violation or r.error:
            break
    consts.update({"FAlpha": ",".join(falpha), "PAlpha": ",".join(P_ALL)})
    return q, mod, consts, r, timeout


def codec_mc_report(ctx, q, mod, consts, r, timeout):
    ctx.add_tlc(r, mod, consts)
    log("  [TLC] codec Q=%d: %d distinct states, %.0fs, %s" % (q, r.distinct, r.wall, "ok" if r.ok else (r.violation or r.error)))
    if r.violation:
        d = ctx.viol_dir(); shutil.copy(r.log, os.path.join(d, "tlc.log"))
        json.dump({"kind": "tlc", "q": q, "module": mod}, open(os.path.join(d, "meta.json"), "w"))
        ctx.violation("TLC: %s violated in %s (design-level counterexample in tlc.log)" % (r.violation, mod), d)
    elif not r.ok:
        if r.error == "timeout":
            ctx.notes.append("%s: TLC timed out after %ds with %d distinct states (not exhaustive)" % (mod, timeout, r.distinct))
        else:
            raise RuntimeError("TLC failed on %s: %s\n%s" % (mod, r.error, r.out[-1500:]))


def codec_generate(ctx, q, genlen, h0, simulate=None, tag="", falpha=F_ALL):
    """Behaviours of DeferCodec with their expected observations: every one of `genlen` steps (breadth-first) or random
    ones (`tlc -simulate num=simulate`; every successor of the last-but-one state is emitted)."""
    mod, consts = codec_module("GEN_defer_codec_q%d%s" % (q, tag), "DeferCodecGen", q, {"GenLen": genlen}, ["SPECIFICATION GSpec", "INVARIANT Emit", "INVARIANT CodecOK"],
                               h0=h0, falpha=falpha)
    r = run_tlc(mod, workers=1 if simulate else 4, timeout=1200, simulate=simulate, depth=genlen + 2 if simulate else None,
                extra=["-seed", str(ctx.seed)] if simulate else ())
    if r.violation or (not simulate and not r.ok):
        raise RuntimeError("behaviour generation failed (%s): %s\n%s" % (mod, r.violation or r.error, r.out[-1500:]))
    seen = set(); res = []
    for ln in r.out.split("\n"):
        if not ln.startswith('<<"SEQ", "'):
            continue
        m = re.match(r'<<"SEQ", "(.*)", "(.*)">>$', ln.strip())
        if not m or m.group(1) in seen:
            continue
        seen.add(m.group(1))
        hist = json.loads(m.group(1).replace('\\"', '"')); pend = json.loads(m.group(2).replace('\\"', '"'))["pend"]
        res.append({"h0": hist[0]["h0"], "steps": hist[1:], "pend": [list(x) for x in pend] if pend else []})
    if not simulate:
        ctx.states += r.distinct; ctx.transitions += r.states
    return res


def real_h0(h0, q):
    """ring offsets in the upper half of the modulus start just below the wrap of the unsigned long counters"""
    return h0 if h0 < q else (1 << 64) - (2 * q - h0)


def seq_or_empty(x):
    return [list(y) if isinstance(y, (list, tuple)) else y for y in x] if x else []


def codec_compare(beh, recs):
    """Compare one TLC behaviour with the records of the real code; returns (None | description, steps compared, image_only)."""
    if not recs or recs[0]["op"] != "case":
        return "driver produced no record for the case", 0, False
    i = 1
    image_only = False
    for k, st in enumerate(beh["steps"]):
        if i >= len(recs):
            return "driver stopped before step %d" % (k + 1), k, image_only
        r = recs[i]; i += 1
        if r["op"] == "abandon":
            return None, k, True       # a not-callable function would be decoded next: only the ring images so far were compared
        if r["op"] != st["op"] or (st["op"] == "d" and (r["f"] != st["f"] or r["p"] != st["p"])):
            return "driver executed a different step %d: %s" % (k + 1, json.dumps(r)), k, image_only
        exp_cb = seq_or_empty(st["cb"])
        if seq_or_empty(r["cb"]) != exp_cb:
            return "step %d (%s): calls invoked by the real code %s, by the specification %s" % (k + 1, st["op"], json.dumps(r["cb"]), json.dumps(exp_cb)), k, image_only
        img = st["img"]
        for fld in ("hm", "n", "lfi", "lfo"):
            if r[fld] != img[fld]:
                return "step %d: ring image differs in %s: real %s, specification %s" % (k + 1, fld, json.dumps(r[fld]), json.dumps(img[fld])), k, image_only
        if seq_or_empty(r["live"]) != seq_or_empty(img["live"]):
            return "step %d: live slots differ: real %s, specification %s" % (k + 1, json.dumps(r["live"]), json.dumps(seq_or_empty(img["live"]))), k, image_only
    if i < len(recs) and recs[i]["op"] == "end":
        if seq_or_empty(recs[i]["cb"]) != seq_or_empty(beh["pend"]):
            return "final flush: calls invoked by the real code %s, pending in the specification %s" % (json.dumps(recs[i]["cb"]), json.dumps(beh["pend"])), len(beh["steps"]), image_only
    elif not any(s["op"] == "d" and s["f"] in UNCALLABLE for s in beh["steps"]):
        return "no final flush record", len(beh["steps"]), image_only
    else:
        image_only = True
    return None, len(beh["steps"]), image_only


def write_cases(path, behs, q):
    with open(path, "w") as f:
        for i, b in enumerate(behs):
            f.write("case %d %d\n" % (i, real_h0(b["h0"], q)))
            for st in b["steps"]:
                f.write("d %s %s\n" % (st["f"], st["p"]) if st["op"] == "d" else "b\n")


def codec_replay(ctx, q, behs, exe, wd, tag):
    """Replay the behaviours on the real code (one driver process, sequential, outside the scheduler) and compare."""
    if not behs:
        return
    cases = os.path.join(wd, "cases_%s.txt" % tag); outp = os.path.join(wd, "codec_%s.ndjson" % tag)
    write_cases(cases, behs, q)
    rc, so, se = run_driver(exe, ["codec", outp, cases], timeout=300)
    recs = read_trace(outp) if os.path.exists(outp) else []
    by = {}
    for r in recs:
        by.setdefault(r.get("id"), []).append(r)
    nimg = 0
    for i, b in enumerate(behs):
        what, nsteps, image_only = codec_compare(b, by.get(i, []))
        if what is None:
            ctx.replays += 1; ctx.events += nsteps; nimg += image_only
            continue
        if rc != 0 and i >= max([k for k in by if isinstance(k, int)] + [0]):
            what += "; the driver then died (rc=%d): %s" % (rc, se.strip()[-200:])
        if len(ctx.violations) >= conc.MAXV:
            break
        d = ctx.viol_dir()
        json.dump({"kind": "codec", "q": q, "behaviour": b, "observed": by.get(i, []), "difference": what}, open(os.path.join(d, "meta.json"), "w"), indent=1)
        write_cases(os.path.join(d, "cases.txt"), [b], q)
        ctx.violation("the real defer queue deviates from DeferCodec on a TLC-generated call sequence (Q=%d): %s" % (q, what), d)
    if rc != 0 and not ctx.violations:
        raise RuntimeError("codec driver failed rc=%d: %s" % (rc, se[-500:]))
    ctx.extra["codec_image_only_behaviours"] = ctx.extra.get("codec_image_only_behaviours", 0) + nimg
    ctx.sample({"kind": "TLC behaviour of DeferCodec replayed on the real defer_rcu (calls, expected invocations, ring image)", "q": q,
                "h0": behs[-1]["h0"], "steps": behs[-1]["steps"][:4]})
    for pth in (cases, outp):
        if os.path.exists(pth):
            os.unlink(pth)


def codec(ctx, q, exhaustive_len, nsim, sim_len):
    wd = os.path.join(ctx.outdir, "cwork"); os.makedirs(wd, exist_ok=True)
    exe = build_driver("d_defer", "d_defer.c", defines=component(q)["defines"], tag=ctx.pid + "_d_defer_q%d" % q)
    before = ctx.replays
    behs = codec_generate(ctx, q, exhaustive_len, (0, 2 * q - 3), tag="_bfs")
    codec_replay(ctx, q, behs, exe, wd, "bfs%d" % q)
    nb = len(behs)
    # long random behaviours: callable functions only (compared to the end: every invocation and every image), then the
    # full alphabet (those that queue MARK / NULL as a function are compared up to the first drain that would decode it)
    ns = 0
    for tg, fa, num in (("_simc", F_CALL, nsim), ("_sima", F_ALL, max(1, nsim // 3))):
        if not nsim or len(ctx.violations) >= conc.MAXV:
            break
        behs = codec_generate(ctx, q, sim_len, tuple(range(2 * q)), simulate=num, tag=tg, falpha=fa)
        codec_replay(ctx, q, behs, exe, wd, "sim%d%s" % (q, tg))
        ns += len(behs)
    log("  [codec] Q=%d: %d exhaustive (%d steps) + %d simulated (%d steps) TLC behaviours replayed on the real code, %d so far, violations %d" % (
        q, nb, exhaustive_len, ns, sim_len, ctx.replays, len(ctx.violations)))
    ctx.traces += ctx.replays - before
    shutil.rmtree(wd, ignore_errors=True)


QUICK = ["defer_basic", "defer_reader", "defer_full", "defer_marks", "defer_rereg_reclaimed", "defer_spur"]
THOROUGH = ["defer_basic_rd", "defer_rereg", "defer_reader_bt", "defer_full3", "defer_marks_big", "defer_full_big", "defer_two"]


def run(ctx):
    q = ctx.quick()
    ctx.notes.append("codec: a function pointer equal to DQ_FCT_MARK or NULL cannot be called in user space; behaviours that queue such a call are "
                     "compared on the encoder's ring image only, up to the first drain that would decode it (count in codec_image_only_behaviours)")
    ctx.notes.append("protocol: spec -> code schedule replay is not used (the executed grace period has internal scheduling points the "
                     "specification abstracts); the spec -> code direction of C13 is the codec replay")
    with cf.ThreadPoolExecutor(2) as pool:       # at most 2 background TLC processes (3-4 workers each) + 1 foreground worker
        cjobs = [pool.submit(codec_mc, ctx, 4, False, F_ALL, 3000, 3 if q else 4)]
        if not q:
            cjobs.append(pool.submit(codec_mc, ctx, 8, True, F_ALL, 7200, 4))
        codec(ctx, 4, exhaustive_len=2 if q else 3, nsim=150 if q else 3000, sim_len=14)
        if not q:
            codec(ctx, 8, exhaustive_len=2, nsim=3000, sim_len=24)
        if q:
            pjobs = protocol(ctx, pool, QUICK, nseeds=40, sc_tsos={"defer_basic": (0, 1), "defer_reader": (0, 1)}, live=["defer_live"])
        else:
            pjobs = protocol(ctx, pool, QUICK + THOROUGH, nseeds=1500, sc_tsos={s: (0, 1) for s in QUICK + THOROUGH}, live=["defer_live", "defer_basic_rd"],
                             mc_workers=4, mc_timeout=7200)
        for j in cjobs:
            codec_mc_report(ctx, *j.result())
        for sc, j, to in pjobs:
            mod, c, r = j.result()
            mc_report(ctx, sc, mod, c, r, to)
    if "actions_taken" in ctx.extra:
        taken = ctx.extra.pop("actions_taken")
        never = set().union(*[set(v) for v in ctx.extra.get("actions_never_taken", {}).values()]) - taken
        ctx.extra["actions_never_taken_in_any_scenario"] = sorted(never)


def replay(ctx, path):
    """Re-run one recorded violation on the current tree: a codec behaviour, a TLC configuration, or a recorded execution
    (same scenario, seed, scheduler mode)."""
    meta = json.load(open(os.path.join(path, "meta.json")))
    kind = meta.get("kind")
    if kind == "codec":
        q = meta["q"]
        wd = os.path.join(ctx.outdir, "replay_work"); shutil.rmtree(wd, ignore_errors=True); os.makedirs(wd)
        exe = build_driver("d_defer", "d_defer.c", defines=component(q)["defines"], tag=ctx.pid + "_d_defer_q%d" % q)
        codec_replay(ctx, q, [meta["behaviour"]], exe, wd, "replay")
    elif kind == "tlc":
        if "scenario" in meta:
            sc = load_scenario(meta["scenario"])
            mod, c, r = model_check(ctx, component(sc.get("q", 4)), sc, 8, 3000, ("EventuallyRun",) if meta["module"].endswith("_live") else ())
            mc_report(ctx, sc, mod, c, r, 3000)
        else:
            codec_mc_report(ctx, *codec_mc(ctx, meta["q"], meta["q"] > 4, F_ALL, 3000, 8))
    else:
        sc = load_scenario(meta["scenario"]); comp = component(sc.get("q", 4)); tso = meta["tso"]
        wd = os.path.join(ctx.outdir, "replay_work"); shutil.rmtree(wd, ignore_errors=True); os.makedirs(wd)
        exe = build_driver("d_defer", "d_defer.c", defines=comp["defines"], tag=ctx.pid + "_d_defer_q%d" % sc.get("q", 4))
        runs, fails = run_batch_projected(ctx, comp, exe, sc, tso, [meta["seed"]], wd)
        conc.report_failures(ctx, comp, fails)
        conc.validate(ctx, comp, sc, tso, runs, wd, "tv_replay")
    log("replay of %s: %s" % (path, "violation reproduced" if ctx.violations else "no violation on the current tree"))
