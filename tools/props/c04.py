"""C04: rcu_barrier() returns only after every callback queued (by any thread, on any helper) before the call has finished
executing; rcu_barrier() always returns.

Same component as C03 (spec/CallRcu.tla <-> harness/d_callrcu.c, see tools/props/c03.py and tools/callrcu_common.py):
rcu_barrier counts the helpers under call_rcu_mutex, allocates a completion {barrier_count, futex, ref}, enqueues one marker
work item per helper, waits (dec futex; mb; ld barrier_count; completion wait) and drops its reference; the marker
(_rcu_barrier_complete) decrements the count, wakes the waiter and drops the helper's reference.
Invariants: BarrierComplete (callbacks whose call_rcu() had returned when rcu_barrier() was called have finished when it
returns), NoUseAfterFree / FreedOnce (completion and work items: the library's calloc/free are interposed, freed objects are
quarantined), TLC deadlock check + liveness (BarrierReturns) under fairness; negative controls: count taken outside the
mutex, countdown published as zero, reference count ignored.
qsbr (caller online / offline): integration runs over the real src/urcu-qsbr.c (cc.real_flavor "qsbr").
"""
from vlib import *
import callrcu_common as cc

LEVEL = "model_checking"
ASSUMPTIONS = [
    "x86-TSO memory model (Sewell et al.); compiler honours volatile/atomic accesses and asm barriers",
    "serialised execution: scheduling points are the hooked shared accesses and blocking calls",
    "grace period abstract both in the specification and in the executed code (urcu-call-rcu-impl.h compiled against the framework's abstract flavor; C01 covers the flavors)",
    "rcu_barrier() is not called from a read-side critical section nor from a callback (documented misuse)",
    "qsbr: the caller-online and caller-offline forms of rcu_barrier() are executed inside the real src/urcu-qsbr.c translation unit (integration runs: driver oracles, "
    "DEADLOCK / BUDGET oracles for a barrier that never returns, executions projected on the call_rcu component and validated against CallRcu); "
    "real-time (polling) helpers are not part of the qsbr runs (their offline/online stores at every poll defeat the runtime's parked-helper detection)",
    "callbacks terminate",
    "bounds: <= 2 concurrent rcu_barrier() calls, <= 2 helpers, <= 2 rcu_heads, one concurrent enqueuer or one concurrent call_rcu_data_free; store buffers <= 2 in TLC",
]
QUICK = ["crcu_bar1", "crcu_2bar_s"]
THOROUGH = ["crcu_bar_e", "crcu_spur", "crcu_bar_free", "crcu_bar_free2", "crcu_bar_rt", "crcu_bar", "crcu_2bar", "crcu_bar_off"]
QSBR_QUICK = ["crcu_bar1", "crcu_bar_off"]
QSBR_THOROUGH = ["crcu_bar1", "crcu_bar_off", "crcu_2bar_s", "crcu_bar_e"]
NEG_QUICK = [("crcu_bar1", ["earlycount"], "BarrierComplete"), ("crcu_bar1", ["noref"], "")]
NEG_THOROUGH = [("crcu_bar_free", ["nomutex"], "")]
LIVE = [("crcu_live", ["EventuallyInvoked", "BarrierReturns"])]


def run(ctx):
    q = ctx.quick()
    if q:
        # crcu_bar_free (barrier racing with call_rcu_data_free): conformance only in the quick tier, its 1.5M-state TLC run is in the thorough tier
        # crcu_bar_free2: the same race with the barrier placed, by a directed schedule, in the window in which call_rcu_data_free has dropped call_rcu_mutex
        cc.run_property(ctx, "C04", QUICK + ["crcu_bar_free", "crcu_bar_free2"], NEG_QUICK, LIVE, nseeds=40, nscript=12, sc_tsos={s: (0, 1) for s in QUICK + ["crcu_bar_free", "crcu_bar_free2"]},
                        mc_workers=3, mc_timeout=900, conf_only=("crcu_bar_free", "crcu_bar_free2"))
        cc.real_flavor(ctx, "mb", ["crcu_bar1"], nseeds=15)
        cc.real_flavor(ctx, "qsbr", QSBR_QUICK, nseeds=10, tsos=(0, 1))
    else:
        cc.real_flavor(ctx, "mb", QUICK + ["crcu_bar_free", "crcu_bar_rt"], nseeds=150, tsos=(0, 1))
        cc.real_flavor(ctx, "qsbr", QSBR_THOROUGH, nseeds=100, tsos=(0, 1))
        cc.run_property(ctx, "C04", QUICK + THOROUGH, NEG_QUICK + NEG_THOROUGH, LIVE, nseeds=500, nscript=0, sc_tsos={s: (0, 1) for s in QUICK + THOROUGH},
                        mc_workers=4, mc_timeout=7200, coverage=True)


def replay(ctx, path):
    cc.replay(ctx, path)
