"""C15 (mb / memb part): reader registration is dynamic -- threads register and unregister at any moment relative to running
grace periods, any number of times; each grace period waits for exactly the critical sections of registered threads and never
touches (or hangs on) a thread that has left.  The qsbr and bp parts of C15 come from other modules (see *_parts.py)."""
from vlib import *
import conc
from props.gpcommon import gp_component
from props import c02 as C02

LEVEL = "model_checking"
ASSUMPTIONS = ["x86-TSO memory model; compiler barriers are honoured by the compiler (not modelled)",
               "the reader lists (registry, cur_snap_readers, qsreaders) are modelled as sets protected by rcu_registry_lock; the pointer surgery of "
               "cds_list_add/del/move/splice is not modelled step by step but observed on the real code: list consistency (next/prev), membership "
               "projection after every register/unregister, and quarantine of the departed thread's struct urcu_reader (any later access = UAF)",
               "scenario well-formedness (asserted in the specification): readers are registered while they use rcu_read_lock(), do not unregister inside a section",
               "bounds: <= 3 threads, <= 2 grace periods, <= 2 register/unregister cycles per thread, store buffers <= 2 (TLC); "
               "RCU_QS_ACTIVE_ATTEMPTS = URCU_WAIT_ATTEMPTS = 2 in the driver build and the spec",
               "mb and memb (with / without sys_membarrier) flavors only; qsbr and bp are decided by their own modules"]
INV = ("RegistryExact", "ListsHome", "RegLockDiscipline", "NoSleepWithRegistryLock", "WaitNodeQuiet")


def comps(**kw):
    return (gp_component("mb", False, extra_invariants=INV, **kw), gp_component("memb", True, extra_invariants=INV, **kw),
            gp_component("memb", False, extra_invariants=INV, **kw))


def _flavor_parts(ctx):
    # the qsbr and bp flavors (their own specifications and drivers)
    from props import qsbr_parts, bp_parts
    ctx.extra.setdefault("flavors_covered", []).extend(["mb", "memb+sys_membarrier", "memb without sys_membarrier"])
    if len(ctx.violations) < conc.MAXV:
        qsbr_parts.run_c15(ctx); ctx.extra["flavors_covered"].append("qsbr")
    if len(ctx.violations) < conc.MAXV:
        bp_parts.run_c15(ctx); ctx.extra["flavors_covered"].append("bp (registry arena, thread exit, signals blocked during registration)")


def run(ctx):
    if COV:         # coverage pass: the flavor parts first (a forced schedule that a coverage build cannot follow must not hide them)
        _flavor_parts(ctx)
    q = ctx.quick()
    n, sim = (40, 12) if q else (400, 100)
    mb, ms, mn = comps()
    # TLC-generated schedules that put the register / unregister into named windows of the grace period (between the two scans, while the updater sleeps, ...)
    C02.directed_tier(ctx, "gp_c15_")
    if q:
        # one full loop on the smallest scenario (TLC safety with action coverage + seeded SC/TSO executions validated) ...
        C02.run_comp(ctx, mb, ["gp_c15_unreg"], n, 0)
        # ... per configuration an exhaustive FairSpec/Termination module that also checks every safety invariant (RegistryExact, ListsHome, ... and the
        # "no departed reader" / GP-guarantee assertions), the directed-schedule corpus (below; driver oracles: quarantine of departed reader state, list
        # consistency, membership projection, GP guarantee), and seeded executions of two 3-thread scenarios
        live = [("gp_c15_unreg", ms, True, 2), ("gp_c15_rereg", mn, True, 2), ("gp_c15_rereg", mb, True, 2)]
        for comp, scn, tso in ((mn, "gp_c15_reg_only", 1), (mb, "gp_c15_2u", 0)):
            C02.slim(ctx, comp, scn, tso, n)
    else:
        import os
        n, sim = (int(os.environ.get("VERIF_C02_N", n)), int(os.environ.get("VERIF_C02_SIM", sim)))
        C02.run_comp(ctx, mb, ["gp_c15_unreg", "gp_c15_rereg", "gp_c15_rereg2", "gp_c15_come_go", "gp_c15_reg_only", "gp_c15_2r_uaf", "gp_c15_2u"], n, sim)
        C02.run_comp(ctx, ms, ["gp_c15_unreg", "gp_c15_rereg", "gp_c15_rereg2", "gp_c15_come_go"], n, sim)
        C02.run_comp(ctx, mn, ["gp_c15_unreg", "gp_c15_rereg", "gp_c15_reg_only"], n, sim)
        C02.run_comp(ctx, gp_component("mb", False, fault_budget=1, extra_invariants=INV), ["gp_c15_unreg", "gp_c15_rereg"], n, sim)
        C02.run_comp(ctx, gp_component("mb", False, futex_mode="enosys", extra_invariants=INV), ["gp_c15_unreg"], n, sim)
        live = [(s, c, True, 2) for s in ("gp_c15_unreg", "gp_c15_rereg") for c in (mb, ms, mn)] + \
               [("gp_c15_rereg2", mb, True, 1), ("gp_c15_rereg2", ms, False, 0), ("gp_c15_come_go", mb, False, 0), ("gp_c15_come_go", ms, False, 0), ("gp_c15_reg_only", mn, False, 0)]
    # termination with readers coming and going (FairSpec => Termination, no state constraint)
    for scn, comp, tso, sbmax in live:
        C02.liveness(ctx, comp, scn, tso=tso, sbmax=sbmax, invariants=INV)
    C02.finish(ctx)
    if not COV:
        _flavor_parts(ctx)


def replay(ctx, path):
    from props import qsbr_parts, bp_parts
    if qsbr_parts.is_mine(path):
        return qsbr_parts.replay_c15(ctx, path)
    if bp_parts.is_bp_replay(path):
        return bp_parts.replay(ctx, path)
    C02.replay(ctx, path)
