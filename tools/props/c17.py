"""C17: progress guarantees -- wait-free / lock-free operations never wait on other threads; *_nonblocking variants never wait.

Design level (TLC): spec/trace/Solo.tla.in, a generic wrapper over the generated MC module of any PlusCal component: Freeze(t) may fire
once, in any reachable state in which t is inside an operation (segment) documented wait-free / lock-free / non-blocking; afterwards only
thr(t) (and store-buffer flushers) step.  Invariants: SoloBound (own access steps <= B(kind)), SoloProgress (the solo thread is never
blocked), SoloNoWait (no busy-wait / poll / futex wait iteration), NbNeverWaits, WouldBlockJustified; SoloMax reports the maxima TLC
reached.  Negative controls: blocking operations claimed wait-free must violate them.

Code level: the real sources under the VSCHED runtime with VRT_SOLO=<t>:<k> for every thread t and every scheduling decision k of seeded
schedules: the runtime suspends every other thread at decision k when t is inside an operation whose class is wait-free / lock-free;
WAITED / SOLO_BLOCKED / SOLO_BUDGET are violations (schedule = replay).  Every recorded execution (prefix + solo suffix) must be an
ordinary behaviour of the component's specification (trace validation, the component's own trace spec), and the number of own access
events of the solo thread must be <= the bound (the events counted are exactly those trace validation matches one-to-one with
acc-changing steps of the specification, which is what soloSteps counts in Solo.tla.in).

Adding a component = one entry in SOLO (kind table + four TLA+ one-liners + scenarios); see register().
"""
import os, re, json, shutil, hashlib
from vlib import *
import vlib, conc

LEVEL = "model_checking"
ASSUMPTIONS = ["x86-TSO memory model; suspended threads' store buffers may drain at any time after the freeze (any order, any subset) in TLC; the runtime drains them at the freeze",
               "suspension points are the boundaries between shared accesses / blocking calls (the steps of the specification and the scheduling points of the runtime), not machine instructions",
               "a step = one shared access, fence or blocking call of the operation (one acc-changing action of the specification = one logged event of the runtime); thread-private computation is not counted",
               "bounded scenarios (<= 4 threads, <= 3 nodes, store buffers <= 2): bounds of lock-free operations are established for these sizes (they grow with the number of suspended half-done operations)",
               "RCU read-side of the data-structure drivers is abstract (absrcu.h) and outside the measured operation; read-side lock/unlock of the real flavors mb and memb are measured through UrcuGp"]

SOLO = {}        # component name -> description (see the entries below)


def register(name, desc):
    SOLO[name] = desc


def K(kind, cls, labels, B, when=None, apis=()):
    """kind: name; cls: wf | lf | nb; labels: label names or prefixes 'x_*' of the segment; B: int or callable(scenario) -> int;
    when: TLA+ condition on t (evaluated only when pc[t] is one of the labels); apis: runtime operation names (vrt_op_begin) of this kind"""
    return {"kind": kind, "cls": cls, "labels": labels, "B": B, "when": when, "apis": tuple(apis)}


# ------------------------------------------------------------------ TLA+ generation
def spec_labels(spec):
    txt = open(os.path.join(SPEC, spec + ".tla")).read()
    m = re.search(r"^thr\(self\) == (.*?)\n\n", txt, re.S | re.M)
    return re.findall(r"(\w+)\(self\)", m.group(1))


def spec_vars(spec):
    txt = open(os.path.join(SPEC, spec + ".tla")).read()
    txt = txt[txt.index("BEGIN TRANSLATION"):]
    vs = []
    for m in re.finditer(r"^VARIABLES? (.*?)\n\s*\n", txt, re.S | re.M):
        vs += [x.strip() for x in m.group(1).replace("\n", " ").split(",") if x.strip()]
    return vs


def expand_labels(spec, pats):
    labs = spec_labels(spec)
    out = []
    for p in pats:
        got = [l for l in labs if l.startswith(p[:-1])] if p.endswith("*") else [l for l in labs if l == p]
        if not got:
            raise RuntimeError("no label %s in %s" % (p, spec))
        out += [g for g in got if g not in out]
    return out


def bound(k, sc):
    return k["B"](sc) if callable(k["B"]) else k["B"]


def component_text(S, sc, kinds):
    spec = S["spec"]
    L = []
    n = len(kinds)
    L.append("NKinds == %d" % n)
    L.append("KindIdx(k) == CASE " + " [] ".join('k = "%s" -> %d' % (k["kind"], i + 1) for i, k in enumerate(kinds)))
    L.append("KindBound(k) == CASE " + " [] ".join('k = "%s" -> %d' % (k["kind"], bound(k, sc)) for k in kinds))
    L.append("NbKinds == {%s}" % ", ".join('"%s"' % k["kind"] for k in kinds if k["cls"] == "nb"))
    expr = 'NONE'
    for k in reversed(kinds):
        labs = ", ".join('"%s"' % l for l in expand_labels(spec, k["labels"]))
        cond = "pc[t] \\in {%s}" % labs + (" /\\ (%s)" % k["when"] if k["when"] else "")
        expr = 'IF %s THEN "%s"\n              ELSE %s' % (cond, k["kind"], expr)
    L.append("SoloKind(t) == " + expr)
    L.append("HalfLabels == {%s}" % ", ".join('"%s"' % l for l in S.get("half_labels", ())))
    L.append("WaitStep(t) == " + S.get("wait_step", "FALSE"))
    L.append("WbStrong(t) == " + S.get("wb_strong", "FALSE"))
    L.append("WbWeak(t) == " + S.get("wb_weak", "FALSE"))
    return "\n".join(L)


INVS = ["SoloBound", "SoloProgress", "SoloNoWait", "NbNeverWaits", "WouldBlockJustified"]


def gen_solo(S, sc, kinds, tag=""):
    comp = S["comp"]() if callable(S["comp"]) else S["comp"]
    c = conc.consts_for(comp, sc, True, True)           # TSO on, Tracing on (acc names the actor / marks access steps; hidden by the VIEW)
    base = gen_mc(sc, "solobase%s%s" % (comp.get("variant", ""), tag), c, cfg_lines=[])
    mod = "SOLO_%s%s%s" % (sc["name"], comp.get("variant", ""), tag)
    t = open(os.path.join(SPEC, "trace", "Solo.tla.in")).read()
    view = ", ".join(v for v in spec_vars(S["spec"]) if v != "acc")
    t = (t.replace("@MODULE@", mod).replace("@BASE@", base).replace("@NEXT@", S.get("next", "Next")).replace("@VIEWVARS@", view)
         .replace("@COMPONENT@", component_text(S, sc, kinds)))
    with open(os.path.join(GEN, mod + ".tla"), "w") as f:
        f.write(t)
    cfgtxt = open(os.path.join(GEN, base + ".cfg")).read()
    with open(os.path.join(GEN, mod + ".cfg"), "w") as f:
        f.write("SPECIFICATION SoloSpec\n" + cfgtxt + "".join("INVARIANT %s\n" % i for i in INVS + ["SoloMax"]) +
                "".join("CONSTRAINT %s\n" % x for x in comp.get("constraints", [])) + "VIEW SoloView\nCHECK_DEADLOCK FALSE\n")
    return mod, c


def solo_maxima(out):
    mx = {}
    for m in re.finditer(r'<<"SOLOMAX", "(\w+)", (\d+)>>', out):
        mx[m.group(1)] = max(mx.get(m.group(1), -1), int(m.group(2)))
    return mx


# ------------------------------------------------------------------ components
def _wfcq():
    from props import c10
    return c10.WFCQ


NB_DEQ = 'op[t].op = "deq" /\\ ~op[t].blk /\\ ~op[t].lck'
NB_SPL = 'op[t].op = "splice" /\\ ~op[t].blk /\\ ~op[t].lck'
register("wfcq", {
    "spec": "Wfcq", "comp": _wfcq,
    "kinds": [K("enq", "wf", ["e_*"], 3, apis=["wfcq_enqueue"]),
              K("deq_nb", "nb", ["d_*"], 9, when=NB_DEQ, apis=["wfcq_dequeue_nonblocking"]),
              K("splice_nb", "nb", ["s_*"], 7, when=NB_SPL, apis=["wfcq_splice"]),
              K("empty", "wf", ["m_*"], 2, apis=["wfcq_empty"])],
    # busy-wait iterations of ___cds_wfcq_busy_wait loops: sync_next re-loads, the blocking splice retry
    "wait_step": '\\/ pc[t] \\in {"d_sync", "d_sn2", "f_sync", "n_sync"} /\\ pc\'[t] = pc[t]\n'
                 '               \\/ pc[t] = "s_lt" /\\ pc\'[t] = "s_xh"',
    "half_labels": ["e_link", "s_al"],           # tail exchanged, link store not yet issued
    "wb_strong": '\\/ pc[t] = "d_sync" /\\ pc\'[t] = "d_unlock" /\\ res\'[t] = WB\n'
                 '               \\/ pc[t] = "d_sn2" /\\ pc\'[t] = "d_undo"\n'
                 '               \\/ pc[t] = "s_lt" /\\ res\'[t] = WB',
})
