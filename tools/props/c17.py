"""C17: progress guarantees -- wait-free and lock-free operations never wait on other threads; *_nonblocking variants never wait.

Design level (TLC): spec/trace/Solo.tla.in, a generic wrapper over the generated MC module of any PlusCal component: Freeze(t) may fire
once, in any reachable state in which t is inside an operation (segment) documented wait-free / lock-free / non-blocking; afterwards only
thr(t) (and store-buffer flushers) step.  Invariants: SoloBound (own access steps <= B(kind)), SoloProgress (the solo thread is never
blocked), SoloNoWait (no busy-wait / poll / futex-wait iteration), NbNeverWaits (non-blocking variants never wait, frozen or not),
WouldBlockJustified (WOULDBLOCK only while another thread is between the two halves of an enqueue / push, or -- failed cmpxchg of the
wfstack pop -- after interference); SoloMax reports the maxima TLC reached per kind (the established bounds, next to the claimed ones).
Negative controls: blocking operations (blocking dequeue / pop / traversal, operations taking the dequeue / pop mutex, synchronize_rcu)
claimed lock-free on purpose must violate SoloNoWait / SoloBound / SoloProgress.

Code level (the real sources under the VSCHED runtime), per component and scenario:
 * VRT_SOLO=<t>:<k> for every thread t and every scheduling decision k of seeded schedules (PCT / uniform, software-TSO and SC): the
   runtime suspends every other thread at decision k when t is inside an operation whose class is wait-free / lock-free and runs t alone
   to the end of the operation; WAITED / SOLO_BLOCKED / SOLO_BUDGET are violations (seed + VRT_SOLO = replay);
 * the same enumeration after TLC-derived prefixes: TLC's shortest behaviours reaching the WOULDBLOCK paths of the non-blocking variants
   and the "half done" states (node linked / tail not swung, REMOVED set / not unlinked) are forced onto the real code as schedules; the
   code must follow them, return WOULDBLOCK where the specification does, without a busy-wait hint;
 * every recorded execution (prefix + solo suffix) must be an ordinary behaviour of the component's specification (trace validation
   with the component's own trace spec: the executions are inside the state space TLC covered, so every invariant established there --
   WouldBlockJustified included -- holds on them), and the number of own access events of the solo thread must be <= the maximum TLC
   established for that scenario (<= the claimed bound B where the scenario is not model checked).  The events counted are those trace
   validation matches one-to-one with acc-changing steps of the specification, which is what soloSteps counts;
 * busy-wait hints (caa_cpu_relax / poll) inside a *_nonblocking call are violations in every execution, solo or not;
 * binding control: one field of a recorded solo execution is altered and must be rejected.

Kinds and claimed bounds B (own shared accesses, fences and blocking calls of one operation running alone):
  wfcqueue  enqueue 3 (mb, xchg, store) wait-free; dequeue_nonblocking 9, splice_nonblocking 7 never wait; empty 2
  wfstack   push 3, __cds_wfs_pop_all 2 wait-free; pop_nonblocking 4 never waits; empty 1
  lfstack   push 6, pop 6 lock-free (one retry when the head moved before the freeze); pop_all + traversal 2 + #nodes wait-free; empty 1
  rculfqueue enqueue 4 x #threads, dequeue 4 x #threads + 12 lock-free (one helping round per suspended half-done enqueue)
  urcu mb / memb  rcu_read_lock 3, rcu_read_unlock 6 (memb without sys_membarrier; 4 otherwise), rcu_dereference 1, rcu_xchg_pointer 1
  rculfhash lookup #linked nodes + 4, duplicate walk / traversal 2 x #linked nodes + 4 wait-free; add / add_unique / add_replace /
            replace / del lock-free, 2 x (#threads + 1) x (#linked nodes + 2) + #threads + 8
Blocking operations (blocking dequeue / splice / pop / traversals, anything under the dequeue / pop mutex, synchronize_rcu, resize,
register / unregister) are excluded as documented.

Adding a component = one register() entry (kind table + a few TLA+ one-liners + scenario lists).
"""
import os, re, json, shutil, hashlib, threading, itertools, time
from vlib import *
import vlib, conc

LEVEL = "model_checking"
ASSUMPTIONS = ["x86-TSO memory model; suspended threads' store buffers may drain at any time after the freeze (any order, any subset) in TLC; the runtime drains them at the freeze",
               "suspension points are the boundaries between shared accesses / blocking calls (the steps of the specification and the scheduling points of the runtime), not machine instructions",
               "a step = one shared access, fence or blocking call of the operation (one acc-changing action of the specification = one logged event of the runtime); thread-private computation is not counted",
               "bounded scenarios (<= 4 threads, <= 3 nodes, store buffers <= 2): bounds of lock-free operations are established for these sizes (they grow with the number of suspended half-done operations)",
               "RCU read-side of the data-structure drivers is abstract (absrcu.h) and outside the measured operation; read-side lock/unlock of the real flavors mb and memb are measured "
               "through UrcuGp (qsbr read-side markers are empty, bp is not covered here); call_rcu invoked by the rculfqueue dequeue is one abstract step",
               "freeze points on the real code are those reached by seeded schedules (PCT and uniform) and by TLC's shortest behaviours to the WOULDBLOCK paths and half-done states; "
               "all freeze points of the bounded scenarios are covered at design level only",
               "d_wfcq.c brackets non-blocking dequeue / splice under the dequeue mutex as lock-free: those runs are excluded (mutex = blocking as documented); "
               "d_wfs.c brackets __cds_wfs_pop_all + traversal as one blocking operation: harness/d_c17_wfs.c re-brackets the call of __cds_wfs_pop_all as its own wait-free segment"]

SOLO = {}        # component name -> description (see the entries below)


def register(name, desc):
    SOLO[name] = desc


def K(kind, cls, labels, B, when=None, apis=(), optional=False):
    """kind: name; cls: wf | lf | nb; labels: label names or prefixes 'x_*' of the segment; B: int or callable(scenario) -> int;
    when: TLA+ condition on t (evaluated only when pc[t] is one of the labels); apis: runtime operation names (vrt_op_begin) of this kind"""
    return {"kind": kind, "cls": cls, "labels": labels, "B": B, "when": when, "apis": tuple(apis), "optional": optional}      # optional: not part of the claim (no vacuity note)


# ------------------------------------------------------------------ TLA+ generation
def spec_labels(spec):
    txt = open(os.path.join(SPEC, spec + ".tla")).read()
    m = re.search(r"^thr\(self\) == (.*?)\n\n", txt, re.S | re.M)
    return re.findall(r"(\w+)\(self\)", m.group(1))


def spec_vars(spec):
    txt = open(os.path.join(SPEC, spec + ".tla")).read()
    txt = txt[txt.index("BEGIN TRANSLATION"):]
    vs = []
    for m in re.finditer(r"^VARIABLES? (.*?)\n\s*\n", txt, re.S | re.M):
        vs += [x.strip() for x in m.group(1).replace("\n", " ").split(",") if x.strip()]
    return vs


IDLE = ("t_top", "t_disp", "t_ret", "t_end")      # call / dispatch / return labels: the thread is between operations


def expand_labels(spec, pats):
    labs = spec_labels(spec)
    out = []
    for p in pats:
        got = ([l for l in labs if l not in IDLE] if p == "*" else
               [l for l in labs if l.startswith(p[:-1])] if p.endswith("*") else [l for l in labs if l == p])
        if not got:
            raise RuntimeError("no label %s in %s" % (p, spec))
        out += [g for g in got if g not in out]
    return out


def bound(k, sc):
    return k["B"](sc) if callable(k["B"]) else k["B"]


def zt(txt):
    """the component tables are written over a thread t; the template's bound variables are z-prefixed (no clash with any module's variables)"""
    return re.sub(r"(?<![\w.])t(?![\w])", "zt", txt)


def component_text(S, sc, kinds):
    spec = S["spec"]
    L = []
    n = len(kinds)
    L.append("NKinds == %d" % n)
    L.append("KindIdx(zk) == CASE " + " [] ".join('zk = "%s" -> %d' % (k["kind"], i + 1) for i, k in enumerate(kinds)))
    L.append("KindBound(zk) == CASE " + " [] ".join('zk = "%s" -> %d' % (k["kind"], bound(k, sc)) for k in kinds))
    L.append("NbKinds == {%s}" % ", ".join('"%s"' % k["kind"] for k in kinds if k["cls"] == "nb"))
    expr = 'NONE'
    for k in reversed(kinds):
        labs = ", ".join('"%s"' % l for l in expand_labels(spec, k["labels"]))
        cond = "pc[zt] \\in {%s}" % labs + (" /\\ (%s)" % zt(k["when"]) if k["when"] else "")
        expr = 'IF %s THEN "%s"\n              ELSE %s' % (cond, k["kind"], expr)
    L.append("SoloKind(zt) == " + expr)
    L.append("HalfLabels == {%s}" % ", ".join('"%s"' % l for l in S.get("half_labels", ())))
    for opname, key in (("WaitStep", "wait_step"), ("WbStrong", "wb_strong"), ("WbWeak", "wb_weak"), ("WbObs", "wb_obs")):
        L.append("%s(zt) ==\n" % opname + "\n".join("    " + ln.strip() for ln in zt(S.get(key, "FALSE")).split("\n")))
    return "\n".join(L)


INVS = ["SoloBound", "SoloProgress", "SoloNoWait", "NbNeverWaits", "WouldBlockJustified"]


def gen_solo(S, sc, kinds, tag=""):
    comp = (S.get("mc_comp") or S["comp"])()
    c = conc.consts_for(comp, sc, True, True)           # TSO on, Tracing on (acc names the actor / marks access steps; hidden by the VIEW)
    base = gen_mc(sc, "solobase%s%s" % (comp.get("variant", ""), tag), c, cfg_lines=[])
    mod = "SOLO_%s%s%s" % (sc["name"], comp.get("variant", ""), tag)
    t = open(os.path.join(SPEC, "trace", "Solo.tla.in")).read()
    view = ", ".join(v for v in spec_vars(S["spec"]) if v != "acc")
    t = (t.replace("@MODULE@", mod).replace("@BASE@", base).replace("@NEXT@", S.get("next", "Next")).replace("@VIEWVARS@", view)
         .replace("@COMPONENT@", component_text(S, sc, kinds)))
    with open(os.path.join(GEN, mod + ".tla"), "w") as f:
        f.write(t)
    cfgtxt = open(os.path.join(GEN, base + ".cfg")).read()
    with open(os.path.join(GEN, mod + ".cfg"), "w") as f:
        f.write("SPECIFICATION SoloSpec\n" + cfgtxt + "".join("INVARIANT %s\n" % i for i in INVS + ["SoloMax"]) +
                "".join("CONSTRAINT %s\n" % x for x in comp.get("constraints", [])) + "VIEW SoloView\nCHECK_DEADLOCK FALSE\n")
    return mod, c


def solo_maxima(out):
    mx = {}
    for m in re.finditer(r'<<"SOLOMAX", "(\w+)", (\d+)>>', out):
        mx[m.group(1)] = max(mx.get(m.group(1), -1), int(m.group(2)))
    return mx


# ------------------------------------------------------------------ components
# Entry fields: spec; comp() -> component dict of the owning plugin (driver, trace spec, constants; may override the driver);
# mc_comp() (constants for TLC when they differ); kinds; wait_step / wb_strong / wb_weak (TLA+ action-level text over t, primed
# variables = state after t's step); half_labels; next; tlc / bind scenario lists per tier; controls; nb_call (call event -> the
# operation is a non-blocking variant); skip_call (call event -> the driver's class label is not the documented one: not measured).
def _wfcq():
    from props import c10
    return c10.WFCQ


NB_DEQ = 'op[t].op = "deq" /\\ ~op[t].blk /\\ ~op[t].lck'
NB_SPL = 'op[t].op = "splice" /\\ ~op[t].blk /\\ ~op[t].lck'
WFCQ_WAIT = ('\\/ pc[t] \\in {"d_sync", "d_sn2", "f_sync", "n_sync"} /\\ pc\'[t] = pc[t]\n'
             '               \\/ pc[t] = "s_lt" /\\ pc\'[t] = "s_xh"')
register("wfcq", {
    "spec": "Wfcq", "comp": _wfcq,
    "kinds": [K("enq", "wf", ["e_*"], 3, apis=["wfcq_enqueue"]),
              K("deq_nb", "nb", ["d_*"], 9, when=NB_DEQ, apis=["wfcq_dequeue_nonblocking"]),
              K("splice_nb", "nb", ["s_*"], 7, when=NB_SPL, apis=["wfcq_splice"]),
              K("empty", "wf", ["m_*"], 2, apis=["wfcq_empty"])],
    # busy-wait iterations of the ___cds_wfcq_busy_wait loops: sync_next re-loads, the blocking splice retry
    "wait_step": WFCQ_WAIT,
    "half_labels": ["e_link", "s_al"],           # tail exchanged, link store not yet issued
    "wb_strong": '\\/ pc[t] = "d_sync" /\\ pc\'[t] = "d_unlock" /\\ res\'[t] = WB\n'
                 '               \\/ pc[t] = "d_sn2" /\\ pc\'[t] = "d_undo"\n'
                 '               \\/ pc[t] = "s_lt" /\\ res\'[t] = WB',
    "wb_obs": 'pc[t] = "s_xh" /\\ hd\'[t] = NULL',        # splice: the exchange that found head.next = NULL; the decision (tail # head) comes one load later
    "tlc": {"quick": ["solo_wfcq_deq", "solo_wfcq_splice"], "thorough": ["solo_wfcq_deq", "solo_wfcq_splice", "wfcq_nb", "wfcq_2e1d", "wfcq_splice"]},
    "bind": {"quick": ["solo_wfcq_deq", "solo_wfcq_splice"], "thorough": ["solo_wfcq_deq", "solo_wfcq_splice", "wfcq_nb", "wfcq_2e1d", "wfcq_splice", "wfcq_locked"]},
    # negative controls: the BLOCKING dequeue / splice / iteration claimed lock-free must wait behind a suspended half-done enqueue;
    # a dequeue that takes the queue mutex claimed lock-free must block behind a suspended lock holder
    "controls": [
        {"scenario": "solo_wfcq_ctl", "what": "blocking dequeue claimed lock-free",
         "kinds": [K("deq_blk", "lf", ["d_*"], 9, when='op[t].op = "deq" /\\ op[t].blk /\\ ~op[t].lck')], "expect": ["SoloNoWait", "SoloBound"]},
        {"scenario": "solo_wfcq_ctl_lck", "what": "dequeue under the queue mutex claimed lock-free",
         "kinds": [K("deq_lck", "lf", ["d_*"], 11, when='op[t].op = "deq" /\\ op[t].lck')], "expect": ["SoloProgress"]}],
    # the WOULDBLOCK paths of the non-blocking variants (TLC's shortest behaviours reaching them become schedule prefixes for the real code)
    "witnesses": {"solo_wfcq_deq": [("deq_first_link_missing", 'pc[t] = "d_unlock" /\\ res[t] = WB /\\ op[t].op = "deq"'),
                                    ("deq_second_link_missing", 'pc[t] = "d_undo"')],
                  "solo_wfcq_splice": [("splice_link_missing", 'pc[t] = "s_unlock" /\\ res[t] = WB')]},
    "nb_call": lambda e: e.get("api") in ("deq", "splice") and e.get("blk") == 0,
    "skip_call": lambda e: e.get("api") in ("deq", "splice") and e.get("lck") == 1,      # d_wfcq.c: class LOCKFREE although the mutex is taken
})


def _wfs():
    from props import c11
    return dict(c11.WFS, driver="d_c17_wfs.c", drvname="d_c17_wfs")


register("wfs", {
    "spec": "Wfs", "comp": _wfs,
    "kinds": [K("push", "wf", ["w_*"], 3, apis=["wfs_push"]),
              K("popall", "wf", ["a_*"], 2, when="~op[t].lck", apis=["wfs_pop_all_wf"]),           # __cds_wfs_pop_all only; the traversal is blocking
              K("pop_nb", "nb", ["o_*"], 4, when='~op[t].blk /\\ ~op[t].lck', apis=["wfs_pop_nonblocking"]),
              K("empty", "wf", ["m_*"], 1, apis=["wfs_empty"])],
    "wait_step": '\\/ pc[t] = "o_sync" /\\ pc\'[t] = "o_sync"\n               \\/ pc[t] = "i_next" /\\ next\'[t] = NULL',
    "half_labels": ["w_st"],                     # head exchanged, node->next not yet stored
    "wb_strong": 'pc[t] = "o_sync" /\\ res\'[t] = WB',
    "wb_weak": 'pc[t] = "o_cas" /\\ res\'[t] = WB',           # "head changed under us"
    "tlc": {"quick": ["solo_wfs_q"], "thorough": ["solo_wfs_q", "wfs_nb", "wfs_popall", "wfs_2p1c"]},
    "bind": {"quick": ["solo_wfs_q"], "thorough": ["solo_wfs_q", "wfs_nb", "wfs_popall", "wfs_2p1c", "wfs_q_sc"]},
    "controls": [
        {"scenario": "solo_wfs_ctl", "what": "blocking pop claimed lock-free",
         "kinds": [K("pop_blk", "lf", ["o_*"], 8, when='op[t].blk /\\ ~op[t].lck')], "expect": ["SoloNoWait", "SoloBound"]},
        {"scenario": "solo_wfs_ctl", "what": "blocking traversal of the popped list claimed wait-free",
         "kinds": [K("traverse", "wf", ["i_*"], 4)], "expect": ["SoloNoWait", "SoloBound"]}],
    "witnesses": {"solo_wfs_q": [("pop_next_missing", 'pc[t] = "o_unlock" /\\ res[t] = WB /\\ next[t] = NULL'),
                                 ("pop_head_moved", 'pc[t] = "o_unlock" /\\ res[t] = WB /\\ next[t] # NULL')]},
    "nb_call": lambda e: e.get("api") == "pop" and e.get("blk") == 0,
})


def _lfs():
    from props import c11
    return c11.LFS


def _lfs_mc():
    from props import c11
    return c11.LFS_MC


def _nodes(sc):
    return len({o["n"] for ops in sc["threads"].values() for o in ops if o.get("op") in ("push", "enq") and not str(o.get("n", "@")).startswith("@")})


register("lfs", {
    "spec": "Lfs", "comp": _lfs, "mc_comp": _lfs_mc,
    # lock-free: a failed cmpxchg means another operation moved the head; alone, the retry succeeds (<= 2 rounds)
    "kinds": [K("push", "lf", ["p_*"], 6, apis=["lfs_push"]),
              K("pop", "lf", ["q_ldh", "q_ldn", "q_cas", "q_mb"], 6, when="~op[t].lck", apis=["lfs_pop"]),
              K("popall", "wf", ["x_*", "y_*"], lambda sc: 2 + _nodes(sc), when="~op[t].lck", apis=["lfs_pop_all"]),      # pop_all + wait-free traversal
              K("empty", "wf", ["m_*"], 1, apis=["lfs_empty"])],
    "tlc": {"quick": ["solo_lfs_q", "solo_lfs_legacy"], "thorough": ["solo_lfs_q", "solo_lfs_legacy", "lfs_q_sc", "lfs_q_rcu", "lfs_q_legacy"]},
    "bind": {"quick": ["solo_lfs_q", "solo_lfs_legacy"], "thorough": ["solo_lfs_q", "solo_lfs_legacy", "lfs_q_sc", "lfs_q_rcu", "lfs_q_legacy", "lfs_q_lock", "lfs_sc", "lfs_rcu"]},
    "controls": [
        {"scenario": "solo_lfs_ctl", "what": "pop under the pop mutex claimed lock-free",
         "kinds": [K("pop_lck", "lf", ["q_lock", "q_ldh", "q_ldn", "q_cas", "q_mb"], 8, when="op[t].lck")], "expect": ["SoloProgress"]}],
})


def _lfq():
    from props import c12
    return c12.LFQ


def _lfq_prepare(ctx, exe, wd):
    from props import c12
    ht = c12.detect_variant(ctx, exe, wd)
    c12.configure(ht)
    ctx.extra["lfq_variant"] = "HelpTail = %s" % ("TRUE" if ht else "FALSE")
    if not ht:
        ctx.notes.append("rculfqueue.h under test is the unrepaired variant (dequeue does not help q->tail): Lfq checked with HelpTail = FALSE")


def _threads(sc):
    return len(sc["threads"])


register("lfq", {
    "spec": "Lfq", "comp": _lfq, "prepare": _lfq_prepare,
    # lock-free with helping: every failed cmpxchg on tail->next is followed by the helper cmpxchg that moves q->tail past one node
    # linked by a (possibly suspended) enqueuer; alone, an enqueue needs one round of 4 accesses per node the tail lags behind (at most one
    # per suspended thread) plus its own: 4 * #threads.  A dequeue adds its own loads / cmpxchg twice (dummy removed, then the node) and
    # the enqueue of a fresh dummy.  The maxima TLC reaches are reported next to these bounds (SoloMax).
    "kinds": [K("enq", "lf", ["e_*"], lambda sc: 4 * _threads(sc), when='op[t].op = "enq"', apis=["lfq_enqueue"]),
              K("deq", "lf", ["d_*", "e_*"], lambda sc: 4 * _threads(sc) + 12, when='op[t].op = "deq"', apis=["lfq_dequeue"]),
              K("destroy", "wf", ["x_*"], 2, when='op[t].op = "destroy"', apis=["lfq_destroy"], optional=True)],
    "tlc": {"quick": ["lfq_2e1d1"], "thorough": ["lfq_2e1d1", "solo_lfq_help", "lfq_2e1d", "lfq_empty", "lfq_destroy", "lfq_lag"]},
    "bind": {"quick": ["lfq_2e1d1", "solo_lfq_help"], "thorough": ["lfq_2e1d1", "solo_lfq_help", "lfq_lag", "lfq_2e1d", "lfq_empty", "lfq_destroy", "lfq_recycle"]},
    # states in which a suspended operation has linked its node but not yet swung q->tail: the solo runs that follow must help
    "witnesses": {"lfq_2e1d1": [("enqueue_linked_tail_lagging", 'pc[t] = "e_adv" /\\ op[t].op = "enq"', False),
                                ("dequeue_dummy_linked_tail_lagging", 'pc[t] = "e_adv" /\\ op[t].op = "deq"', False)]},
    "controls": [
        {"scenario": "solo_lfq_ctl", "what": "synchronize_rcu (abstract grace period) claimed lock-free",
         "kinds": [K("sync", "lf", ["s_end"], 2)], "expect": ["SoloProgress"]}],
})

GP_KINDS = [K("rlock", "wf", ["rl_*"], 3, apis=["rcu_read_lock"]),
            K("runlock", "wf", ["ru_*"], 6, apis=["rcu_read_unlock"]),
            K("deref", "wf", ["dr_*"], 1, apis=["rcu_dereference"]),
            K("xchg_pointer", "wf", ["p_*"], 1, apis=["rcu_xchg_pointer"])]
GP_WAIT = 'pc[t] \\in {"k_next", "a_ld1", "a_ld2", "a_ld3", "a_ld4", "wg_ld", "wr_unl"} /\\ (pc\'[t] = pc[t] \\/ pc[t] = "wr_unl")'


def _gp(flavor, sysmb):
    def f():
        from props.gpcommon import gp_component
        return gp_component(flavor, sysmb)
    return f


for _fl, _sys in (("mb", False), ("memb", True), ("memb", False)):
    register("gp_" + _fl + ("" if _fl == "mb" else "_sys" if _sys else "_nosys"), {
        "spec": "UrcuGp", "comp": _gp(_fl, _sys),
        "kinds": GP_KINDS, "wait_step": GP_WAIT,
        # gp_2u_small (two synchronize_rcu callers, 0.7-1.3M base states) is model checked for mb only, solo_gp_2r (two readers) for mb and memb
        # without sys_membarrier (with the IPI steps of sys_membarrier it does not finish in an hour); their executions are bound for all flavors
        "tlc": {"quick": ["solo_gp_q"], "thorough": ["solo_gp_q", "gp_1r1u", "gp_nest"] + (["solo_gp_2r"] if not _sys else []) + (["gp_2u_small"] if _fl == "mb" else [])},
        "bind": {"quick": ["solo_gp_q"], "thorough": ["solo_gp_q", "gp_1r1u", "gp_nest", "gp_2u_small", "solo_gp_2r"]},
        "controls": [
            {"scenario": "solo_gp_q", "what": "synchronize_rcu claimed lock-free",
             "kinds": [K("sync", "lf", ["s_*", "w_*", "wg_*", "wr_*", "k_*", "a_*", "m_*", "master"], 200)], "expect": ["SoloProgress", "SoloNoWait", "SoloBound"]}] if _fl == "mb" else [],
    })


# ------------------------------------------------------------------ design level: TLC over the Solo wrapper
def tlc_workers():
    """per TLC run; four lanes run side by side"""
    return int(os.environ.get("VERIF_TLC_WORKERS", "0")) or 4


def solo_model_check(ctx, name, scn, timeout, workers=None):
    """Exhaustive run of the Solo wrapper for one scenario; returns the per-kind maxima of soloSteps TLC reached (None on violation)."""
    S = SOLO[name]; sc = load_scenario(scn)
    mod, c = gen_solo(S, sc, S["kinds"])
    r = run_tlc(mod, coverage=False, timeout=timeout, workers=workers or tlc_workers(), heap="8g")
    ctx.add_tlc(r, mod, {k: v for k, v in c.items() if len(v) < 200})
    mx = solo_maxima(r.out)
    claimed = {k["kind"]: bound(k, sc) for k in S["kinds"]}
    log("  [TLC] %s/%s: %d distinct states, %.0fs, %s; solo maxima %s (claimed %s)" % (
        name, scn, r.distinct, r.wall, "ok" if r.ok else (r.violation or r.error), mx, claimed))
    ev = ctx.extra.setdefault("solo", {}).setdefault(name, {}).setdefault(scn, {})
    ev.update({"tlc_distinct_states": r.distinct, "tlc_complete": bool(r.ok), "claimed_B": claimed, "tlc_max_solo_steps": mx,
               "kinds_never_frozen": sorted(set(claimed) - set(mx))})
    if r.violation:
        d = ctx.viol_dir(); shutil.copy(r.log, os.path.join(d, "tlc.log"))
        json.dump({"solo_tlc": {"component": name, "scenario": scn}}, open(os.path.join(d, "meta.json"), "w"))
        ctx.violation("TLC: %s violated in %s: an operation documented wait-free / lock-free / non-blocking does not finish alone within its bound, "
                      "blocks, waits, or returns WOULDBLOCK unjustified (design-level counterexample in tlc.log)" % (r.violation, mod), d)
        return None
    if not r.ok:
        if r.error == "timeout":
            ctx.notes.append("%s: TLC timed out after %ds with %d distinct states (not exhaustive)" % (mod, timeout, r.distinct))
        else:
            raise RuntimeError("TLC failed on %s: %s\n%s" % (mod, r.error, r.out[-1500:]))
    if r.ok and not mx:
        raise RuntimeError("%s: Freeze never fired (vacuous)" % mod)
    return mx


def negative_control(ctx, name, idx, timeout=900):
    """A blocking operation claimed lock-free / wait-free on purpose: TLC must report one of the expected invariants.  Never a verdict on
    the library; a control that passes is a failure of the machinery."""
    S = SOLO[name]; ctl = S["controls"][idx]; sc = load_scenario(ctl["scenario"])
    mod, c = gen_solo(S, sc, ctl["kinds"], tag="_ctl%d" % idx)
    r = run_tlc(mod, timeout=timeout, workers=tlc_workers(), heap="8g")
    got = (r.violation or "").replace("invariant ", "")
    ctx.extra.setdefault("negative_controls", []).append({"component": name, "scenario": ctl["scenario"], "what": ctl["what"], "tlc": r.violation or r.error or "no violation",
                                                         "distinct_states": r.distinct, "depth": r.depth, "expected_one_of": ctl["expect"]})
    log("  [neg] %s/%s (%s): TLC reports %s after %d distinct states" % (name, ctl["scenario"], ctl["what"], r.violation or r.error or "NO VIOLATION", r.distinct))
    if got not in ctl["expect"]:
        raise RuntimeError("negative control %s/%s (%s): expected a violation of %s, TLC says %s\n%s" % (
            name, ctl["scenario"], ctl["what"], ctl["expect"], r.violation or r.error or "no violation", r.out[-800:]))


# ------------------------------------------------------------------ code level: VRT_SOLO at every decision of seeded schedules
NOT_STEPS = {"flush", "call", "ret", "exit", "end", "spawn", "blocked", "replay_diverged", "solo_begin", "solo_end", "solo_skip", "fail",
             "free", "rlock", "runlock", "gp_begin", "gp_end", "joined", "rcu_cb", "call_rcu", "sig_enter", "sig_exit", "proj", "reset"}
BENIGN = {"relax", "poll", "rmb", "wmb", "sigmask"}      # accepted as stuttering by the trace specifications (no step of the model)


def solo_segment(events):
    """(thread, api, class, counted own access events, steps reported by the runtime, last call event of the thread) of the solo segment"""
    t = api = None; n = 0; inside = False; rt = None; cls = None; lastcall = {}; call = None
    for e in events:
        op = e.get("op")
        if op == "call":
            lastcall[e.get("t")] = e
        if op == "solo_begin":
            t = e["t"]; api = e.get("api"); cls = e.get("cls"); inside = True; call = lastcall.get(t)
        elif op == "solo_end":
            inside = False; rt = e.get("steps")
        elif inside and e.get("t") == t and op not in NOT_STEPS and op not in BENIGN:
            n += 1
    return t, api, cls, n, rt, call


def nb_waits(S, events):
    """threads that executed a busy-wait hint / poll inside a *_nonblocking call (any mode)"""
    f = S.get("nb_call")
    if not f:
        return []
    cur = {}; bad = []
    for e in events:
        op = e.get("op"); t = e.get("t")
        if op == "call":
            cur[t] = e
        elif op == "ret":
            cur.pop(t, None)
        elif op in ("relax", "poll") and t in cur and f(cur[t]):
            bad.append((t, cur[t].get("api"), e.get("loc")))
    return bad


_RID = itertools.count(1)          # run ids unique across lanes (conc.validate wants ascending integers)


def _digest(events):
    return hashlib.md5(json.dumps([e for e in events if e.get("op") not in ("solo_skip", "end")], sort_keys=True).encode()).hexdigest()


def record_code_violation(ctx, comp, sc, seed, tso, env, events, what):
    d = ctx.viol_dir()
    write_ndjson(os.path.join(d, "trace.ndjson"), events)
    json.dump({"scenario": sc["name"], "tso": tso, "seed": seed, "env": env, "driver": comp["driver"], "trace_module": "TV_%s%s_%d" % (sc["name"], comp.get("variant", ""), tso)},
              open(os.path.join(d, "meta.json"), "w"), indent=1)
    ctx.violation(what, d)


def tag_new(ctx, before, name, comp, scn):
    """record the C17 component in the meta.json of violation directories created since `before` by this component (replay needs it:
    several components share a driver source)"""
    for v in range(before + 1, ctx.nviol + 1):
        mp = os.path.join(ctx.outdir, "viol-%d" % v, "meta.json")
        if not os.path.exists(mp):
            continue
        m = json.load(open(mp))
        if "component" in m or m.get("scenario") != scn:
            continue
        if ("work_%s/" % name) in m.get("trace", "") or m.get("trace_module", "").startswith("TV_%s%s_" % (scn, comp.get("variant", ""))):
            m["component"] = name
            json.dump(m, open(mp, "w"), indent=1)


def run_one(comp, exe, sc, tso, seed, pf, wd, env_extra, tag):
    """One execution of the driver, same environment as conc.run_batch builds for this seed (so that conc.replay reproduces it)."""
    tp = os.path.join(wd, "s_%s_%d_%d_%s.ndjson" % (sc["name"], tso, seed, tag))
    env = {"VRT_MODE": "uniform" if seed % 3 == 2 else "pct", "VRT_DEPTH": 1 + seed % 4, "VRT_LEN": comp.get("pct_len", 120)}
    env.update(comp.get("env", {})); env.update(env_extra or {})
    if env_extra:
        env["VRT_SOLO_BUDGET"] = 400            # own steps allowed to a solo operation (the largest bound claimed is about 20)
    rc, so, se = run_driver(exe, [seed, tso, tp, pf], env=env, timeout=comp.get("run_timeout", 30))
    ev = read_trace(tp) if os.path.exists(tp) else []
    if rc == 0 and os.path.exists(tp):
        os.unlink(tp)
    fail = None if rc == 0 else {"seed": seed, "tso": tso, "rc": rc, "stderr": se[-500:], "trace": tp, "env": env, "scenario": sc["name"]}
    return ev, fail


def bind_scenario(ctx, name, scn, exe, wd, nseeds, modes, tlc_max, jobs=8):
    import concurrent.futures as cf
    S = SOLO[name]; comp = S["comp"](); sc = load_scenario(scn)
    kind_of = {a: k for k in S["kinds"] for a in k["apis"]}
    ev = ctx.extra.setdefault("solo", {}).setdefault(name, {}).setdefault(scn, {})
    code_max = ev.setdefault("code_max_solo_steps", {}); nsolo = 0; nskip = 0; nmutex = 0; first_solo = None
    threads = sorted(sc["threads"])
    pf = conc.program_file(comp, sc, os.path.join(wd, "prog_%s.txt" % sc["name"]))
    skip_call = S.get("skip_call") or (lambda e: False)
    nv0 = ctx.nviol
    with cf.ThreadPoolExecutor(max_workers=jobs) as ex:
        for tso in modes:
            runs = []; idmap = {}; seen = set()
            for j in (range(nseeds) if isinstance(nseeds, int) else nseeds[tso]):
                if len(ctx.violations) >= conc.MAXV:
                    break
                seed = ctx.seed * 100003 + j
                base, fail = run_one(comp, exe, sc, tso, seed, pf, wd, None, "base")
                if fail:
                    conc.report_failures(ctx, comp, [fail])
                    continue
                D = next((e.get("decisions", 0) for e in reversed(base) if e.get("op") == "end"), 0)
                points = [(t, k) for t in threads for k in range(1, D + 1)]
                res = list(ex.map(lambda tk: run_one(comp, exe, sc, tso, seed, pf, wd, {"VRT_SOLO": "%s:%d" % tk}, "%s_%d" % tk), points))
                cands = [(None, None, base)]
                for (t, k), (events, fail) in zip(points, res):
                    if fail:
                        seg = solo_segment(events)
                        if seg[5] is not None and skip_call(seg[5]) and "SOLO_BLOCKED" in fail["stderr"]:
                            nmutex += 1                     # the driver's class label is not the documented one (mutex inside): excluded
                            os.unlink(fail["trace"])
                        elif len(ctx.violations) < conc.MAXV:
                            conc.report_failures(ctx, comp, [fail])          # WAITED / SOLO_BLOCKED / SOLO_BUDGET / any oracle: seed + VRT_SOLO = replay
                        elif os.path.exists(fail["trace"]):
                            os.unlink(fail["trace"])
                    else:
                        cands.append((t, k, events))
                for t, k, events in cands:
                    w = nb_waits(S, events)
                    env = {"VRT_SOLO": "%s:%d" % (t, k)} if t else {}
                    if w and len(ctx.violations) < conc.MAXV:
                        record_code_violation(ctx, comp, sc, seed, tso, env, events,
                                              "NbNeverWaits on the real code: thread %s executed a busy-wait hint / poll at %s inside the non-blocking call %s "
                                              "(scenario %s seed %d tso=%d %s)" % (w[0][0], w[0][2], w[0][1], scn, seed, tso, env))
                    if t is None:
                        pass
                    elif any(e.get("op") == "solo_skip" for e in events):
                        nskip += 1
                        continue
                    else:
                        st, api, cls, n, rt, call = solo_segment(events)
                        if call is not None and skip_call(call):
                            nmutex += 1
                            continue
                        k_ = kind_of.get(api)
                        if k_ is None:
                            raise RuntimeError("%s: the runtime froze %s inside %s (class %s), which the kind table of C17 does not list" % (name, st, api, cls))
                        nsolo += 1
                        code_max[k_["kind"]] = max(code_max.get(k_["kind"], 0), n)
                        B = bound(k_, sc); established = (tlc_max or {}).get(k_["kind"])
                        lim = established if established is not None else B
                        if n > lim and len(ctx.violations) < conc.MAXV:
                            record_code_violation(ctx, comp, sc, seed, tso, env, events,
                                                  "SoloBound on the real code: %s (%s) took %d own steps running alone, more than the bound %d %s (scenario %s seed %d tso=%d %s)" % (
                                                      api, k_["kind"], n, lim, "TLC established for this scenario" if established is not None else "claimed", scn, seed, tso, env))
                    h = _digest(events)
                    if h in seen:
                        continue
                    seen.add(h); rid = next(_RID)
                    idmap[rid] = (seed, env); runs.append((rid, events))
            ev["wouldblock_returns_in_validated_traces"] = ev.get("wouldblock_returns_in_validated_traces", 0) + sum(
                1 for r in runs for e in r[1] if e.get("op") == "ret" and e.get("r") == "WOULDBLOCK")
            before = ctx.nviol
            conc.validate(ctx, comp, sc, tso, runs, wd, "tvsolo_%s_%s_%d" % (name, scn, tso))
            for v in range(before + 1, ctx.nviol + 1):          # make rejected executions replayable: real seed + VRT_SOLO instead of the run index
                mp = os.path.join(ctx.outdir, "viol-%d" % v, "meta.json")
                if os.path.exists(mp):
                    m = json.load(open(mp))
                    if m.get("seed") in idmap:
                        m["seed"], m["env"] = idmap[m["seed"]]
                        json.dump(m, open(mp, "w"), indent=1)
            smp = next((r for r in runs if any(e.get("op") == "solo_begin" for e in r[1])), None)
            if smp and first_solo is None and len(ctx.violations) == 0:
                first_solo = (tso, smp[1])
            if smp:
                i0 = next(i for i, e in enumerate(smp[1]) if e.get("op") == "solo_begin")
                ctx.sample({"kind": "recorded execution of the real code with a solo segment (events around it)", "component": name, "scenario": scn, "tso": tso,
                            "VRT_SOLO": idmap[smp[0]][1].get("VRT_SOLO"), "events": smp[1][max(0, i0 - 3):i0 + 12]})
    tag_new(ctx, nv0, name, comp, scn)
    ev["solo_runs"] = ev.get("solo_runs", 0) + nsolo
    ev["freeze_points_outside_a_progress_class_op"] = ev.get("freeze_points_outside_a_progress_class_op", 0) + nskip
    if nmutex:
        ev["runs_excluded_driver_class_label_wrong"] = ev.get("runs_excluded_driver_class_label_wrong", 0) + nmutex
    log("  [bind] %s/%s: %d solo runs (%d freeze points outside such an operation), own steps per kind %s, traces validated so far %d, violations %d" % (
        name, scn, nsolo, nskip, code_max, ctx.traces, len(ctx.violations)))
    return first_solo


# ------------------------------------------------------------------ spec -> code: TLC witnesses of the WOULDBLOCK paths as schedule prefixes
def witness_schedule(tlc_out):
    """TLC error trace (Tracing = TRUE, no VIEW) -> VSCHED schedule: one entry per state whose acc.k grew (T:<thread>, F:<thread> for a flush)"""
    sched = []; k0 = 0
    for m in re.finditer(r"^State \d+: .*?\n(.*?)(?=^State \d+:|\Z)", tlc_out, re.S | re.M):
        a = re.search(r"/\\ acc = (\[.*?\])\s*(?=\n/\\ |\n\n|\Z)", m.group(1), re.S)
        if not a:
            continue
        blk = a.group(1)
        k = re.search(r"\bk \|-> (\d+)", blk); t = re.search(r"\bt \|-> \"([^\"]+)\"", blk); op = re.search(r"\bop \|-> \"([^\"]+)\"", blk)
        if k and int(k.group(1)) > k0:
            k0 = int(k.group(1))
            sched.append(("F:" if op and op.group(1) == "flush" else "T:") + t.group(1))
    return sched


def run_sched(comp, exe, sc, pf, wd, sched, env_extra, tag):
    sp = os.path.join(wd, "w_%s.sched" % tag)
    with open(sp, "w") as f:
        f.write("#auto-benign\n" + "\n".join(sched) + "\n")
    tp = os.path.join(wd, "w_%s.ndjson" % tag)
    env = dict(comp.get("env", {})); env["VRT_SCHED"] = sp; env.update(env_extra or {})
    if env_extra:
        env["VRT_SOLO_BUDGET"] = 400
    rc, so, se = run_driver(exe, [0, 1, tp, pf], env=env, timeout=comp.get("run_timeout", 30))
    ev = read_trace(tp) if os.path.exists(tp) else []
    if rc == 0 and os.path.exists(tp):
        os.unlink(tp)
    os.unlink(sp)
    envm = {k: v for k, v in env.items() if k != "VRT_SCHED"}
    fail = None if rc == 0 else {"seed": 0, "tso": 1, "rc": rc, "stderr": se[-500:], "trace": tp, "env": envm, "scenario": sc["name"], "schedule": sched}
    return ev, fail


def witnesses(ctx, name, scn, exe, wd):
    """For every witness predicate of the component (a non-blocking call deciding WOULDBLOCK on one of its paths): TLC's shortest behaviour
    reaching it is forced onto the real code as a schedule (software-TSO, flushes included).  The code must follow it, return WOULDBLOCK
    there without a busy-wait hint, and the same prefix is then used with VRT_SOLO=<t>:<k> for every thread and every k."""
    import concurrent.futures as cf
    S = SOLO[name]; comp = S["comp"](); sc = load_scenario(scn)
    mcc = (S.get("mc_comp") or S["comp"])()
    c = conc.consts_for(mcc, sc, True, True)
    base = gen_mc(sc, "witbase%s" % mcc.get("variant", ""), c, cfg_lines=[])
    pf = conc.program_file(comp, sc, os.path.join(wd, "prog_%s.txt" % sc["name"]))
    kind_of = {a: k for k in S["kinds"] for a in k["apis"]}
    evd = ctx.extra.setdefault("solo", {}).setdefault(name, {}).setdefault(scn, {}).setdefault("wouldblock_witnesses", {})
    runs = []; idmap = {}
    for wname, pred, want_wb in [(w + (True,))[:3] for w in S.get("witnesses", {}).get(scn, [])]:
        if len(ctx.violations) >= conc.MAXV:
            break
        mod = "WIT_%s%s_%s" % (sc["name"], mcc.get("variant", ""), wname)
        with open(os.path.join(GEN, mod + ".tla"), "w") as f:
            f.write("---- MODULE %s ----\nEXTENDS %s\nWit == ~(\\E zt \\in Threads : %s)\n====\n" % (mod, base, zt(pred)))
        with open(os.path.join(GEN, mod + ".cfg"), "w") as f:
            f.write("SPECIFICATION Spec\n" + open(os.path.join(GEN, base + ".cfg")).read() + "INVARIANT Wit\n" +
                    "".join("CONSTRAINT %s\n" % x for x in mcc.get("constraints", [])) + "CHECK_DEADLOCK FALSE\n")
        r = run_tlc(mod, timeout=600, workers=tlc_workers(), heap="4g")
        ctx.states += r.distinct; ctx.transitions += r.states
        if r.violation != "invariant Wit":
            raise RuntimeError("witness %s/%s/%s: TLC did not reach the WOULDBLOCK path (%s): scenario too small or predicate wrong" % (name, scn, wname, r.violation or r.error or "no violation"))
        sched = witness_schedule(r.out)
        ev, fail = run_sched(comp, exe, sc, pf, wd, sched, None, wname)
        if fail:
            conc.report_failures(ctx, comp, [fail])
            continue
        nwb = sum(1 for e in ev if e.get("op") == "ret" and e.get("r") == "WOULDBLOCK")
        div = any(e.get("op") == "replay_diverged" for e in ev)
        w = nb_waits(S, ev)
        evd[wname] = {"schedule": sched, "followed": not div, "wouldblock_returns": nwb, "tlc_depth": r.depth}
        if div or (want_wb and not nwb) or w:
            d = ctx.viol_dir(); write_ndjson(os.path.join(d, "trace.ndjson"), ev)
            json.dump({"scenario": scn, "tso": 1, "seed": 0, "schedule": sched, "driver": comp["driver"], "component": name, "env": {}}, open(os.path.join(d, "meta.json"), "w"), indent=1)
            ctx.violation("the real code does not follow TLC's behaviour to the WOULDBLOCK return of witness %s (scenario %s): %s" % (
                wname, scn, "busy-wait hint at %s inside the non-blocking call" % w[0][2] if w else "schedule not followed" if div else "no WOULDBLOCK returned"), d)
            continue
        rid = next(_RID); idmap[rid] = ({}, sched); runs.append((rid, ev)); ctx.replays += 1
        D = next((e.get("decisions", 0) for e in reversed(ev) if e.get("op") == "end"), 0)
        points = [(t, k) for t in sorted(sc["threads"]) for k in range(1, D + 1)]
        with cf.ThreadPoolExecutor(max_workers=8) as ex:
            res = list(ex.map(lambda tk: run_sched(comp, exe, sc, pf, wd, sched, {"VRT_SOLO": "%s:%d" % tk}, "%s_%s_%d" % ((wname,) + tk)), points))
        seen = set()
        for (t, k), (events, fail) in zip(points, res):
            if fail:
                if len(ctx.violations) < conc.MAXV:
                    conc.report_failures(ctx, comp, [fail])
                elif os.path.exists(fail["trace"]):
                    os.unlink(fail["trace"])
                continue
            if any(e.get("op") == "solo_skip" for e in events):
                continue
            st, api, cls, n, rt, call = solo_segment(events)
            k_ = kind_of.get(api)
            if k_ and n > bound(k_, sc) and len(ctx.violations) < conc.MAXV:
                d = ctx.viol_dir(); write_ndjson(os.path.join(d, "trace.ndjson"), events)
                json.dump({"scenario": scn, "tso": 1, "seed": 0, "schedule": sched, "driver": comp["driver"], "component": name, "env": {"VRT_SOLO": "%s:%d" % (t, k)}},
                          open(os.path.join(d, "meta.json"), "w"), indent=1)
                ctx.violation("SoloBound on the real code: %s took %d own steps running alone after TLC's prefix %s (bound %d)" % (api, n, wname, bound(k_, sc)), d)
            h = _digest(events)
            if h not in seen:
                seen.add(h); rid = next(_RID); idmap[rid] = ({"VRT_SOLO": "%s:%d" % (t, k)}, sched); runs.append((rid, events))
    before = ctx.nviol
    conc.validate(ctx, comp, sc, 1, runs, wd, "tvwit_%s_%s" % (name, scn))
    for v in range(before + 1, ctx.nviol + 1):
        mp = os.path.join(ctx.outdir, "viol-%d" % v, "meta.json")
        if os.path.exists(mp):
            m = json.load(open(mp))
            if m.get("seed") in idmap:
                env, sched = idmap[m["seed"]]
                m.update(seed=0, env=env, schedule=sched, component=name)
                json.dump(m, open(mp, "w"), indent=1)
    log("  [wit] %s/%s: %d TLC witnesses (WOULDBLOCK paths, half-done operations) replayed into the real code (%s), %d executions (with solo suffixes) validated" % (
        name, scn, len(evd), ", ".join("%s: %d steps" % (k, len(v["schedule"])) for k, v in evd.items()), len(runs)))


class _Scratch:
    """throw-away context for the corruption control (a rejection there is the expected outcome, not a violation)"""
    def __init__(self, ctx):
        self.violations = []; self.notes = []; self.states = self.transitions = self.traces = self.events = 0; self.nviol = 0
        self.outdir = os.path.join(ctx.outdir, "scratch_%d" % next(_RID)); self.pid = ctx.pid

    def viol_dir(self):
        self.nviol += 1
        d = os.path.join(self.outdir, "v%d" % self.nviol); os.makedirs(d, exist_ok=True)
        return d

    def violation(self, what, replay, key=None):
        self.violations.append(what)


def corruption_control(ctx, name, scn, tso, events, wd):
    """Binding control: one field of a recorded solo execution is altered (the value an RMW / load of the solo segment returned); the trace
    specification must reject the altered trace (and accept the original, which it just did)."""
    S = SOLO[name]; comp = S["comp"](); sc = load_scenario(scn)
    i0 = next(i for i, e in enumerate(events) if e.get("op") == "solo_begin")
    j = next((i for i in range(i0, len(events)) if events[i].get("op") in ("xchg", "cas", "ld") and events[i].get("t") == events[i0]["t"]), None)
    if j is None:
        return
    bad = [dict(e) for e in events]
    bad[j]["r"] = "n9" if isinstance(bad[j].get("r"), str) else 77
    sx = _Scratch(ctx)
    conc.validate(sx, comp, sc, tso, [(1, bad)], wd, "tvcorrupt_%s" % name)
    shutil.rmtree(sx.outdir, ignore_errors=True)
    ctx.extra.setdefault("corruption_controls", []).append({"component": name, "scenario": scn, "event_index": j, "field": "r", "original": events[j].get("r"),
                                                           "altered_to": bad[j]["r"], "rejected": bool(sx.violations)})
    log("  [corrupt] %s/%s: result field of event %d (%s %s) altered %r -> %r: %s" % (name, scn, j, events[j].get("op"), events[j].get("var"), events[j].get("r"), bad[j]["r"],
                                                                                  "rejected" if sx.violations else "ACCEPTED"))
    if not sx.violations:
        raise RuntimeError("corruption control %s/%s: an altered trace was accepted by the trace specification" % (name, scn))


def build(ctx, S):
    if S.get("build"):
        return S["build"](ctx, S)
    comp = S["comp"]()
    drv = comp.get("drvname", comp["driver"][:-2])
    return build_driver(drv, comp["driver"], defines=comp.get("defines", ()), lb=comp.get("lb", True), tag=ctx.pid + "_" + drv)


_MAXIMA = {}        # component -> scenario -> maxima TLC established in this run


def run_component(ctx, name, q, phases=("model", "bind")):
    S = SOLO[name]
    tier = "quick" if q else "thorough"
    only = os.environ.get("VERIF_SCEN")
    maxima = _MAXIMA.setdefault(name, {}); t0 = time.time(); corrupted = False
    tm = ctx.extra.setdefault("wall_s_per_component", {}).setdefault(name, {})
    if "model" in phases:
        if S.get("prepare"):
            wd = os.path.join(ctx.outdir, "prep_" + name); os.makedirs(wd, exist_ok=True)
            S["prepare"](ctx, build(ctx, S), wd)
            shutil.rmtree(wd, ignore_errors=True)
        for scn in ([] if os.environ.get("VERIF_C17_NOTLC") else S["tlc"][tier]):          # VERIF_C17_NOTLC=1: code binding only (development)
            if only and scn not in only.split(","):
                continue
            if len(ctx.violations) >= conc.MAXV:
                break
            maxima[scn] = solo_model_check(ctx, name, scn, 900 if q else 3600)
        t1 = time.time()
        if not only:
            for i in range(len(S.get("controls", []))):
                negative_control(ctx, name, i)
        tm["tlc"] = round(t1 - t0); tm["controls"] = round(time.time() - t1)
    if "bind" in phases:
        t2 = time.time()
        wd = os.path.join(ctx.outdir, "work_" + name); shutil.rmtree(wd, ignore_errors=True); os.makedirs(wd)
        exe = build(ctx, S)
        nseeds, modes = ({1: (0, 1), 0: (2,)}, (1, 0)) if q else (20, (1, 0))        # quick: seeds 0,1 under software-TSO, seed 2 under SC
        for scn in S["bind"][tier]:
            if only and scn not in only.split(","):
                continue
            if len(ctx.violations) >= conc.MAXV:
                break
            if scn in S.get("witnesses", {}):
                witnesses(ctx, name, scn, exe, wd)
            if len(ctx.violations) >= conc.MAXV:
                break
            smp = bind_scenario(ctx, name, scn, exe, wd, nseeds, modes, maxima.get(scn))
            if smp and not corrupted and len(ctx.violations) == 0:
                corrupted = True
                corruption_control(ctx, name, scn, smp[0], smp[1], wd)
        shutil.rmtree(wd, ignore_errors=True)
        tm["code_binding"] = round(time.time() - t2)
    log("  [time] %s: %s" % (name, ", ".join("%s %ss" % kv for kv in tm.items())))


# ------------------------------------------------------------------ hash table (spec/Lfht.tla, harness/d_lfht.c: tools/lfht_common.py)
def _lfht():
    import lfht_common as L
    return dict(L.LFHT)


def _lfht_build(ctx, S):
    import lfht_common as L
    return L._build_driver("d_lfht", "d_lfht.c", tag=ctx.pid + "_d_lfht")


def _lfht_n(sc):
    return len(sc.get("nodes", {})) + sc.get("max_size", 4)          # nodes that can be linked: user nodes + bucket nodes


def _lfht_lf(sc):
    """restarts from the bucket: at most once per failed cmpxchg / unlink, i.e. per logically removed node left behind by a suspended thread or by
    the operation itself; add_replace and replace walk twice (insert position / old node, then garbage collection)"""
    return 2 * (_threads(sc) + 1) * (_lfht_n(sc) + 2) + _threads(sc) + 8


def _lfht_serial(ctx, fn):
    """lfht_common binds its own normalize / build_driver into conc (process-wide): this component runs alone, after the lanes"""
    import lfht_common as L
    saved = (conc.normalize, conc.build_driver)
    L.install()
    try:
        fn()
    finally:
        conc.normalize, conc.build_driver = saved


register("lfht", {
    "spec": "Lfht", "comp": _lfht, "build": _lfht_build, "serial": _lfht_serial,
    # wait-free: lookup, lookup + next_duplicate walk, first + next traversal: one load per node of the list (plus size / bucket loads and
    # the assertion load of every node returned).  lock-free: add / add_unique / add_replace / replace / del: every failed cmpxchg and every
    # garbage-collection unlink restarts from the bucket, alone at most once per logically removed node left behind by suspended operations.
    "kinds": [K("lookup", "wf", ["*"], lambda sc: _lfht_n(sc) + 4, when='op[t].op = "lookup"', apis=["lookup"]),
              K("dups", "wf", ["*"], lambda sc: 2 * _lfht_n(sc) + 4, when='op[t].op = "dups"', apis=["dups"]),
              K("iter", "wf", ["*"], lambda sc: 2 * _lfht_n(sc) + 4, when='op[t].op = "iter"', apis=["iter"]),
              K("add", "lf", ["*"], _lfht_lf, when='op[t].op = "add"', apis=["add"]),
              K("addu", "lf", ["*"], _lfht_lf, when='op[t].op = "addu"', apis=["addu"]),
              K("addr", "lf", ["*"], _lfht_lf, when='op[t].op = "addr"', apis=["addr"]),
              K("del", "lf", ["*"], _lfht_lf, when='op[t].op = "del"', apis=["del"]),
              K("repl", "lf", ["*"], _lfht_lf, when='op[t].op = "repl"', apis=["replace"])],
    "tlc": {"quick": ["solo_lfht_del", "solo_lfht_repl", "solo_lfht_addr"],
            "thorough": ["solo_lfht_del", "solo_lfht_repl", "solo_lfht_addr", "lfht_grow", "lfht_uniq", "lfht_adl", "lfht_trav", "lfht_repl_lookup", "lfht_2del"]},
    "bind": {"quick": ["solo_lfht_del", "solo_lfht_repl", "solo_lfht_addr", "lfht_repl_add"],       # lfht_repl_add: a replace whose cmpxchg fails on a changed successor must retry and finish alone
             "thorough": ["solo_lfht_del", "solo_lfht_repl", "solo_lfht_addr", "lfht_uniq", "lfht_adl", "lfht_trav", "lfht_repl_lookup", "lfht_2del", "lfht_grow", "lfht_shrink"]},
    # a remover suspended after the logical delete (REMOVED set) and before the unlink; a replace suspended before the unlink of the old node
    "witnesses": {"solo_lfht_del": [("del_flagged_not_unlinked", 'pc[t] = "c_ldb" /\\ gcret[t] = "del"', False)],
                  "solo_lfht_repl": [("replace_done_old_not_unlinked", 'pc[t] = "c_ldb" /\\ gcret[t] = "repl"', False)]},
    "controls": [],
})


class Lane:
    """View of the check context for one of the parallel lanes (own counters, merged at the end; violations, notes, samples and evidence
    extras go straight to the main context under a lock)."""
    _lock = threading.Lock()

    def __init__(self, ctx, name):
        self.main = ctx; self.name = name; self.pid = ctx.pid; self.tier = ctx.tier; self.seed = ctx.seed
        self.states = self.transitions = self.traces = self.events = self.replays = 0
        self.violations = ctx.violations; self.notes = ctx.notes; self.extra = ctx.extra; self.configs = ctx.configs; self.findings = ctx.findings
        self.outdir = ctx.outdir

    nviol = property(lambda self: self.main.nviol)

    def quick(self):
        return self.main.quick()

    def sample(self, smp):
        with Lane._lock:
            self.main.sample(smp)

    def viol_dir(self):
        with Lane._lock:
            return self.main.viol_dir()

    def violation(self, what, replay, key=None):
        with Lane._lock:
            self.main.violation(what, replay, key)

    def add_tlc(self, r, name, consts=None):
        self.states += r.distinct; self.transitions += r.states
        with Lane._lock:
            self.configs.append({"config": name, "distinct_states": r.distinct, "states_generated": r.states, "depth": r.depth,
                                 "wall_s": round(r.wall, 1), "complete": bool(r.ok), "constants": consts or {}})

    def merge(self):
        for k in ("states", "transitions", "traces", "events", "replays"):
            setattr(self.main, k, getattr(self.main, k) + getattr(self, k))


LANES = [["wfcq"], ["wfs", "lfs"], ["lfq"], ["gp_mb", "gp_memb_nosys"], ["gp_memb_sys"]]


def run(ctx):
    import concurrent.futures as cf
    q = ctx.quick()
    onlyc = os.environ.get("VERIF_COMP")
    serial = [n for n in SOLO if SOLO[n].get("serial")]
    lanes = [[n for n in l if n in SOLO] for l in LANES] + [[n] for n in SOLO if not any(n in l for l in LANES) and n not in serial]      # components registered later get a lane each

    def work(lane, names):
        for name in names:
            if onlyc and name not in onlyc.split(","):
                continue
            if len(ctx.violations) >= conc.MAXV:
                break
            run_component(lane, name, q, ("model",) if name in serial else ("model", "bind"))

    lanes += [[n] for n in serial]          # their TLC part runs in a lane of its own, their code binding after the lanes
    objs = [(Lane(ctx, "l%d" % i), names) for i, names in enumerate(lanes) if names]
    errs = []
    with cf.ThreadPoolExecutor(max_workers=len(objs)) as ex:
        futs = [ex.submit(work, l, names) for l, names in objs]
        for f in futs:
            try:
                f.result()
            except Exception as e:           # let the other lanes finish, then report the first machinery failure
                errs.append(e)
    for l, names in objs:
        l.merge()
    if errs:
        raise errs[0]
    for name in serial:
        if (onlyc and name not in onlyc.split(",")) or len(ctx.violations) >= conc.MAXV:
            continue
        SOLO[name]["serial"](ctx, lambda: run_component(ctx, name, q, ("bind",)))
    # vacuity: every kind of every component was run solo at least once, in the model and on the code
    for name, scs in ctx.extra.get("solo", {}).items():
        kinds = {k["kind"] for k in SOLO[name]["kinds"] if not k["optional"]}
        m = set().union(*[set(v.get("tlc_max_solo_steps", {})) for v in scs.values()]) if scs else set()
        c = set().union(*[set(v.get("code_max_solo_steps", {})) for v in scs.values()]) if scs else set()
        if kinds - m:
            ctx.notes.append("%s: kinds never frozen in any model-checked scenario of this tier: %s" % (name, sorted(kinds - m)))
        if kinds - c:
            ctx.notes.append("%s: kinds never run solo on the real code in this tier: %s" % (name, sorted(kinds - c)))


def replay(ctx, path):
    meta = json.load(open(os.path.join(path, "meta.json")))
    if "solo_tlc" in meta:
        S = SOLO[meta["solo_tlc"]["component"]]
        if S.get("prepare"):
            wd = os.path.join(ctx.outdir, "replay_prep"); os.makedirs(wd, exist_ok=True)
            S["prepare"](ctx, build(ctx, S), wd)
        solo_model_check(ctx, meta["solo_tlc"]["component"], meta["solo_tlc"]["scenario"], 3000)
        log("replay of %s: %s" % (path, "violation reproduced" if ctx.violations else "no violation on the current tree"))
        return
    sc = load_scenario(meta["scenario"])
    cands = [n for n, S in SOLO.items() if S["spec"] == sc["spec"] and S["comp"]()["driver"] == meta.get("driver", S["comp"]()["driver"])]
    name = next((n for n in cands if meta.get("component") == n), cands[0])
    S = SOLO[name]
    if S.get("prepare"):
        wd = os.path.join(ctx.outdir, "replay_prep"); os.makedirs(wd, exist_ok=True)
        S["prepare"](ctx, build(ctx, S), wd)
    def go():
        if "schedule" in meta and (meta.get("env") or {}).get("VRT_SOLO"):          # TLC-derived prefix + solo suffix
            comp = S["comp"](); wd = os.path.join(ctx.outdir, "replay_work"); shutil.rmtree(wd, ignore_errors=True); os.makedirs(wd)
            pf = conc.program_file(comp, sc, os.path.join(wd, "prog_%s.txt" % sc["name"]))
            ev, fail = run_sched(comp, build(ctx, S), sc, pf, wd, meta["schedule"], {"VRT_SOLO": meta["env"]["VRT_SOLO"]}, "replay")
            if fail:
                conc.report_failures(ctx, comp, [fail])
            else:
                conc.validate(ctx, comp, sc, 1, [(0, ev)], wd, "tv_replay")
            log("replay of %s: %s" % (path, "violation reproduced" if ctx.violations else "no violation on the current tree"))
        else:
            conc.replay(ctx, S["comp"](), path)
    if S.get("serial"):
        S["serial"](ctx, go)
    else:
        go()
