"""bulletproof flavor (src/urcu-bp.c, static/urcu-bp.h): parts of C01, C02, C15, C19.

Exposes run_c01(ctx), run_c02(ctx), run_c15(ctx), run_c19(ctx) (same contract as a plugin's run(ctx)) and
replay(ctx, path).  Spec: spec/UrcuBp.tla, trace spec: spec/trace/UrcuBpTrace.tla.in, driver: harness/d_bp.c,
scenarios: scenarios/bp_*.json."""
import os, json, shutil, re
from vlib import *
import conc

W = 4           # TLC workers (builder rules, round 2); VERIF_TLC_WORKERS overrides inside run_tlc

ASSUMPTIONS_BP = [
    "bp: x86-TSO memory model; compiler barriers are honoured by the compiler (not modelled)",
    "bp: a critical section 'has begun' once rcu_read_lock() returned and 'has ended' once the outermost rcu_read_unlock() was entered",
    "bp: reader words are locations of the registry arena (chunk#k.slot#j); a thread reaches its word through its TLS pointer",
    "bp: pthread_sigmask/mmap/mremap/pthread_setspecific are environment steps folded into the preceding scheduling point of the executed code; mremap() failure is an environment input fixed per scenario (BP_MREMAP_FAIL)",
    "bp: the pthread-key destructor is run by the driver at the end of the model thread (glibc's iteration over keys is emulated: value cleared, destructor called, repeated while the value is set again, at most 4 times)",
    "bp: signal delivery points are the thread's scheduling points (shared accesses, fences, blocking calls) while the library has not blocked signals; handler nesting <= 1; signals that arrive while the exiting thread runs its key destructor are excluded from the claims (see finding C19-bp-signal-in-thread-exit)",
    "bp: bounds: <= 3 concurrently running threads (+ chains of up to 17 registered, otherwise idle threads), <= 2 grace periods, nesting <= 2, store buffers <= 2 (TLC); RCU_QS_ACTIVE_ATTEMPTS = 2 in the driver build and the spec; INIT_READER_COUNT = 8 as in the code",
]


def bp_program(sc):
    out = []
    started = sc.get("started") or list(sc["threads"])
    for t, ops in sc["threads"].items():
        out.append("thread %s %d" % (t, 1 if t in started else 0))
        for o in ops:
            if o["op"] == "pub":
                out.append("pub %s" % o["o"][3:])
            elif o["op"] in ("spawn", "join", "spawnjoin"):
                out.append("%s %s" % (o["op"], o["t"]))
            else:
                out.append(o["op"])
    if sc.get("sighandler"):
        out.append("sighandler")
    return "\n".join(out) + "\n"


MC_INV = ["SigDeadlockFree", "LockOrder", "RegistryFreeWhileWaiting", "SlotStable", "SlotUnique", "ListsDisjoint", "ArenaConsistent",
          "SlotReuse", "NoSignalInRegistration"]
TRACE_INV = ["SlotStable", "SlotUnique", "ListsDisjoint", "NoSignalInRegistration", "LockOrder"]


def bp_component(sc, sysmb=False, skip=(), mut=(), extra_inv=()):
    """one component per scenario: environment inputs (signals, mremap failures) are scenario data"""
    sig_threads = sc.get("sig_threads", [])
    env = {"VRT_MEMBARRIER": 1, "BP_SYSMB": 1 if sysmb else 0, "VRT_BUDGET": 40000}
    if sig_threads:
        env["VRT_SIGS"] = sc.get("sig_budget", 1)
        env["BP_SIG_THREADS"] = ",".join(sig_threads)
    if sc.get("sig_in_exit"):
        env["BP_SIG_IN_EXIT"] = 1
    fails = sc.get("mremap_fail", [])
    if fails:
        env["BP_MREMAP_FAIL"] = sum(1 << k for k in fails)
    name = "bp" + ("_sys" if sysmb else "") + ("".join("_" + m for m in mut)) + ("".join("_no" + s for s in skip))
    started = sc.get("started") or list(sc["threads"])
    return {
        "name": name, "spec": "UrcuBp", "driver": "d_bp.c", "trace": "UrcuBpTrace", "drvname": "d_bp" + ("_cap%d" % sc["init_cap"] if sc.get("init_cap", 8) != 8 else ""),
        # init_cap != 8 needs an add-only URCU_VERIF_INIT_READER_COUNT override block after the #define in /repo/src/urcu-bp.c
        # (requested from the coordinator; not present yet): only scenarios with the real constant are used by the parts
        "defines": ["URCU_VERIF_RCU_QS_ACTIVE_ATTEMPTS=2"] + (["URCU_VERIF_INIT_READER_COUNT=%d" % sc["init_cap"]] if sc.get("init_cap", 8) != 8 else []),
        "invariants": list(TRACE_INV), "mc_invariants": [i for i in MC_INV if i not in TRACE_INV] + list(extra_inv), "constraints": ["SBBound"],
        "consts": lambda s: {"Threads": tla(set(s["threads"])), "Prog": tla_fun(s["threads"]), "SBMax": str(s.get("sbmax", 2)),
                             "SysMb": "TRUE" if sysmb else "FALSE", "QSAttempts": "2", "InitCap": str(s.get("init_cap", 8)),
                             "MaxChunks": str(s.get("max_chunks", 1)), "MaxCap": str(s.get("max_cap", 8)),
                             "MremapFail": tla(set(s.get("mremap_fail", []))), "Started": tla(set(started)),
                             "SigThreads": tla(set(sig_threads)), "SigBudget": str(s.get("sig_budget", 0)),
                             "SigInExit": "TRUE" if s.get("sig_in_exit") else "FALSE",
                             "Skip": tla(set(skip)), "Mut": tla(set(mut))},
        "mc_spec": "SigSpec", "mc_next": "SigNext",
        "program": bp_program, "env": env, "normalize": {"extra_fields": ("k", "tt")}, "variant": name, "pct_len": 250, "heap": "8g",
        "sim_depth": 1500,
    }


# ---------------------------------------------------------------------------------------------------------------- helpers
def _exe(ctx, comp):
    """one driver build per check run (the binary does not depend on the scenario or variant)"""
    cache = ctx.__dict__.setdefault("_bp_exe", {})
    key = (comp["drvname"], tuple(comp["defines"]))
    if key not in cache:
        cache[key] = build_driver(comp["drvname"], comp["driver"], defines=comp["defines"], lb=comp.get("lb", True), tag=ctx.pid + "_" + comp["drvname"])
    return cache[key]


def _run(ctx, scn, nseeds, nsim, sysmb=False, mc=True, mc_timeout=3000, tsos=(0, 1), sim_tsos=(1,)):
    """conc.run_component for one scenario, with the (SC, TSO) instances selectable per tier"""
    sc = load_scenario(scn)
    comp = bp_component(sc, sysmb=sysmb)
    if len(ctx.violations) >= conc.MAXV:
        return comp, sc
    wd = os.path.join(ctx.outdir, "work"); shutil.rmtree(wd, ignore_errors=True); os.makedirs(wd)
    exe = _exe(ctx, comp) if tsos else None
    if mc:
        r = conc.model_check(ctx, comp, sc, timeout=mc_timeout)
        log("  [TLC] %s%s: %d distinct states, %.0fs, %s" % (sc["name"], " (sys_membarrier)" if sysmb else "", r.distinct, r.wall, "ok" if r.ok else (r.violation or r.error)))
        zero = [k for k, v in r.coverage.items() if v[0] == 0 and k not in ("Terminating",)]
        ctx.extra.setdefault("actions_never_taken", {})[sc["name"] + ("/sys" if sysmb else "")] = zero
    for tso in tsos:
        if len(ctx.violations) >= conc.MAXV:
            break
        seeds = [ctx.seed * 100003 + i for i in range(nseeds)]
        runs, fails, pf = conc.run_batch(ctx, comp, exe, sc, tso, seeds, wd)
        conc.report_failures(ctx, comp, fails)
        if runs:
            ctx.sample({"kind": "recorded execution of the real urcu-bp.c (first events)", "scenario": sc["name"], "tso": tso, "seed": runs[0][0],
                        "events": [e for e in runs[0][1][:12]]})
        conc.validate(ctx, comp, sc, tso, runs, wd, "tv_%s_%s_%d" % (sc["name"], comp["name"], tso))
        if nsim and tso in sim_tsos:
            conc.spec_to_code(ctx, comp, exe, sc, tso, nsim, wd)
    log("  [conf] %s: traces validated so far %d, events %d, replays %d, violations %d" % (sc["name"], ctx.traces, ctx.events, ctx.replays, len(ctx.violations)))
    shutil.rmtree(wd, ignore_errors=True)
    return comp, sc


# ---------------------------------------------------------------------------------------------------------------- directed schedules (spec -> code)
BP_TARGETS = {
    # a thread's automatic registration inside the SECOND wait phase of a running grace period (registry lock dropped between two polls, the
    # first reader still inside its section): the thread is appended to `registry` while the scan works on cur_snap_readers
    "reg_in_phase2": ('pc["r2"] = "g_unl" /\\ pc["u1"] \\in {"w_wait", "w_lock"} /\\ ph["u1"] = 2 /\\ i["u1"] = 2 /\\ cs["r1"] # 0', "bp_regmid"),
}


def _directed(ctx, target, nruns, sysmb=False, tso=1):
    """TLC: shortest behaviour of the scenario's UrcuBp instance that reaches BP_TARGETS[target]; the real urcu-bp.c is forced along it (VRT_SCHED),
    each run is completed by a seeded scheduler, every oracle runs and every trace is validated against the specification."""
    import re
    import gp_sched as G
    pred, scn = BP_TARGETS[target]
    sc = load_scenario(scn); comp = bp_component(sc, sysmb=sysmb)
    if len(ctx.violations) >= conc.MAXV:
        return
    c = conc.consts_for(comp, sc, tso, True)
    mod = gen_mc(sc, "reach_%s_%s_%d" % (comp["variant"], target, tso), c, extra_defs="Target == %s\nNotReached == ~Target\n" % pred,
                 cfg_lines=["SPECIFICATION " + comp.get("mc_spec", "Spec"), "INVARIANT NotReached", "CONSTRAINT SBBound", "CHECK_DEADLOCK FALSE"])
    r = run_tlc(mod, timeout=1800, workers=8)
    ctx.states += r.distinct; ctx.transitions += r.states
    if r.violation != "invariant NotReached":
        raise RuntimeError("UrcuBp: target %s is not reachable in scenario %s (%s)\n%s" % (target, scn, r.error or r.violation, r.out[-800:]))
    sched = G.schedule_from_trace(r.out)
    wd = os.path.join(ctx.outdir, "work_dir"); shutil.rmtree(wd, ignore_errors=True); os.makedirs(wd)
    exe = _exe(ctx, comp)
    pf = conc.program_file(comp, sc, os.path.join(wd, "prog_%s.txt" % sc["name"]))
    runs = []; fails = []; followed = 0
    for j in range(nruns):
        sp = os.path.join(wd, "sched.txt")
        open(sp, "w").write("#auto-benign\n" + "\n".join(sched + ["X:seeded"]) + "\n")
        seed = ctx.seed * 1009 + j
        tp = os.path.join(wd, "d_%s_%d_%d.ndjson" % (scn, tso, j))
        env = {"VRT_MODE": "uniform" if j % 2 == 0 else "pct", "VRT_DEPTH": 1 + j % 3, "VRT_LEN": comp.get("pct_len", 120)}; env.update(comp.get("env", {})); env["VRT_SCHED"] = sp
        rc, so, se = run_driver(exe, [seed, tso, tp, pf], env=env, timeout=30)
        raw = open(tp, errors="replace").read() if os.path.exists(tp) else ""
        m = re.search(r'"replay_diverged","at":\d+,"agent":"([^"]*)"', raw)
        if m and m.group(1) == "X:seeded":
            followed += 1
        if rc != 0:
            env.pop("VRT_SCHED")
            fails.append({"kind": "directed", "seed": seed, "tso": tso, "rc": rc, "stderr": se[-500:], "trace": tp, "env": env, "scenario": scn, "target": target, "schedule": sched + ["X:seeded"]})
        else:
            runs.append((j, read_trace(tp))); os.unlink(tp)
    ctx.extra.setdefault("directed_targets_reached_in_the_real_code", {})["%s/%s/%s" % (scn, comp["name"], target)] = "forced prefix (%d events) followed to its end in %d of %d runs" % (len(sched), followed, nruns)
    conc.report_failures(ctx, comp, fails)
    n0 = ctx.traces
    conc.validate(ctx, comp, sc, tso, runs, wd, "tvd_%s_%s_%d" % (scn, comp["name"], tso))
    ctx.replays += ctx.traces - n0
    log("  [directed] %s %s target %s: %d forced runs (%d followed the whole prefix), violations %d" % (scn, comp["name"], target, nruns, followed, len(ctx.violations)))
    shutil.rmtree(wd, ignore_errors=True)
    if followed == 0 and not fails and not ctx.violations:
        raise RuntimeError("directed schedule for %s could not be followed by the real code although no check failed" % target)


def _liveness(ctx, scn, sysmb=False, timeout=3000):
    """FairSpec => Termination (every synchronize_rcu returns, every thread exits); no state constraint."""
    sc = load_scenario(scn)
    comp = bp_component(sc, sysmb=sysmb)
    c = conc.consts_for(comp, sc, True, False)
    mod = gen_mc(sc, "live" + comp["variant"], c, cfg_lines=["SPECIFICATION FairSpec", "PROPERTY Termination", "INVARIANT SigDeadlockFree", "CHECK_DEADLOCK FALSE"])
    r = run_tlc(mod, timeout=timeout, heap="8g")
    ctx.add_tlc(r, mod, {k: v for k, v in c.items() if len(v) < 200})
    log("  [TLC liveness] %s%s: %d distinct states, %.0fs, %s" % (scn, " (sys_membarrier)" if sysmb else "", r.distinct, r.wall, "ok" if r.ok else (r.violation or r.error)))
    if r.violation:
        d = ctx.viol_dir(); shutil.copy(r.log, os.path.join(d, "tlc.log"))
        ctx.violation("TLC: %s violated under FairSpec in %s (a synchronize_rcu() call or a thread never finishes; lasso in tlc.log)" % (r.violation, mod), d)
    elif not r.ok:
        if r.error == "timeout":
            ctx.notes.append("%s: liveness check timed out after %ds (%d distinct states)" % (mod, timeout, r.distinct))
        else:
            raise RuntimeError("TLC failed on %s: %s\n%s" % (mod, r.error, r.out[-1500:]))
    ctx.extra.setdefault("bp_liveness_configs", []).append({"config": mod, "property": "FairSpec => <>AllDone", "holds": bool(r.ok), "distinct_states": r.distinct})


def _sigat_sweep(ctx, scn, thread, npoints, nseeds, sysmb=False):
    """every interruption point: deliver the signal at the k-th scheduling point of `thread`, for all k, under a few schedules"""
    sc = load_scenario(scn)
    comp = bp_component(sc, sysmb=sysmb)
    wd = os.path.join(ctx.outdir, "work_at"); shutil.rmtree(wd, ignore_errors=True); os.makedirs(wd)
    exe = _exe(ctx, comp)
    points = 0
    for tso in (0, 1):
        allruns = []
        for k in range(npoints):
            if len(ctx.violations) >= conc.MAXV:
                break
            runs, fails, pf = conc.run_batch(ctx, comp, exe, sc, tso, [ctx.seed * 7 + j for j in range(nseeds)], wd,
                                             env_extra={"VRT_SIGAT": "%s:%d" % (thread, k), "VRT_SIGS": 0})
            conc.report_failures(ctx, comp, fails)
            if tso == 0 and any(any(e.get("op") == "sig_enter" for e in r[1]) for r in runs):
                points += 1
            allruns += [(s * 1000 + k, ev) for s, ev in runs]
        nv = len(ctx.violations)
        conc.validate(ctx, comp, sc, tso, allruns, wd, "tvat_%s_%s_%d" % (scn, comp["name"], tso))
        for v in ctx.violations[nv:]:       # make the rejected run replayable: decode (seed, interruption point) again
            mp = os.path.join(v["replay"], "meta.json")
            if os.path.exists(mp):
                meta = json.load(open(mp))
                if "env" not in meta:
                    meta["env"] = {"VRT_SIGAT": "%s:%d" % (thread, meta["seed"] % 1000), "VRT_SIGS": 0}; meta["seed"] = meta["seed"] // 1000
                    json.dump(meta, open(mp, "w"), indent=1)
    ctx.extra.setdefault("bp_interruption_points_exercised", {})["%s/%s/%s" % (scn, comp["name"], thread)] = points
    shutil.rmtree(wd, ignore_errors=True)


FINDING_SIGEXIT = "C19-bp-signal-in-thread-exit"


def _finding_sigexit(ctx):
    """Negative control = suspected genuine defect: urcu_bp_unregister() restores the signal mask BEFORE urcu_bp_exit() takes
    init_lock; a handler doing rcu_read_lock() in that window re-registers the thread (its TLS pointer was just cleared) and
    self-deadlocks in _urcu_bp_init() on init_lock.  Reproduced in the model (deadlock) and on the real code (DEADLOCK oracle)."""
    sc = load_scenario("bp_sigexit")
    comp = bp_component(sc)
    c = conc.consts_for(comp, sc, True, False)
    mod = gen_mc(sc, "mc" + comp["variant"], c, cfg_lines=["SPECIFICATION SigSpec", "INVARIANT SigDeadlockFree", "CONSTRAINT SBBound", "CHECK_DEADLOCK FALSE"])
    r = run_tlc(mod, timeout=600, heap="4g")      # expected to END in a counterexample: not one of the claim's configs
    wd = os.path.join(ctx.outdir, "work_sigexit"); shutil.rmtree(wd, ignore_errors=True); os.makedirs(wd)
    exe = _exe(ctx, comp)
    hit = None
    for k in range(30):
        runs, fails, pf = conc.run_batch(ctx, comp, exe, sc, 1, [3], wd, env_extra={"VRT_SIGAT": "r1:%d" % k, "VRT_SIGS": 0})
        dl = [f for f in fails if "DEADLOCK" in f["stderr"]]
        other = [f for f in fails if "DEADLOCK" not in f["stderr"]]
        conc.report_failures(ctx, comp, other)
        if dl and not hit:
            hit = dl[0]
            d = os.path.join(ctx.outdir, "finding-sigexit"); shutil.rmtree(d, ignore_errors=True); os.makedirs(d)
            if os.path.exists(hit["trace"]):
                shutil.move(hit["trace"], os.path.join(d, "trace.ndjson"))
            json.dump(hit, open(os.path.join(d, "meta.json"), "w"), indent=1)
            shutil.copy(pf, os.path.join(d, "prog.txt"))
        for f in dl:
            if os.path.exists(f["trace"]):
                os.unlink(f["trace"])
    shutil.rmtree(wd, ignore_errors=True)
    rec = {"key": FINDING_SIGEXIT, "model_deadlock": r.violation == "invariant SigDeadlockFree", "real_code_deadlock": bool(hit),
           "reproducer": ("BP_SIG_IN_EXIT=1 BP_SIG_THREADS=r1 %s d_bp 3 1 <trace> <prog of scenario bp_sigexit>" % " ".join("%s=%s" % (k, v) for k, v in sorted(hit["env"].items()) if k.startswith("VRT_SIG"))) if hit else None}
    ctx.extra["bp_signal_in_thread_exit"] = rec
    log("  [finding] bp signal during thread exit: model deadlock=%s, real-code deadlock=%s" % (rec["model_deadlock"], rec["real_code_deadlock"]))
    if rec["model_deadlock"] and rec["real_code_deadlock"]:
        what = ("bp: a signal handler doing rcu_read_lock() that interrupts an exiting thread inside urcu_bp_exit() (init_lock held, signals already "
                "unblocked by urcu_bp_unregister) re-registers the thread and self-deadlocks on init_lock")
        if any(f.get("key") == FINDING_SIGEXIT for f in ctx.findings):
            ctx.violation(what, os.path.join(ctx.outdir, "finding-sigexit"), key=FINDING_SIGEXIT)
        else:
            ctx.notes.append("suspected defect reproduced, excluded from the claim (not a VIOLATION until listed in known_findings.jsonl): " + what)
    else:
        ctx.notes.append("bp signal-in-thread-exit negative control did NOT reproduce (model %s, code %s): the window may have been closed; extend the C19 claim to thread exit (SigInExit = TRUE)" % (rec["model_deadlock"], rec["real_code_deadlock"]))


# ---------------------------------------------------------------------------------------------------------------- parts
def run_c01(ctx):
    """bp: synchronize_rcu() waits for every pre-existing read-side critical section"""
    q = ctx.quick()
    ctx.assumptions += [a for a in ASSUMPTIONS_BP if a not in ctx.assumptions]
    n, sim = (30, 8) if q else (600, 120)
    T = (1,) if q else (0, 1)
    _run(ctx, "bp_1r1u", n, sim, sim_tsos=(1,) if q else (0, 1))
    _run(ctx, "bp_nest", n, 0 if q else sim, tsos=T)
    _run(ctx, "bp_1r1u", n, 0 if q else sim, sysmb=True, tsos=T)
    # registration in the middle of a grace period, then a second grace period: executions validated in the quick tier, explored by TLC in the thorough tier
    _run(ctx, "bp_regmid", 20 if q else n, 0 if q else sim, mc=not q, mc_timeout=6000)
    _directed(ctx, "reg_in_phase2", 10 if q else 200)
    if not q:
        _run(ctx, "bp_nest", n, sim, sysmb=True)
        _run(ctx, "bp_2r", n, sim)
        _run(ctx, "bp_2u", n, sim)


def run_c02(ctx):
    """bp: every synchronize_rcu() returns once readers leave (busy-wait, then poll; no futex): deadlock freedom, lock order, termination under fairness"""
    q = ctx.quick()
    ctx.assumptions += [a for a in ASSUMPTIONS_BP if a not in ctx.assumptions]
    n, sim = (30, 8) if q else (600, 120)
    _liveness(ctx, "bp_live")
    _liveness(ctx, "bp_live", sysmb=True)
    _run(ctx, "bp_2u", n, sim, sim_tsos=(1,) if q else (0, 1))
    if not q:
        _liveness(ctx, "bp_live2")
        _run(ctx, "bp_2u", n, sim, sysmb=True)
        _run(ctx, "bp_nest", n, sim)


def run_c15(ctx):
    """bp: registration on first use, removal at thread exit, slots never move while the arena grows (in place / new chunk), slots reused, no signal in registration"""
    q = ctx.quick()
    ctx.assumptions += [a for a in ASSUMPTIONS_BP if a not in ctx.assumptions]
    n, sim = (20, 4) if q else (400, 60)
    T = (1,) if q else (0, 1)
    _run(ctx, "bp_reuse", n, sim, sim_tsos=(1,) if q else (0, 1))
    # quick: the new-chunk variant is model-checked (it takes every label of expand_arena), the in-place variant is bound by
    # conformance only; the thorough tier model-checks both (and the 17-thread chains crossing 8 and 16)
    _run(ctx, "bp_grow_nc", n // 2 if q else n, sim, tsos=T)
    _run(ctx, "bp_grow", n // 2 if q else n, 0 if q else sim, tsos=T, mc=not q)
    # "signals cannot interrupt registration": the handler (with its own read-side section) delivered at every scheduling point of a thread's
    # first rcu_read_lock(), i.e. also between the TLS test and the signal mask (the model side of this scenario is checked in C19)
    _sigat_sweep(ctx, "bp_sig", "r1", 34 if q else 40, 1 if q else 5)
    # registration inside the second wait phase of a running grace period (directed schedule from TLC), then another grace period
    _directed(ctx, "reg_in_phase2", 8 if q else 100)
    if not q:
        _run(ctx, "bp_exit", n, sim)
        _run(ctx, "bp_2r", n, sim)
        _run(ctx, "bp_grow17", max(20, n // 4), 20)
        _run(ctx, "bp_grow17_nc", max(20, n // 4), 20)
        _run(ctx, "bp_reuse", n, sim, sysmb=True)
        # concurrent capacity crossing (INIT_READER_COUNT = 1 through the URCU_VERIF_INIT_READER_COUNT override): registrations concurrent
        # with each other and with a grace period cross the arena capacity
        _run(ctx, "bp_cap1", max(20, n // 4), 20)
        _run(ctx, "bp_cap1_nc", max(20, n // 4), 20)


def run_c19(ctx):
    """bp: read-side critical sections in signal handlers (any point where the library has not blocked signals; handler may be the one that registers the thread)"""
    q = ctx.quick()
    ctx.assumptions += [a for a in ASSUMPTIONS_BP if a not in ctx.assumptions]
    n, sim = (40, 10) if q else (800, 150)
    _run(ctx, "bp_sig", n, sim, sim_tsos=(1,) if q else (0, 1))
    _sigat_sweep(ctx, "bp_sig", "r1", 34 if q else 40, 1 if q else 5)
    _finding_sigexit(ctx)
    if not q:
        _run(ctx, "bp_sig2", n, sim)
        _sigat_sweep(ctx, "bp_sig2", "r1", 45, 4)
        _sigat_sweep(ctx, "bp_sig2", "u1", 45, 4)
        _run(ctx, "bp_sig", n, sim, sysmb=True)
        _sigat_sweep(ctx, "bp_sig", "r1", 40, 4, sysmb=True)


def is_bp_replay(path):
    try:
        meta = json.load(open(os.path.join(path, "meta.json")))
    except Exception:
        return False
    return str(meta.get("scenario", "")).startswith("bp_")


def replay(ctx, path):
    """./check CNN --replay <path> for a violation directory written by one of the bp parts"""
    meta = json.load(open(os.path.join(path, "meta.json")))
    sc = load_scenario(meta["scenario"])
    sysmb = "bp_sys" in str(meta.get("trace_module", "")) or str((meta.get("env") or {}).get("BP_SYSMB", "0")) == "1"
    conc.replay(ctx, bp_component(sc, sysmb=sysmb), path)
