"""C01: synchronize_rcu() waits for every pre-existing read-side critical section (memb +/- sys_membarrier, mb; qsbr and bp: see below)."""
from vlib import *
import conc
from props.gpcommon import gp_component
from props import qsbr_parts, bp_parts

LEVEL = "model_checking"
ASSUMPTIONS = ["x86-TSO memory model; compiler barriers are honoured by the compiler (not modelled)",
               "a critical section 'has begun' once rcu_read_lock() returned and 'has ended' once the outermost rcu_read_unlock() was entered",
               "sys_membarrier modelled as one IPI per thread, each taking effect when that thread's store buffer is empty",
               "bounds: <= 3 threads, <= 2 grace periods, nesting <= 2, store buffers <= 2 (TLC); RCU_QS_ACTIVE_ATTEMPTS = URCU_WAIT_ATTEMPTS = 2 in the driver build and the spec"] + list(qsbr_parts.ASSUMPTIONS)


def run(ctx):
    q = ctx.quick()
    n, sim = (60, 20) if q else (1500, 300)
    mb = gp_component("mb", False); ms = gp_component("memb", True); mn = gp_component("memb", False)
    conc.run_component(ctx, mb, ["gp_1r1u", "gp_nest", "gp_2u_small"] + ([] if q else ["gp_2u"]), nseeds=n, nsim=sim)
    conc.run_component(ctx, ms, ["gp_1r1u"] + ([] if q else ["gp_2u_small", "gp_nest", "gp_2u"]), nseeds=n, nsim=sim)
    conc.run_component(ctx, mn, ["gp_1r1u"] + ([] if q else ["gp_nest", "gp_2u_small"]), nseeds=n, nsim=sim)
    if q:
        # nested sections of the memb flavor (its own read-side header): executions validated against the model in the quick tier,
        # exhaustive exploration of the scenario in the thorough tier (seeded change C01-5: nested lock re-samples the phase)
        conc.run_component(ctx, ms, ["gp_nest"], nseeds=n, nsim=0, mc=False)
    ctx.extra.setdefault("flavors_covered", []).extend(["mb", "memb+sys_membarrier", "memb without sys_membarrier"])
    if len(ctx.violations) < conc.MAXV:
        qsbr_parts.run_c01(ctx); ctx.extra["flavors_covered"].append("qsbr")
    if len(ctx.violations) < conc.MAXV:
        bp_parts.run_c01(ctx); ctx.extra["flavors_covered"].append("bp (+/- sys_membarrier)")


def replay(ctx, path):
    import json, os
    if qsbr_parts.is_mine(path):
        return qsbr_parts.replay_c01(ctx, path)
    if bp_parts.is_bp_replay(path):
        return bp_parts.replay(ctx, path)
    meta = json.load(open(os.path.join(path, "meta.json")))
    drv = meta.get("driver_name", "")
    comp = gp_component("memb", True) if "memb_sys" in drv else gp_component("memb", False) if "memb_nosys" in drv else gp_component("mb", False)
    conc.replay(ctx, comp, path)
