"""QSBR flavor (src/urcu-qsbr.c, static/urcu-qsbr.h, urcu-wait.h) parts of C01, C02 and C15.

  run_c01(ctx)  grace-period guarantee / no use-after-free (UrcuQsbr assertions + invariants GPGuarantee, NoUseAfterFree)
  run_c02(ctx)  no lost wake-up, no deadlock, with spurious / EINTR futex returns; Termination under fairness
  run_c15(ctx)  register / unregister / re-register at any moment relative to running grace periods
  replay_c01 / replay_c02 / replay_c15 (ctx, path)

Spec spec/UrcuQsbr.tla, driver harness/d_qsbr.c (the real urcu-qsbr.c), trace spec spec/trace/UrcuQsbrTrace.tla.in,
scenarios scenarios/qsbr_*.json.  Same contract as a cNN.run(ctx)."""
import os, json, shutil
from vlib import *
import conc

ASSUMPTIONS = [
    "qsbr: x86-TSO memory model; the variant compiled for CAA_BITS_PER_LONG == 64 (single counter increment, one wait_for_readers pass); "
    "the two-phase < 64-bit variant is not compiled on this platform and is neither modelled nor bound",
    "qsbr: an implicit read-side section of a registered online thread begins when register/thread_online/quiescent_state (or a "
    "synchronize_rcu called online) returns and ends when quiescent_state/thread_offline/unregister (or synchronize_rcu) is entered",
    "qsbr: plain accesses (list surgery under rcu_registry_lock, the thread's own reads of its TLS word, the updater's own reads of gp.ctr) "
    "are folded into the adjacent logged step; compiler barriers are honoured by the compiler (not modelled)",
    "qsbr bounds: <= 3 threads, <= 2 grace periods per updater, store buffers <= 2 entries (TLC); RCU_QS_ACTIVE_ATTEMPTS = "
    "URCU_WAIT_ATTEMPTS = 2 (C02 also RCU_QS_ACTIVE_ATTEMPTS = 1) in the driver build and in the spec; spurious/EINTR budget <= 2 per execution; "
    "futex ENOSYS: every futex call fails (compat_futex_async polling), not a mix of working and failing calls",
]


def qsbr_program(sc):
    out = []
    for t, ops in sc["threads"].items():
        out.append("thread %s" % t)
        for o in ops:
            out.append("pub %s" % o["o"][3:] if o["op"] == "pub" else o["op"])
    return "\n".join(out) + "\n"


def qsbr_component(fault_budget=0, skip=(), weak=(), sbmax=None, qs=2, wa=2, enosys=False):
    """qs / wa: RCU_QS_ACTIVE_ATTEMPTS / URCU_WAIT_ATTEMPTS of the driver build and of the spec (1: the futex sleep path is taken
    at the first unsuccessful scan, which makes seeded schedules reach FUTEX_WAIT often)"""
    env = {"VRT_FUTEX_ENOSYS": 1} if enosys else {}      # futex(2) unavailable: futex_noasync() falls back to compat_futex_async()
    if fault_budget:
        env["VRT_SPURIOUS"] = (fault_budget + 1) // 2; env["VRT_EINTR"] = fault_budget // 2
    name = "qsbr" + ("_f%d" % fault_budget if fault_budget else "") + ("".join("_no_" + s for s in skip)) + ("".join("_weak_" + s for s in weak)) + ("_q%d" % qs if qs != 2 else "") + ("_w%d" % wa if wa != 2 else "") + ("_enosys" if enosys else "")
    env["QSBR_VARIANT"] = name      # ignored by the driver; lets replay() rebuild the same variant from a violation's meta.json
    return {
        "name": name, "spec": "UrcuQsbr", "driver": "d_qsbr.c", "trace": "UrcuQsbrTrace", "drvname": "d_" + name,
        "defines": ["URCU_VERIF_RCU_QS_ACTIVE_ATTEMPTS=%d" % qs, "URCU_VERIF_URCU_WAIT_ATTEMPTS=%d" % wa],
        "invariants": ["GPGuarantee", "NoUseAfterFree", "RegistryExact", "CtrRange", "FaultBound"],
        "mc_invariants": ["DeadlockFree", "FutexRange", "LockOrder", "NoSleepWithRegistryLock"], "constraints": ["SBBound"],
        "consts": lambda sc: {"Threads": tla(set(sc["threads"])), "Prog": tla_fun(sc["threads"]), "SBMax": str(sbmax or sc.get("sbmax", 2)),
                              "QSAttempts": str(qs), "WaitAttempts": str(wa), "FaultBudget": str(fault_budget), "FutexMode": '"compat"' if enosys else '"sys"',
                              "Skip": tla(set(skip)), "Weak": tla(set(weak))},
        "program": qsbr_program, "env": env, "normalize": {"extra_fields": ("k",)}, "variant": name, "pct_len": 200, "heap": "8g",
    }


QUICK = {"c01": ["qsbr_1r1u", "qsbr_selfsync2", "qsbr_2u_small"],
         "c02_q1": ["qsbr_offon", "qsbr_2gp"], "c02": ["qsbr_selfsync"], "c02_enosys": ["qsbr_1r1u"],
         "c15": ["qsbr_unreg", "qsbr_rereg", "qsbr_reg_small"]}
THOROUGH = {"c01": ["qsbr_2gp", "qsbr_offon", "qsbr_selfsync", "qsbr_2u", "qsbr_2r"],
            "c02_q1": ["qsbr_1r1u", "qsbr_2r_small"], "c02": ["qsbr_2gp", "qsbr_2u_small", "qsbr_2r_small"],
            "c02_enosys": ["qsbr_2gp", "qsbr_2u_small"],
            "c15": ["qsbr_reg", "qsbr_2r_small"]}


_TAKEN = {}


def _labels():
    import re
    txt = open(os.path.join(SPEC, "UrcuQsbr.tla")).read()
    return sorted(set(re.findall(r"^(\w+)\(self\) == /\\ pc\[self\] = ", txt, re.M)))


def _label_cover(ctx):
    """vacuity guard: labels of UrcuQsbr through which TLC generated no state in any configuration of this run"""
    taken = _TAKEN.get(id(ctx), set())
    ctx.extra["qsbr_labels_total"] = len(_labels())
    ctx.extra["qsbr_labels_not_taken_in_this_run"] = [l for l in _labels() if l not in taken]


def _mc(ctx, comp, scn, timeout=3000):
    sc = load_scenario(scn)
    nv = len(ctx.violations)
    r = conc.model_check(ctx, comp, sc, timeout=timeout)
    log("  [TLC] %s/%s: %d distinct states, %.0fs, %s" % (scn, comp["name"], r.distinct, r.wall, "ok" if r.ok else (r.violation or r.error)))
    zero = [k for k, v in r.coverage.items() if v[1] == 0 and k not in ("Terminating",)]      # no state generated through the action
    ctx.extra.setdefault("qsbr_actions_never_taken", {})[scn + "/" + comp["name"]] = zero
    _TAKEN.setdefault(id(ctx), set()).update(k for k, v in r.coverage.items() if v[1] > 0)
    if len(ctx.violations) > nv:      # make the design-level counterexample replayable
        json.dump({"kind": "tlc", "scenario": scn, "fault_budget": int(comp["consts"](sc)["FaultBudget"]), "qs": int(comp["consts"](sc)["QSAttempts"]), "enosys": "compat" in comp["consts"](sc)["FutexMode"], "driver": comp["driver"]},
                  open(os.path.join(ctx.violations[-1]["replay"], "meta.json"), "w"), indent=1)
    return r


def _run(ctx, comp, scenarios, nseeds, nsim, full):
    """TLC on every scenario, then code->spec (seeded SC and software-TSO executions of the real urcu-qsbr.c validated against
    UrcuQsbr) and spec->code (TLC behaviours forced onto the real code).  full=False (quick tier): behaviours are replayed for
    the TSO instance only (its behaviours include the SC ones)."""
    comp = dict(comp, variant=comp["variant"] + "_" + ctx.pid.lower())      # generated module names are private to the calling check
    only = os.environ.get("VERIF_SCEN")
    scenarios = [s for s in scenarios if not only or s in only.split(",")]
    for scn in scenarios:
        if len(ctx.violations) >= conc.MAXV:
            return
        _mc(ctx, comp, scn)
    wd = os.path.join(ctx.outdir, "work_" + comp["name"]); shutil.rmtree(wd, ignore_errors=True); os.makedirs(wd)
    exe = build_driver(comp["drvname"], comp["driver"], defines=comp["defines"], tag=ctx.pid + "_" + comp["drvname"])
    for scn in scenarios:
        sc = load_scenario(scn)
        for tso in (0, 1):
            if len(ctx.violations) >= conc.MAXV:
                break
            seeds = [ctx.seed * 100003 + k for k in range(nseeds)]
            runs, fails, pf = conc.run_batch(ctx, comp, exe, sc, tso, seeds, wd)
            conc.report_failures(ctx, comp, fails)
            if runs:
                ctx.sample({"kind": "recorded execution of the real code (first events)", "scenario": scn, "tso": tso, "seed": runs[0][0],
                            "events": [e for e in runs[0][1][:12]]})
            conc.validate(ctx, comp, sc, tso, runs, wd, "tv_%s_%s_%d" % (scn, comp["name"], tso))
            if nsim and (full or tso == 1) and len(ctx.violations) < conc.MAXV:
                conc.spec_to_code(ctx, comp, exe, sc, tso, nsim, wd)
        log("  [conf] %s/%s: traces validated so far %d, events %d, replays %d, violations %d" % (scn, comp["name"], ctx.traces, ctx.events, ctx.replays, len(ctx.violations)))
        if not ctx.violations:        # the TLC logs of accepted trace validations are huge (the whole matched behaviour is printed): drop them
            for tag in ["tv_%s_%s_%d" % (scn, comp["name"], t) for t in (0, 1)] + ["tvr_%s_%d" % (scn, t) for t in (0, 1)]:
                shutil.rmtree(os.path.join(OUT, "tlc", tag), ignore_errors=True)
    shutil.rmtree(wd, ignore_errors=True)
    _label_cover(ctx)


def selftest(ctx, scn="qsbr_1r1u"):
    """Validator sanity (GUIDE 5.2a, run in the thorough tier): one recorded execution is accepted; the same execution with ONE
    corrupted field (value loaded by the updater from a reader word / value stored to gp.ctr) must be rejected.  A validator that
    accepts the corrupted trace is a machinery failure (exit 2), not a property violation."""
    import copy
    comp = qsbr_component(); comp = dict(comp, variant=comp["variant"] + "_" + ctx.pid.lower() + "_selftest")
    sc = load_scenario(scn)
    wd = os.path.join(ctx.outdir, "work_selftest"); shutil.rmtree(wd, ignore_errors=True); os.makedirs(wd)
    exe = build_driver(comp["drvname"], comp["driver"], defines=comp["defines"], tag=ctx.pid + "_" + comp["drvname"])
    runs, fails, pf = conc.run_batch(ctx, comp, exe, sc, 1, [ctx.seed * 100003 + k for k in range(6)], wd)
    conc.report_failures(ctx, comp, fails)
    c = conc.consts_for(comp, sc, 1, True); c["__spec__"] = comp["spec"]
    mod = gen_trace_module(comp["trace"], comp["spec"], "TV_%s%s" % (scn, comp["variant"]), c, invariants=comp["invariants"])
    done = 0
    for seed, ev in runs:
        n = normalize(ev, **comp["normalize"])
        ks = [k for k, e in enumerate(n) if (e["op"] == "ld" and str(e["var"]).startswith("rctr.")) or (e["op"] == "st" and e["var"] == "gp_ctr")]
        if not ks:
            continue
        tp = os.path.join(wd, "selftest.ndjson"); write_ndjson(tp, n)
        v = validate_trace_file(mod, tp, tag="tv_selftest_%s_ok" % ctx.pid)
        if not v.accepted:
            raise RuntimeError("selftest: an unmodified recorded execution (seed %d) was not accepted: %s" % (seed, v.violation or v.error))
        for k in ks[:2]:
            m = copy.deepcopy(n); f = "r" if m[k]["op"] == "ld" else "a"; m[k][f] = m[k][f] + 2
            write_ndjson(tp, m)
            v = validate_trace_file(mod, tp, tag="tv_selftest_%s_bad" % ctx.pid)
            if v.accepted:
                raise RuntimeError("selftest: the trace validator accepted a corrupted execution (event #%d %s)" % (k + 1, json.dumps(m[k])))
            done += 1
        break
    ctx.extra["qsbr_validator_selftest"] = "%d corrupted traces rejected" % done
    shutil.rmtree(wd, ignore_errors=True)


def run_c01(ctx):
    """C01, qsbr part: GPGuarantee / NoUseAfterFree for leaders, merged waiters and callers that are registered readers."""
    q = ctx.quick()
    n, sim = (30, 12) if q else (1500, 300)
    _run(ctx, qsbr_component(), QUICK["c01"] + ([] if q else THOROUGH["c01"]), n, sim, not q)
    if not q:
        selftest(ctx)


def run_c02(ctx):
    """C02, qsbr part: DeadlockFree with a budget of spurious / EINTR FUTEX_WAIT returns, lock order, Termination under fairness.
    Two builds: RCU_QS_ACTIVE_ATTEMPTS = 1 (the updater goes to FUTEX_WAIT after the first unsuccessful scan: seeded schedules of the
    real code reach the sleep / wake handshake in ~15 % of the runs instead of ~0.3 %) and = 2 (busy-wait round first)."""
    q = ctx.quick()
    n, sim = (30, 12) if q else (1000, 200)
    _run(ctx, qsbr_component(fault_budget=2, qs=1), QUICK["c02_q1"] + ([] if q else THOROUGH["c02_q1"]), n, sim, not q)
    _run(ctx, qsbr_component(fault_budget=2), QUICK["c02"] + ([] if q else THOROUGH["c02"]), n, sim, not q)
    # futex(2) unavailable (ENOSYS): futex_noasync() -> compat_futex_async() polling loop, wake-ups are no-ops
    _run(ctx, qsbr_component(qs=1, enosys=True), QUICK["c02_enosys"] + ([] if q else THOROUGH["c02_enosys"]), n, sim, not q)
    liveness(ctx, ["qsbr_unreg", "qsbr_1r1u"] if q else ["qsbr_unreg", "qsbr_1r1u", "qsbr_offon", "qsbr_selfsync", "qsbr_2gp", "qsbr_2u_small"], fault_budget=1)
    if not q:
        liveness(ctx, ["qsbr_2gp"], fault_budget=1, qs=1)
        liveness(ctx, ["qsbr_2gp"], fault_budget=0, qs=1, enosys=True)


def run_c15(ctx):
    """C15, qsbr part: register / unregister / re-register at any moment relative to running grace periods."""
    q = ctx.quick()
    n, sim = (30, 12) if q else (1500, 300)
    _run(ctx, qsbr_component(), QUICK["c15"] + ([] if q else THOROUGH["c15"]), n, sim, not q)


def liveness(ctx, scenarios, fault_budget=1, timeout=3000, qs=2, enosys=False):
    """FairSpec => Termination (every synchronize_rcu() returns, every thread finishes) with NO state constraint."""
    comp = qsbr_component(fault_budget=fault_budget, qs=qs, enosys=enosys)
    for scn in scenarios:
        if len(ctx.violations) >= conc.MAXV:
            break
        sc = load_scenario(scn)
        c = conc.consts_for(comp, sc, True, False)
        mod = gen_mc(sc, "live_" + comp["name"] + "_" + ctx.pid.lower(), c, cfg_lines=["SPECIFICATION FairSpec", "PROPERTY Termination", "CHECK_DEADLOCK FALSE"])
        r = run_tlc(mod, timeout=timeout, heap="8g")
        ctx.add_tlc(r, mod, {k: v for k, v in c.items() if len(v) < 200})
        log("  [TLC liveness] %s: %d distinct states, %.0fs, %s" % (scn, r.distinct, r.wall, "ok" if r.ok else (r.violation or r.error)))
        if r.violation:
            d = ctx.viol_dir(); shutil.copy(r.log, os.path.join(d, "tlc.log"))
            ctx.violation("TLC: %s violated in %s (FairSpec => Termination; lasso in tlc.log)" % (r.violation, mod), d)
        elif not r.ok:
            if r.error == "timeout":
                ctx.notes.append("%s: liveness run timed out after %ds (not exhaustive)" % (mod, timeout))
            else:
                raise RuntimeError("TLC failed on %s: %s\n%s" % (mod, r.error, r.out[-1500:]))


def _replay(ctx, path):
    meta = json.load(open(os.path.join(path, "meta.json")))
    if meta.get("kind") == "tlc":       # design-level counterexample: re-run TLC on that configuration
        _mc(ctx, qsbr_component(fault_budget=meta.get("fault_budget", 0), qs=meta.get("qs", 2), enosys=meta.get("enosys", False)), meta["scenario"])
        log("replay of %s: %s" % (path, "violation reproduced" if ctx.violations else "no violation on the current tree"))
        return
    env = meta.get("env") or {}
    # the build / fault variant: recorded in the driver environment (oracle failures) or in the trace module name (rejections)
    v = str(env.get("QSBR_VARIANT", "")) or str(meta.get("trace_module", ""))
    import re
    m = re.search(r"_f(\d+)", v)
    comp = qsbr_component(fault_budget=int(m.group(1)) if m else 0, qs=1 if "_q1" in v else 2, wa=1 if "_w1" in v else 2, enosys="_enosys" in v)
    conc.replay(ctx, comp, path)


replay_c01 = replay_c02 = replay_c15 = _replay


def is_mine(path):
    """True when the violation directory `path` was produced by this module (lets the coordinator dispatch --replay)."""
    try:
        meta = json.load(open(os.path.join(path, "meta.json")))
    except Exception:
        return False
    return str(meta.get("scenario", "")).startswith("qsbr_") or meta.get("driver") == "d_qsbr.c"
