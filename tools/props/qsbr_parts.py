"""QSBR flavor (src/urcu-qsbr.c, static/urcu-qsbr.h, urcu-wait.h) parts of C01, C02 and C15.

  run_c01(ctx)  grace-period guarantee / no use-after-free (UrcuQsbr assertions + invariants GPGuarantee, NoUseAfterFree)
  run_c02(ctx)  no lost wake-up, no deadlock, with spurious / EINTR futex returns; Termination under fairness
  run_c15(ctx)  register / unregister / re-register at any moment relative to running grace periods
  replay_c01 / replay_c02 / replay_c15 (ctx, path)

Spec spec/UrcuQsbr.tla, driver harness/d_qsbr.c (the real urcu-qsbr.c), trace spec spec/trace/UrcuQsbrTrace.tla.in,
scenarios scenarios/qsbr_*.json.  Same contract as a cNN.run(ctx)."""
import os, json, shutil
from vlib import *
import conc

WORKERS = 4          # builder rules round 2: at most 4 TLC workers per run
ASSUMPTIONS = [
    "qsbr: x86-TSO memory model; the variant compiled for CAA_BITS_PER_LONG == 64 (single counter increment, one wait_for_readers pass); "
    "the two-phase < 64-bit variant is not compiled on this platform and is neither modelled nor bound",
    "qsbr: an implicit read-side section of a registered online thread begins when register/thread_online/quiescent_state (or a "
    "synchronize_rcu called online) returns and ends when quiescent_state/thread_offline/unregister (or synchronize_rcu) is entered",
    "qsbr: plain accesses (list surgery under rcu_registry_lock, the thread's own reads of its TLS word, the updater's own reads of gp.ctr) "
    "are folded into the adjacent logged step; compiler barriers are honoured by the compiler (not modelled)",
    "qsbr bounds: <= 3 threads, <= 2 grace periods per updater, store buffers <= 2 entries (TLC); RCU_QS_ACTIVE_ATTEMPTS = "
    "URCU_WAIT_ATTEMPTS = 2 in the driver build and in the spec; futex ENOSYS fallback (compat_futex) not covered",
]


def qsbr_program(sc):
    out = []
    for t, ops in sc["threads"].items():
        out.append("thread %s" % t)
        for o in ops:
            out.append("pub %s" % o["o"][3:] if o["op"] == "pub" else o["op"])
    return "\n".join(out) + "\n"


def qsbr_component(fault_budget=0, skip=(), weak=(), sbmax=None):
    env = {}
    if fault_budget:
        env["VRT_SPURIOUS"] = (fault_budget + 1) // 2; env["VRT_EINTR"] = fault_budget // 2
    name = "qsbr" + ("_f%d" % fault_budget if fault_budget else "") + ("".join("_no_" + s for s in skip)) + ("".join("_weak_" + s for s in weak))
    return {
        "name": name, "spec": "UrcuQsbr", "driver": "d_qsbr.c", "trace": "UrcuQsbrTrace", "drvname": "d_" + name,
        "defines": ["URCU_VERIF_RCU_QS_ACTIVE_ATTEMPTS=2", "URCU_VERIF_URCU_WAIT_ATTEMPTS=2"],
        "invariants": ["GPGuarantee", "NoUseAfterFree", "RegistryExact", "CtrRange", "FaultBound"],
        "mc_invariants": ["DeadlockFree", "FutexRange", "LockOrder", "NoSleepWithRegistryLock"], "constraints": ["SBBound"],
        "consts": lambda sc: {"Threads": tla(set(sc["threads"])), "Prog": tla_fun(sc["threads"]), "SBMax": str(sbmax or sc.get("sbmax", 2)),
                              "QSAttempts": "2", "WaitAttempts": "2", "FaultBudget": str(fault_budget),
                              "Skip": tla(set(skip)), "Weak": tla(set(weak))},
        "program": qsbr_program, "env": env, "normalize": {"extra_fields": ("k",)}, "variant": name, "pct_len": 200, "heap": "8g",
    }


def _with_workers(fn):
    """TLC worker cap for every run started by this module (conc.model_check takes the count from VERIF_TLC_WORKERS)."""
    def wrapped(ctx, *a, **kw):
        old = os.environ.get("VERIF_TLC_WORKERS")
        if not old or int(old) > WORKERS:
            os.environ["VERIF_TLC_WORKERS"] = str(WORKERS)
        try:
            return fn(ctx, *a, **kw)
        finally:
            if old is None:
                os.environ.pop("VERIF_TLC_WORKERS", None)
            else:
                os.environ["VERIF_TLC_WORKERS"] = old
    return wrapped
