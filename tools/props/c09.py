"""C09: cds_lfht_resize() returns for every requested size; explicit and lazy resizes keep the bucket count a power of
two within [1, max_nr_buckets]; bucket tables are allocated before they are published and released only after a grace
period; queued resize work and destroy of an empty table are ordered through one work queue.

spec/LfhtResize.tla (resize CONTROL logic, one action per shared access of _do_cds_lfht_resize / init_table / fini_table /
resize_target_* / lazy_grow / lazy_count / __cds_lfht_resize_lazy_launch / check_resize / ht_count_add,del /
partition_resize_helper / do_resize_cb / do_auto_resize_destroy_cb / cds_lfht_destroy, SC and x86-TSO, abstract RCU)
   <->  harness/d_lfht_resize.c (real rculfhash.c + workqueue.c + rculfhash-mm-*.c under VSCHED, abstract flavor).

  * TLC: invariants SizeOK TargetOK AllocBeforePublish NoUAF NoErr(FreeAfterGP, partition cover, ...) QuiescentConverged
    GrowWins DestroyOK DeadlockFree on every scenario; liveness FairSpec => Returns /\ Quiesces (no state constraint) for
    n in 0..17, max+1, ULONG_MAX and max in {1,2,4,8,16}; PartitionOK (arithmetic of partition_resize_helper).
  * negative controls (reported in the evidence, never as violations): the UNREPAIRED resize_target_update_count (F1)
    must violate Returns; the strict convergence property must be violated (observation O2, lost lazy launch); the
    spec mutations no_gp / pub_first / no_ipd / noclamp / no_mb must each be caught; a corrupted recorded field must be
    rejected.
  * code -> spec: recorded executions (seeded PCT / uniform schedules, SC and software TSO) are projected onto the
    control variables, allocator / work-queue / grace-period events and validated by TLC against LfhtResizeTrace with all
    invariants evaluated at every step.  Oracles on the real run: BUDGET (a call that does not return), UAF on
    quarantined bucket tables / work / table, resident key not found, structure at quiescence.

Mutation experiments on scratch copies of src/rculfhash.c (VERIF_REPO=/tmp/copy ./check C09; all detected):
  * F1 repair reverted (no round-up in resize_target_update_count)   -> BUDGET oracle: cds_lfht_resize(3|5|6|7) never returns
  * fini_table: free_bucket_table before the final synchronize_rcu    -> trace rejected at the bfree event (no gp_begin/gp_end before it)
  * init_table: ht->size stored before alloc_bucket_table + populate  -> trace rejected at the store of size (no balloc before it)
  * lazy launch without the in_progress_destroy test                  -> trace rejected at walloc (ld in_progress_destroy missing)
  * resize_target_update_count without min(count, max_nr_buckets)     -> ORACLE final size 8 not within [1, 4]
  * partition_resize_helper: `len -= start` dropped after EAGAIN      -> CRASH (populate past the order's table), scenario resize_part_f1
  * cmm_smp_mb() removed from _do_cds_lfht_resize                     -> trace rejected at the re-read of resize_target (spec-level: Mut no_mb)
Observation O2 (not a C09 violation): scenarios/resize_obs_lost_lazy_launch.prog reproduces the lost lazy resize on the real code.
"""
import os, json, re, shutil, random, copy, concurrent.futures as cf
from vlib import *
import vlib, conc

LEVEL = "model_checking"
from props import wq_parts
ASSUMPTIONS = [
    "x86-TSO memory model; serialised execution: scheduling points are the hooked shared accesses and blocking calls",
    "grace periods are abstract (harness/absrcu.h == AbstractRcu: blocking step enabled when every read-side section open at its start has ended); "
    "the real flavors are C01's business",
    "bucket lists are abstract in LfhtResize (populate / remove_table are one step per partition; contents preservation at CAS granularity: spec/Lfht, C05/C07); "
    "the driver checks resident keys and the list structure directly",
    "the work queue is a FIFO in the specification; the real src/workqueue.c (wfcqueue + futex) is executed by the driver",
    "CPU topology, ht->count and the split counters are environment inputs preset by the driver from the scenario",
    "bounds: max_nr_buckets <= 16, <= 3 scenario threads + worker + 2 partition threads, <= 3 operations per thread, COUNT_COMMIT_ORDER <= 1, "
    "check_resize calls per add/partition <= 2 in TLC (<= 40 when validating traces)",
    "destroy is issued once every other scenario thread has finished (API contract: no concurrent reader or writer)",
]
BIG = 1000000
import threading
LOCK = threading.RLock()


class SubCtx:
    """per-job view of the check context: counters are private and merged under a lock (jobs run side by side)"""
    def __init__(self, ctx):
        self.ctx = ctx; self.states = self.transitions = self.traces = self.events = self.replays = 0
        self.pid = ctx.pid; self.seed = ctx.seed; self.outdir = ctx.outdir; self.notes = ctx.notes; self.extra = ctx.extra; self.violations = ctx.violations

    def viol_dir(self):
        with LOCK:
            return self.ctx.viol_dir()

    def violation(self, what, replay, key=None):
        with LOCK:
            self.ctx.violation(what, replay, key)

    def sample(self, x):
        with LOCK:
            self.ctx.sample(x)

    def add_tlc(self, r, name, consts=None):
        with LOCK:
            self.ctx.add_tlc(r, name, consts)

    def merge(self):
        with LOCK:
            for k in ("states", "transitions", "traces", "events", "replays"):
                setattr(self.ctx, k, getattr(self.ctx, k) + getattr(self, k)); setattr(self, k, 0)
W = "h1"
CV = {"size", "resize_target", "resize_initiated", "in_progress_destroy", "count"}
INVARIANTS = ["SizeOK", "TargetOK", "AllocBeforePublish", "NoUAF", "NoErr"]
MC_INVARIANTS = ["QuiescentConverged", "GrowWins", "DestroyOK"]      # + TLC's deadlock check (MCSpec stutters at quiescence only)

COVERAGE = bool(os.environ.get("C09_COVERAGE"))
QUICK = ["resize_seq_m1", "resize_seq_m2", "resize_seq_m4", "resize_seq_m8", "resize_seq_m16", "resize_conc2", "resize_rd", "resize_part_fn", "resize_part_f0", "resize_part_f1", "resize_part_auto", "resize_acct_only",
         "resize_lazy_chain1", "resize_lazy_seq", "resize_lazy_count_grow", "resize_lazy_count_shrink", "resize_lazy_shrink_race", "resize_qsbr_lazy", "resize_qsbr_2r",
         "resize_destroy_queued", "resize_destroy_plain", "resize_destroy_eperm"]
THOROUGH_ONLY = ["resize_conc", "resize_lazy_chain", "resize_part_f2", "resize_nocpu", "resize_destroy_2t", "resize_destroy_helper"]


# ------------------------------------------------------------------ scenario -> constants / program
def nval(sc, n):
    return sc["max"] + 1 if n == "max+1" else BIG if n == "BIG" else int(n)


def order(x):
    o = 0
    while (1 << o) < x:
        o += 1
    return o


def sanity(sc):
    assert sc["max"] & (sc["max"] - 1) == 0 and sc["s0"] & (sc["s0"] - 1) == 0 and 1 <= sc["s0"] <= sc["max"] <= 16
    present = set(sc["pre"]) | set(sc["prex"]); destroys = 0
    for t, ops in sc["threads"].items():
        mine = set()
        for k, o in enumerate(ops):
            if o["op"] == "add":
                assert o["key"] not in present and o["key"] not in mine; mine.add(o["key"])
            elif o["op"] == "del":
                assert o["key"] in mine or o["key"] in sc["prex"], "del of a key the thread does not own"
                mine.discard(o["key"])
            elif o["op"] == "destroy":
                destroys += 1; assert k == len(ops) - 1
            elif o["op"] == "lookup":
                pass
            else:
                assert o["op"] == "resize" and o["ns"]
            assert not (sc.get("qsbr") and o["op"] == "destroy"), "qsbr scenarios: the destroy path (is_empty bracket of an online caller) is not modelled"
    assert destroys <= 1
    assert len(sc["sc0"]) == scmask(sc) + 1


def scmask(sc):
    return (1 << order(sc["ncpus"])) - 1 if sc["ncpus"] > 0 else 15


def consts(sc, **over):
    sanity(sc)
    thr = {}
    for t, ops in sc["threads"].items():
        thr[t] = [{"op": o["op"], "ns": set(nval(sc, n) for n in o.get("ns", []))} for o in ops]
    m = scmask(sc)
    c = {"Threads": tla(set(thr)), "Prog": tla_fun(thr), "SBMax": "4", "MaxB": str(sc["max"]), "S0": str(sc["s0"]),
         "AutoResize": tla(bool(sc["auto"])), "Accounting": tla(bool(sc["acct"])), "CCO": str(sc["cco"]), "SCMask": str(m),
         "Cpu": tla_fun({t: sc.get("cpu", {}).get(t, 0) for t in thr}),
         "SC0": "[k \\in 0..%d |-> <<%s>>[k + 1]]" % (m, ", ".join("[add |-> %d, del |-> %d]" % (a, d) for a, d in sc["sc0"])),
         "Count0": str(sc["count0"]), "Items0": str(len(sc["pre"]) + len(sc["prex"])), "Growths": tla(set(sc["growths"])), "MaxChk": str(sc["maxchk"]), "MaxChkP": str(sc.get("maxchkp", sc["maxchk"])),
         "Repaired": "TRUE", "NrCpusMask": str(m) if sc["ncpus"] > 0 else "0 - 2", "MPO": str(sc["mpo"]),
         "FailAt": str(sc["failat"]) if sc["failat"] >= 0 else "0 - 1", "Mut": "{}", "CheckGrowWins": tla(bool(sc.get("growwins"))),
         "Qsbr": tla(bool(sc.get("qsbr")))}
    c.update(over)
    return c


def program(sc, rnd, mm="order"):
    """program file of the driver; a resize request is drawn from the op's set (rnd: random.Random or an int index)"""
    out = ["cfg %d %d %d %d %d %d %s" % (sc["max"], sc["s0"], sc["auto"], sc["acct"], sc["ncpus"], sc["shift"], mm)]
    if sc["pre"]:
        out.append("pre " + " ".join(str(k) for k in sc["pre"]))
    if sc["prex"]:
        out.append("prex " + " ".join(str(k) for k in sc["prex"]))
    if sc["acct"]:
        out.append("counters %d %s" % (sc["count0"], " ".join("%d %d" % (a, d) for a, d in sc["sc0"])))
    for t, ops in sc["threads"].items():
        out.append("thread %s %d" % (t, sc.get("cpu", {}).get(t, 0)))
        for o in ops:
            if o["op"] == "resize":
                ns = o["ns"]
                n = ns[rnd % len(ns)] if isinstance(rnd, int) else rnd.choice(ns)
                v = nval(sc, n)
                out.append("resize %s" % ("BIG" if v == BIG else v))
            elif o["op"] == "destroy":
                out.append("destroy")
            else:
                out.append("%s %d" % (o["op"], o["key"]))
    return "\n".join(out) + "\n"


def component(sc, **over):
    return {"spec": "LfhtResize", "driver": "d_lfht_resize.c", "trace": "LfhtResizeTrace", "invariants": INVARIANTS,
            "consts": lambda s: consts(s, **over), "normalize": {"drop_ops": (), "extra_fields": ("a", "b", "r")},
            "trace_consts": {"MaxChk": "40", "MaxChkP": "40", "Growths": "{1, 2, 3, 4}"}, "tv_timeout": 900}


# ------------------------------------------------------------------ driver
_EXES = {}


def build(ctx, sc):
    key = (sc["mpo"], sc["cco"], vlib.REPO)
    if key not in _EXES:
        _EXES[key] = build_driver("d_lfht_resize", "d_lfht_resize.c",
                                  defines=("URCU_VERIF_MIN_PARTITION_PER_THREAD_ORDER=%d" % sc["mpo"], "URCU_VERIF_COUNT_COMMIT_ORDER=%d" % sc["cco"]),
                                  extra_src=[os.path.join(vlib.REPO, "src", f) for f in ("rculfhash-mm-order.c", "rculfhash-mm-chunk.c", "rculfhash-mm-mmap.c")],
                                  tag="%s_d_lfht_resize_p%d_c%d" % (ctx.pid, sc["mpo"], sc["cco"]))
    return _EXES[key]


def run_env(sc, seed):
    env = {"VRT_MODE": "uniform" if seed % 3 == 2 else "pct", "VRT_DEPTH": 1 + seed % 4, "VRT_LEN": 400, "VRT_BUDGET": 30000}
    if sc["failat"] >= 0:
        env["VRT_CREATE_FAIL"] = sc["failat"]
    if sc.get("qsbr"):
        env["LR_QSBR"] = 1          # the driver's flavor behaves like QSBR (spec constant Qsbr)
    return env


def run_one(exe, sc, tso, seed, wd, prog_text, env=None):
    pf = os.path.join(wd, "prog_%s_%d.txt" % (sc["name"], seed))
    with open(pf, "w") as f:
        f.write(prog_text)
    tp = os.path.join(wd, "t_%s_%d_%d.ndjson" % (sc["name"], tso, seed))
    env = env or run_env(sc, seed)
    rc, so, se = run_driver(exe, [seed, tso, tp, pf], env=env, timeout=60)
    ev = read_trace(tp) if os.path.exists(tp) else []
    return rc, se, tp, pf, ev, env


def run_batch(ctx, exe, sc, tso, seeds, wd, mm="order"):
    runs = []; fails = []; info = {}
    for k, seed in enumerate(seeds):
        rnd = random.Random(seed * 7919 + 13)
        # the first executions walk through the request sets deterministically (every n is executed), later ones draw at random
        text = program(sc, k if k < 24 else rnd, mm)
        rc, se, tp, pf, ev, env = run_one(exe, sc, tso, seed, wd, text)
        info[seed] = {"tso": tso, "program": text, "env": env}
        if rc != 0:
            fails.append({"seed": seed, "tso": tso, "rc": rc, "stderr": se[-500:], "trace": tp, "env": env, "scenario": sc["name"], "program": text})
        else:
            runs.append((seed, ev)); os.unlink(tp)
        os.unlink(pf)
    return runs, fails, info


def report_failures(ctx, sc, fails):
    for f in fails[:max(0, conc.MAXV - len(ctx.violations))]:
        d = ctx.viol_dir()
        if os.path.exists(f["trace"]):
            shutil.move(f["trace"], os.path.join(d, "trace.ndjson"))
        json.dump(f, open(os.path.join(d, "meta.json"), "w"), indent=1)
        open(os.path.join(d, "prog.txt"), "w").write(f["program"])
        m = re.search(r"VRT-FAIL (.*)", f["stderr"])
        what = m.group(1) if m else f["stderr"][-200:]
        if "BUDGET" in what:
            what += " -- a library call did not return within the event budget (termination oracle)"
        ctx.violation("oracle failure on the real code: %s (scenario %s seed %d tso=%d rc=%d; program: %s)" % (
            what, f["scenario"], f["seed"], f["tso"], f["rc"], f["program"].replace("\n", "; ")), d)
    for f in fails:
        if os.path.exists(f["trace"]):
            os.unlink(f["trace"])


# ------------------------------------------------------------------ projection of a recorded trace onto the spec's events
def project(events, sc, tso=1):
    """tso = 0: the execution was sequentially consistent, i.e. every store was committed at once: a flush event is
    inserted after each store so that SC and TSO executions are validated against the same (TSO = TRUE) module"""
    auto = bool(sc["auto"])
    out = []
    slot = {}                  # helper thread name -> slot name
    batch = {}                 # parent -> [spawned, joined]
    inres = {}                 # scenario thread -> inside cds_lfht_resize
    helpers = set(e.get("var") for e in events if e.get("op") == "spawn")

    def ev(t, op, var="-", a=0, b=0, r=0):
        out.append({"t": t, "op": op, "var": var, "a": a, "b": b, "r": r})

    def num(v):
        return v if isinstance(v, int) else -999999
    for e in events:
        op = e.get("op"); t = e.get("t"); var = e.get("var", "-")
        if t in slot:
            tt = slot[t]
        elif t in helpers:
            continue            # cannot happen: events of a helper before its spawn event
        else:
            tt = t
        ishelper = t in helpers
        isworker = auto and t == W and not ishelper
        if op == "call":
            inres[t] = e.get("api") == "resize"
            ev(tt, "call", e.get("api"), num(e.get("n", 0)))
        elif op == "ret":
            inres[t] = False
            ev(tt, "ret", e.get("api"), 0, 0, num(e.get("r", 0)))
        elif op == "fin":
            ev(tt, "fin")
        elif op in ("ld", "st", "cas", "addret") and (var in CV or re.match(r"sc\d+\.(add|del)$", var or "")):
            if op == "ld":
                ev(tt, op, var, 0, 0, num(e.get("r")))
            elif op == "st":
                ev(tt, op, var, num(e.get("a")))
                if not tso:
                    ev(tt, "flush", var, num(e.get("a")))
            elif op == "cas":
                ev(tt, op, var, num(e.get("a")), num(e.get("b")), num(e.get("r")))
            else:
                ev(tt, op, var, num(e.get("a")), 0, num(e.get("r")))
        elif op == "flush" and var in CV:
            ev(tt, "flush", var, num(e.get("a")))
        elif op == "mb" and str(e.get("loc", "")).startswith("rculfhash.c"):
            ev(tt, "mb")
        elif op in ("lock", "unlock") and var == "resize_mutex":
            ev(tt, op, var)
        elif op in ("gp_begin", "gp_end"):
            ev(tt, op)
        elif op in ("rlock", "runlock"):
            if not ishelper and not isworker and not inres.get(t):
                ev(tt, op)
        elif op in ("online", "offline"):
            ev(tt, op)
        elif op in ("balloc", "bfree"):
            ev(tt, op, "order", num(e.get("a")))
        elif op in ("walloc", "wfree"):
            ev(tt, op, "rw")
        elif op in ("scfree", "htfree"):
            ev(tt, op)
        elif op == "xchg" and var == "wq.tail" and e.get("a") in ("rw", "dw"):
            ev(tt, "enq", e.get("a"))
        elif op in ("reg", "unreg"):
            if ishelper or isworker:
                ev(tt, op)
        elif op == "spawn":
            b = batch.setdefault(t, [0, 0])
            if b[0] == b[1]:
                b[0] = b[1] = 0
            b[0] += 1
            slot[var] = "p%d" % b[0]
            ev(tt, "spawn", slot[var])
        elif op == "join":
            if var in slot:
                batch[t][1] += 1
                ev(tt, "join", slot[var])
        elif op == "fault" and var == "pthread_create":
            ev(tt, "fault", "pthread_create")
        elif op in ("fail", "garbled"):
            ev(tt or "-", op)
    return out


# ------------------------------------------------------------------ TLC
def tlc_failed(r):
    return r.violation or ("Temporal propert" in r.out and "violated" in r.out)


def run_mc(ctx, sc, variant, c, cfg_lines, timeout, workers=4, expect=None, what=""):
    """expect: None -> must hold; string -> negative control: TLC must report a violation (recorded in the evidence)"""
    mod = gen_mc(sc, variant, c, cfg_lines=cfg_lines)
    r = run_tlc(mod, workers=workers, coverage=(expect is None and variant == "mc" and COVERAGE), timeout=timeout, heap="6g")
    bad = tlc_failed(r)
    if expect is not None:
        ctx.states += r.distinct; ctx.transitions += r.states
        ctl = {"control": what, "config": mod, "expected": expect, "found": (r.violation or "temporal property") if bad else None,
               "distinct_states": r.distinct, "wall_s": round(r.wall, 1)}
        ctx.extra.setdefault("negative_controls", []).append(ctl)
        ctx.merge() if isinstance(ctx, SubCtx) else None
        if not bad:
            raise RuntimeError("negative control %s: TLC did NOT find the expected violation (%s) in %s -- the check is not binding\n%s" % (what, expect, mod, r.out[-800:]))
        log("  [ctl] %-34s %-28s found as expected (%s, %d states, %.0fs)" % (sc["name"], what, ctl["found"], r.distinct, r.wall))
        return r
    ctx.add_tlc(r, mod, {k: v for k, v in c.items() if len(v) < 200})
    if bad:
        d = ctx.viol_dir(); shutil.copy(r.log, os.path.join(d, "tlc.log"))
        json.dump({"scenario": sc["name"], "kind": "tlc", "variant": variant}, open(os.path.join(d, "meta.json"), "w"), indent=1)
        ctx.violation("TLC: %s violated in %s (design-level counterexample in tlc.log)" % (r.violation or "temporal property", mod), d)
    elif not r.ok:
        if r.error == "timeout":
            ctx.notes.append("%s: TLC timed out after %ds with %d distinct states (not exhaustive)" % (mod, timeout, r.distinct))
        else:
            raise RuntimeError("TLC failed on %s: %s\n%s" % (mod, r.error, r.out[-1500:]))
    return r


SAFETY_CFG = ["SPECIFICATION MCSpec"] + ["INVARIANT " + i for i in INVARIANTS + MC_INVARIANTS] + ["CHECK_DEADLOCK TRUE"]
LIVE_CFG = ["SPECIFICATION FairSpec", "PROPERTY Returns", "PROPERTY Quiesces", "CHECK_DEADLOCK FALSE"]


def model_check(ctx, sc, timeout, workers=4):
    c = consts(sc, TSO="TRUE", Tracing="FALSE")
    r = run_mc(ctx, sc, "mc", c, SAFETY_CFG, timeout, workers)
    zero = [k for k, v in r.coverage.items() if v[0] == 0 and k not in ("Terminating",)]
    ctx.extra.setdefault("actions_never_taken", {})[sc["name"]] = zero
    log("  [TLC] %-28s %9d distinct states, depth %3d, %4.0fs, %s" % (sc["name"], r.distinct, r.depth, r.wall, "ok" if r.ok else (r.violation or r.error)))
    return r


def liveness(ctx, sc, timeout, workers=4):
    c = consts(sc, TSO="TRUE", Tracing="FALSE")
    r = run_mc(ctx, sc, "live", c, LIVE_CFG, timeout, workers)
    log("  [TLC] %-28s liveness (FairSpec => Returns, Quiesces): %d distinct states, %.0fs, %s" % (sc["name"], r.distinct, r.wall, "ok" if r.ok else (r.violation or r.error)))
    return r


def controls(ctx, quick):
    """negative controls at specification level: each must be FOUND by TLC"""
    ctx = SubCtx(ctx)
    try:
        _controls(ctx, quick)
    finally:
        ctx.merge()


def _controls(ctx, quick):
    seq = load_scenario("resize_seq_m8")
    # F1: the unrepaired resize_target_update_count() -- non-power-of-two target never reached
    run_mc(ctx, seq, "ctl_f1", consts(seq, TSO="TRUE", Tracing="FALSE", Repaired="FALSE"), LIVE_CFG, 600, expect="temporal property Returns",
           what="F1 unrepaired clamp: non-termination")
    # O2: lazy launch stores resize_initiated = 1 after queueing the work: a later lazy resize can be lost
    lz = load_scenario("resize_lazy_seq")
    run_mc(ctx, lz, "ctl_o2", consts(lz, TSO="TRUE", Tracing="FALSE"), ["SPECIFICATION Spec", "INVARIANT QuiescentConvergedStrict", "CHECK_DEADLOCK FALSE"], 900,
           expect="invariant QuiescentConvergedStrict", what="O2 lost lazy resize (stale resize_initiated)")
    muts = [("no_gp", "resize_rd", "free before grace period"), ("pub_first", "resize_rd", "size published before allocation"),
            # F6 / F7 as they were before their repair (QSBR: a reader blocks on resize_mutex while online): TLC must find the deadlock
            ("reg_first", "resize_qsbr_lazy", "F6 unrepaired: do_resize_cb registers (online) before taking resize_mutex"),
            ("on_lock", "resize_qsbr_2r", "F7 unrepaired: cds_lfht_resize blocks on resize_mutex as an online QSBR reader")]
    if not quick:
        muts += [("noclamp", "resize_seq_m4", "target not clamped to max_nr_buckets"),
                 ("no_mb", "resize_lazy_seq", "no fence between resize_initiated = 0 and the re-read of resize_target")]
    for mut, scn, what in muts:
        s = load_scenario(scn)
        over = {"Mut": tla({mut})}
        cfg = SAFETY_CFG
        if mut == "noclamp":
            s = copy.deepcopy(s); s["threads"] = {"t1": [{"op": "resize", "ns": [5, "max+1"]}]}
        run_mc(ctx, s, "ctl_" + mut, consts(s, TSO="TRUE", Tracing="FALSE", **over), cfg, 900, expect="deadlock" if mut in ("reg_first", "on_lock") else "invariant", what="mutation %s: %s" % (mut, what))
    # arithmetic of partition_resize_helper (pure): checked as an assumption-free invariant of a trivial behaviour
    mod = gen_mc(seq, "part", consts(seq, TSO="FALSE", Tracing="FALSE", Prog=tla_fun({"t1": []})), cfg_lines=["SPECIFICATION Spec", "INVARIANT PartitionOK", "CHECK_DEADLOCK FALSE"])
    r = run_tlc(mod, workers=1, timeout=300, heap="2g")
    ctx.add_tlc(r, mod, {"property": "PartitionOK: partitions + leftover cover [0, len) exactly once for len <= 32, 4 topologies, MPO 0..3, every create failure"})
    if tlc_failed(r):
        d = ctx.viol_dir(); shutil.copy(r.log, os.path.join(d, "tlc.log"))
        json.dump({"scenario": seq["name"], "kind": "tlc", "variant": "part"}, open(os.path.join(d, "meta.json"), "w"))
        ctx.violation("TLC: PartitionOK violated (partition_resize_helper arithmetic)", d)
    elif not r.ok:
        raise RuntimeError("TLC failed on %s: %s\n%s" % (mod, r.error, r.out[-1500:]))


# ------------------------------------------------------------------ code -> spec
def annotate(ctx, nbefore, info, scname=None):
    for v in ctx.violations[nbefore:]:
        mp = os.path.join(v["replay"], "meta.json")
        if os.path.exists(mp):
            meta = json.load(open(mp))
            x = info.get(meta.get("seed"))
            if x and meta.get("scenario") == scname and "program" not in meta:
                meta.update(x); json.dump(meta, open(mp, "w"), indent=1)
                open(os.path.join(v["replay"], "prog.txt"), "w").write(x["program"])


def corrupt_control(ctx, sc, comp, runs, wd):
    """a recorded (accepted) execution with one corrupted field must be rejected"""
    for seed, ev in runs:
        idx = [i for i, e in enumerate(ev) if e["op"] == "st" and e["var"] == "size"] or [i for i, e in enumerate(ev) if e["op"] == "ld" and e["var"] == "resize_target"]
        ib = [i for i, e in enumerate(ev) if e["op"] == "balloc"]
        if not idx:
            continue
        c = conc.consts_for(comp, sc, 1, True); c["__spec__"] = comp["spec"]; c.update(comp["trace_consts"])
        mod = gen_trace_module(comp["trace"], comp["spec"], "TV_%s_neg" % sc["name"], c, invariants=comp["invariants"])
        cases = []
        bad = copy.deepcopy(ev); k = "a" if bad[idx[-1]]["op"] == "st" else "r"; bad[idx[-1]][k] = bad[idx[-1]][k] * 2; cases.append(("%s of %s doubled" % (bad[idx[-1]]["op"], bad[idx[-1]]["var"]), bad))
        if ib:
            bad = copy.deepcopy(ev); del bad[ib[0]]; cases.append(("first balloc event removed (publication without allocation)", bad))
        res = []
        for what, b in cases:
            tp = os.path.join(wd, "neg.ndjson"); write_ndjson(tp, normalize(b, **comp["normalize"]))
            v = validate_trace_file(mod, tp, tag="tv_neg_" + sc["name"], timeout=300)
            if v.error:
                raise RuntimeError("negative control failed to run: %s" % v.error)
            if v.accepted:
                raise RuntimeError("negative control: corrupted trace (%s, seed %d) was ACCEPTED by %s" % (what, seed, mod))
            res.append({"corruption": what, "rejected_at_event": v.maxl, "of": v.total, "verdict": v.violation or "not a behaviour"})
        ctx.extra.setdefault("negative_controls", []).append({"control": "corrupted recorded field", "scenario": sc["name"], "seed": seed, "results": res})
        log("  [ctl] %-34s corrupted trace rejected (%s)" % (sc["name"], "; ".join(r["corruption"] for r in res)))
        return
    ctx.notes.append("%s: no execution suitable for the corruption control" % sc["name"])


def conformance(ctx, sc, nseeds, wd, neg=False):
    top = ctx; ctx = SubCtx(ctx)
    try:
        _conformance(ctx, sc, nseeds, wd, neg)
    finally:
        ctx.merge()
    log("  [conf] %-28s traces validated so far %d, events %d, max raw events/run %d, violations %d" % (
        sc["name"], top.traces, top.events, top.extra.get("max_events_per_execution", {}).get(sc["name"], 0), len(top.violations)))


def _conformance(ctx, sc, nseeds, wd, neg=False):
    exe = build(ctx, sc)
    comp = component(sc)
    maxev = 0; allruns = []; info = {}
    # (memory backend, executions per mode): the order backend carries the bulk; chunk and mmap run the same programs
    plan = [("order", nseeds)] + ([(m_, max(3, nseeds // 5)) for m_ in ("chunk", "mmap")] if (neg or sc.get("mms")) else [])
    for mi, (mm, n) in enumerate(plan):
      for tso in (0, 1):
        seeds = [ctx.seed * 100003 + mi * 20000011 + tso * 50021 + i for i in range(n)]
        runs, fails, inf = run_batch(ctx, exe, sc, tso, seeds, wd, mm)
        with LOCK:
            ctx.extra.setdefault("executions_by_memory_backend", {}).setdefault(mm, 0)
            ctx.extra["executions_by_memory_backend"][mm] += len(runs)
        info.update(inf)
        with LOCK:
            report_failures(ctx, sc, fails)
        pruns = [(seed, project(ev, sc, tso)) for seed, ev in runs]
        maxev = max([maxev] + [len(ev) for _, ev in runs])
        if pruns:
            ctx.sample({"kind": "recorded execution of the real code (projected, first events)", "scenario": sc["name"], "tso": tso, "seed": pruns[0][0],
                        "program": info[pruns[0][0]]["program"].split("\n"), "events": pruns[0][1][:14]})
        allruns += pruns
    nb = len(ctx.violations)
    if nb < conc.MAXV:
        open(os.path.join(wd, "prog_%s.txt" % sc["name"]), "w").write("(one program per execution: see meta.json)\n")
        conc.validate(ctx, comp, sc, 1, allruns, wd, "tv_%s" % sc["name"])
        annotate(ctx, nb, info, sc["name"])
        if neg and len(ctx.violations) == nb:
            corrupt_control(ctx, sc, comp, allruns, wd)
    st = ctx.extra.setdefault("max_events_per_execution", {}); st[sc["name"]] = maxev


# ------------------------------------------------------------------ entry points
def deep_variant(sc):
    """thorough tier: the deeper variant of a scenario (model checking only; name suffix _T)"""
    d = dict(sc); d.update(sc["thorough"]); d["name"] = sc["name"] + "_T"; d["live"] = False; d["spec_only"] = True
    return d


def job_mc(ctx, sc, quick, workers):
    ctx = SubCtx(ctx)
    try:
        _job_mc(ctx, sc, quick, workers)
    finally:
        ctx.merge()


def _job_mc(ctx, sc, quick, workers):
    if len(ctx.violations) >= conc.MAXV:
        return
    if sc.get("live") and (sc.get("live_quick") or not quick) and not sc.get("big"):
        # one run: invariants + liveness under FairSpec (a deadlock shows as a violation of Returns / Quiesces)
        c = consts(sc, TSO="TRUE", Tracing="FALSE")
        r = run_mc(ctx, sc, "mclive", c, ["SPECIFICATION FairSpec"] + ["INVARIANT " + i for i in INVARIANTS + MC_INVARIANTS] + ["PROPERTY Returns", "PROPERTY Quiesces", "CHECK_DEADLOCK FALSE"],
                   900 if quick else 6000, workers)
        log("  [TLC] %-28s %9d distinct states, depth %3d, %4.0fs, invariants + liveness (Returns, Quiesces): %s" % (sc["name"], r.distinct, r.depth, r.wall, "ok" if r.ok else (r.violation or r.error)))
        if not COVERAGE:
            return
    model_check(ctx, sc, 900 if quick else 6000, workers)


def run(ctx):
    q = ctx.quick()
    global COVERAGE
    COVERAGE = COVERAGE or not q
    os.environ.setdefault("VERIF_TLC_WORKERS", "4")
    # many short TLC runs side by side: keep each JVM small (few GC / JIT threads; C1 only in the quick tier)
    os.environ.setdefault("JAVA_TOOL_OPTIONS", "-XX:ParallelGCThreads=2 -XX:TieredStopAtLevel=1" if q else "-XX:ParallelGCThreads=4")
    wd = os.path.join(ctx.outdir, "work"); shutil.rmtree(wd, ignore_errors=True); os.makedirs(wd)
    only = os.environ.get("VERIF_SCEN")
    names = [s for s in QUICK + ([] if q else THOROUGH_ONLY) if not only or s in only.split(",")]
    scs = [load_scenario(s) for s in names]
    if not q:
        scs += [deep_variant(s) for s in scs if s.get("thorough")]
    # 1. model checking: small configurations side by side (1 TLC worker each, 4 at a time), big ones with 4 workers afterwards
    small = [s for s in scs if q or not s.get("big")]
    with cf.ThreadPoolExecutor(4) as ex:
        futs = [ex.submit(job_mc, ctx, s, q, 1) for s in small]
        if not only:
            futs.append(ex.submit(controls, ctx, q))
        for f in futs:
            f.result()
    for s in scs:
        if s not in small:
            job_mc(ctx, s, q, 4)
    if COVERAGE:
        nt = ctx.extra.get("actions_never_taken", {})
        if nt:
            never = set.intersection(*[set(v) for v in nt.values()]) - {"it_alloc2", "w_oreg", "w_olock", "w_odo", "w_ounlock", "w_ounreg"}      # mutation-only labels (pub_first, reg_first)
            ctx.extra["actions_never_taken_in_any_scenario"] = sorted(never)
            ctx.extra["actions_never_taken"] = {k: len(v) for k, v in nt.items()}
            if never and not only:
                raise RuntimeError("labels of LfhtResize never taken by any scenario (vacuity guard): %s" % sorted(never))
    # 2. conformance of the real code (driver runs + one trace validation per scenario; 4 scenarios at a time)
    scs = [s for s in scs if not s.get("spec_only")]
    for s in scs:
        build(ctx, s)
    with cf.ThreadPoolExecutor(4) as ex:
        futs = []
        for s in scs:
            n = (24 if s["name"].startswith("resize_seq_") else 12) if q else 300
            futs.append(ex.submit(conformance, ctx, s, n, wd, (s["name"] in ("resize_rd",) or not q)))
        for f in futs:
            f.result()
    shutil.rmtree(wd, ignore_errors=True)
    # 3. the work queue itself (spec/Workqueue.tla <-> real src/workqueue.c): queue / flush (completion) / destroy / worker loop
    if len(ctx.violations) < conc.MAXV and not only:
        ctx.assumptions += [a for a in wq_parts.ASSUMPTIONS if a not in ctx.assumptions]
        wq_parts.run_c09(ctx)


def replay(ctx, path):
    if wq_parts.is_mine(path):
        return wq_parts.replay_c09(ctx, path)
    meta = json.load(open(os.path.join(path, "meta.json")))
    sc = load_scenario(meta["scenario"])
    if meta.get("kind") == "tlc":
        (liveness if meta.get("variant") == "live" else model_check)(ctx, sc, 6000)
        log("replay of %s: %s" % (path, "violation reproduced" if ctx.violations else "no violation on the current tree"))
        return
    wd = os.path.join(ctx.outdir, "replay_work"); shutil.rmtree(wd, ignore_errors=True); os.makedirs(wd)
    exe = build(ctx, sc)
    text = meta.get("program") or open(os.path.join(path, "prog.txt")).read()
    rc, se, tp, pf, ev, env = run_one(exe, sc, meta["tso"], meta["seed"], wd, text, env=meta.get("env"))
    if rc != 0:
        report_failures(ctx, sc, [{"seed": meta["seed"], "tso": meta["tso"], "rc": rc, "stderr": se[-500:], "trace": tp, "env": env, "scenario": sc["name"], "program": text}])
    else:
        open(os.path.join(wd, "prog_%s.txt" % sc["name"]), "w").write(text)
        conc.validate(ctx, component(sc), sc, 1, [(meta["seed"], project(ev, sc, meta["tso"]))], wd, "tv_replay")
    log("replay of %s: %s" % (path, "violation reproduced" if ctx.violations else "no violation on the current tree"))
