"""C08: cds_lfht, executed sequentially, behaves like the reference object LfhtAbs for all inputs and all creation
parameters (LfhtNew) with the bucket memory management of LfhtMm.

  TLC (LfhtGen)  --SEQ/CFG-->  program files  --d_lfht_seq (real rculfhash*.c, ASan+UBSan)-->  ndjson logs
  logs --TLC (LfhtTrace: LfhtAbs + LfhtNew + LfhtMm)--> every record must be explained by the specification.
"""
import os, re, json, time, shutil, random, subprocess, threading, concurrent.futures as cf
from vlib import *
import vlib

LEVEL = "model_checking"
ASSUMPTIONS = [
    "sequential use: one API call at a time; work queued for the resize worker (lazy growth, deferred destroy of AUTO_RESIZE tables) is "
    "executed by the driver's work-queue stub right after the call that queued it returns",
    "RCU flavor and work queue are driver stubs (grace periods are trivial with one thread); the three allocators, rculfhash.c and the "
    "public API are the unmodified sources of $VERIF_REPO compiled with -fsanitize=address,undefined (no URCU_VERIF hooks)",
    "explicit cds_lfht_resize() only with power-of-two (or 0) sizes (non powers of two: C09); fewer than 2^COUNT_COMMIT_ORDER additions per table, "
    "so the global item count never reaches the count-based resize thresholds",
    "64-bit build, 4 KiB pages; hashes handled as four 16-bit limbs in TLC (32-bit integers), table sizes <= 2^16 buckets",
]
MAXV = 3
LOCK = threading.Lock()


def viol_dir(ctx):
    with LOCK:
        return ctx.viol_dir()


def violation(ctx, what, d):
    with LOCK:
        if len(ctx.violations) >= MAXV:      # enough reported (jobs run side by side)
            shutil.rmtree(d, ignore_errors=True)
            return
        ctx.violation(what, d)

ALL_OPS = ["add", "addu", "addr", "repl", "del", "deli", "delx", "isdel", "lookup", "lookupx", "ndup", "ndupx", "first", "next", "count", "resize", "destroy"]
SCENARIOS = ["lfhtseq_equal", "lfhtseq_high", "lfhtseq_edge", "lfhtseq_small", "lfhtseq_mixed"]
GRID_VALS = [0, 1, 2, 3, 4, 8, 16, 64, 96, 256, 512]
SWEEP_VALS_Q = [0, 1, 2, 16, 512]
SWEEP_VALS_T = [0, 1, 2, 4, 8, 16, 64, 256, 512]
MMS = ["order", "chunk", "mmap", "default"]
OPCODE = {"add": "a", "addu": "u", "addr": "p", "repl": "r", "del": "d", "deli": "D", "delx": "x", "isdel": "q", "lookup": "l", "ndup": "n",
          "first": "f", "next": "t", "count": "c", "resize": "z", "destroy": "y"}


# ------------------------------------------------------------------ build (own call: ASan/UBSan instead of the VSCHED runtime)
def build(tag="C08_d_lfht_seq"):
    bdir = os.path.join(BUILD, tag)
    os.makedirs(bdir, exist_ok=True)
    exe = os.path.join(bdir, "d_lfht_seq")
    repo = vlib.REPO
    base = ["gcc", "-g", "-O1", "-fno-omit-frame-pointer", "-fsanitize=address,undefined", "-fno-sanitize-recover=all", "-D_GNU_SOURCE",
            "-Wall", "-Wno-unused-function", "-Wno-unused-variable"] + config_h_flags(bdir) + ["-I", os.path.join(repo, "include"), "-I", os.path.join(repo, "src")]
    units = [(os.path.join(HARNESS, "d_lfht_seq.c"), []), (os.path.join(repo, "src", "rculfhash-mm-order.c"), []),
             (os.path.join(repo, "src", "rculfhash-mm-chunk.c"), []),
             (os.path.join(repo, "src", "rculfhash-mm-mmap.c"), ["-Dmmap=rec_mmap", "-Dmunmap=rec_munmap"])]
    objs = []

    def cc(u):
        src, extra = u
        o = os.path.join(bdir, os.path.basename(src) + ".o")
        r = sh(base + extra + ["-c", src, "-o", o], capture_output=True, text=True)
        if r.returncode:
            raise RuntimeError("driver build failed (%s):\n%s" % (src, r.stderr[-4000:]))
        return o
    with cf.ThreadPoolExecutor(4) as ex:
        objs = list(ex.map(cc, units))
    r = sh(["gcc", "-fsanitize=address,undefined", "-o", exe] + objs + ["-lpthread"], capture_output=True, text=True)
    if r.returncode:
        raise RuntimeError("driver link failed:\n" + r.stderr[-4000:])
    return exe


def get_plat(exe):
    rc, so, se = run_driver(exe, ["--plat"], env=SAN_ENV)
    if rc != 0:
        raise RuntimeError("driver --plat failed: " + se[-500:])
    return json.loads(so)


SAN_ENV = {"ASAN_OPTIONS": "detect_leaks=0:abort_on_error=0:exitcode=23", "UBSAN_OPTIONS": "print_stacktrace=1:halt_on_error=1:exitcode=24"}


# ------------------------------------------------------------------ scenarios -> TLA+ constants
def limbs(h):
    return [h & 0xffff, (h >> 16) & 0xffff, (h >> 32) & 0xffff, (h >> 48) & 0xffff]


def hashes(sc):
    return [int(x, 16) for x in sc["hashes"]]


KIND_WEIGHTS = {"add": 3, "addu": 2, "addr": 2, "repl": 2, "del": 2, "deli": 2, "delx": 1, "isdel": 1, "lookup": 3, "lookupx": 1, "ndup": 3, "ndupx": 1,
                "first": 1, "next": 3, "count": 1, "resize": 2, "destroy": 1}


def consts(sc, plat, maxlen, ops=None, keys=None, resize=None, grid=False, quick=True, destroy_after=0, two_level=False):
    g = sc.get("gencfg", {"init": 1, "min": 1, "max": 8, "flags": 1, "mm": "order"})
    c = {"HashOf": tla([limbs(h) for h in hashes(sc)]), "NNodes": str(sc.get("nnodes", 8)),
         "GenCfg": tla(g), "Plat": tla(plat), "MaxLen": str(maxlen),
         "GenKeys": tla(set(keys or range(1, len(sc["hashes"]) + 1))),
         "GenOps": tla(set(ops or ALL_OPS)), "ResizeOrders": tla(set(resize if resize is not None else sc.get("resize_orders", [0, 2]))),
         "DestroyAfter": str(destroy_after), "TwoLevel": tla(two_level), "PrefixLen": str(sc.get("sim_prefix", 4) if two_level else 0),
         "PrefixKinds": tla({"add", "addu", "addr"}),
         "KindSeq": tla([o for o in (ops or ALL_OPS) for _ in range(KIND_WEIGHTS[o])]),
         "GridVals": tla(set(GRID_VALS if grid else [1])), "GridFlags": tla({0, 1, 2, 3} if grid else {0}),
         "GridMms": tla(set(MMS if grid else ["order"])), "SweepFlags": tla({3} if quick else {0, 3}), "SweepAll": tla(not quick),
         "SweepVals": tla(set(SWEEP_VALS_Q if quick else SWEEP_VALS_T) if grid else {1}),
         "SweepOrders": tla(set(range(-1, 12)))}
    return c


def write_mc(mod, extends, c, cfg_lines):
    os.makedirs(GEN, exist_ok=True)
    with open(os.path.join(GEN, mod + ".tla"), "w") as f:
        f.write("---- MODULE %s ----\nEXTENDS %s\n" % (mod, extends) + "\n".join("mc_%s == %s" % kv for kv in c.items()) + "\n====\n")
    with open(os.path.join(GEN, mod + ".cfg"), "w") as f:
        f.write("CONSTANTS\n" + "\n".join("  %s <- mc_%s" % (k, k) for k in c) + "\n" + "\n".join(cfg_lines) + "\n")
    return mod


def tlc_out_items(out, tag):
    res = []
    for m in re.finditer(r'<<"%s", "(.*)">>' % tag, out):
        try:
            res.append(json.loads(m.group(1).replace('\\"', '"')))
        except Exception:
            pass
    return res


def gen_sequences(sc, plat, maxlen, name, simulate=None, seed=1, workers=2, timeout=900, ops=None, keys=None):
    """TLC enumerates (or samples) operation sequences of LfhtAbs; returns (sequences, TlcResult)."""
    c = consts(sc, plat, maxlen, ops=ops or sc.get("ops"), keys=keys, destroy_after=(maxlen - 2) if simulate else 0, two_level=bool(simulate))
    mod = write_mc("C08_%s_%s" % (sc["name"], name), "LfhtGen", c, ["SPECIFICATION SSpec", "INVARIANT AbsInv", "CHECK_DEADLOCK FALSE"])
    extra = ["-seed", str(seed)] if simulate else []
    r = run_tlc(mod, workers=workers, timeout=timeout, simulate=simulate, depth=(3 * maxlen + 8) if simulate else None, extra=extra, heap="4g", tag=mod,
                env={"JAVA_TOOL_OPTIONS": "-XX:ParallelGCThreads=2"})
    seqs = tlc_out_items(r.out, "SEQ")
    if simulate:
        m = re.search(r"The number of states generated: (\d+)", r.out)
        if m:
            r.states = r.distinct = int(m.group(1))
        uniq = {json.dumps(s): s for s in seqs}
        seqs = list(uniq.values())
    return seqs, r


def gen_configs(sc, plat, quick, workers=2, timeout=1500):
    """(b) the full creation-parameter grid with the outcome of LfhtNew!Norm; (c) the allocator sweep over all sizes"""
    c = consts(sc, plat, 0, grid=True, quick=quick)
    mod = write_mc("C08_grid", "LfhtGen", c, ["SPECIFICATION CSpec", "INVARIANT NormOK", "CHECK_DEADLOCK FALSE"])
    r = run_tlc(mod, workers=workers, timeout=timeout, heap="4g", tag=mod)
    return tlc_out_items(r.out, "CFG"), r


def check_mm(sc, plat, quick, workers=2, timeout=3000):
    c = consts(sc, plat, 0, grid=True, quick=quick)
    mod = write_mc("C08_mm", "LfhtGen", c, ["SPECIFICATION MSpec", "INVARIANT AbsInv", "INVARIANT MmOK", "CHECK_DEADLOCK FALSE"])
    return run_tlc(mod, workers=workers, timeout=timeout, heap="4g", tag=mod)


_TMODS = {}


def trace_module(sc, plat):
    mod = "C08_TV_%s" % sc["name"]
    with LOCK:
        if mod in _TMODS:
            return mod
        _TMODS[mod] = True
        return _write_trace_module(mod, sc, plat)


def _write_trace_module(mod, sc, plat):
    t = open(os.path.join(SPEC, "trace", "LfhtTrace.tla.in")).read().replace("@MODULE@", mod)
    c = {"HashOf": tla([limbs(h) for h in hashes(sc)]), "NNodes": str(sc.get("nnodes", 8)), "Plat": tla(plat)}
    t = t.replace("====", "\n".join("tmc_%s == %s" % kv for kv in c.items()) + "\n====")
    with open(os.path.join(GEN, mod + ".tla"), "w") as f:
        f.write(t)
    with open(os.path.join(GEN, mod + ".cfg"), "w") as f:
        f.write("SPECIFICATION TSpec\nCONSTANTS\n" + "\n".join("  %s <- tmc_%s" % (k, k) for k in c) + "\nINVARIANT TypeOK\nINVARIANT Sorted\nINVARIANT CountExact\n"
                "POSTCONDITION Post\nCHECK_DEADLOCK FALSE\n")
    return mod


# ------------------------------------------------------------------ programs
def op_line(o):
    k = o["op"]
    if k in ("add", "addu", "addr", "repl"):
        return "%s %d %d" % (OPCODE[k], o["n"], o["k"])
    if k in ("del", "delx", "isdel"):
        return "%s %d" % (OPCODE[k], o["n"])
    if k == "lookup":
        return "l %d %d" % (o["k"], o["s"])
    if k == "ndup":
        return "n %d" % o["k"]
    if k == "resize":
        return "z %d" % o["s"]
    return OPCODE[k]


def run_lines(rid, cfgt, seq):
    return ["R %d %d %d %d %d %s" % ((rid,) + tuple(cfgt))] + [op_line(o) for o in seq]


def write_program(path, sc, runs):
    """runs: list of (cfg tuple, sequence).  Returns list of line blocks (for replay extraction)."""
    blocks = []
    with open(path, "w") as f:
        hdr = "K %d %s" % (len(sc["hashes"]), " ".join("%016x" % h for h in hashes(sc)))
        f.write(hdr + "\n")
        for i, (cfgt, seq) in enumerate(runs):
            b = run_lines(i + 1, cfgt, seq)
            blocks.append(b)
            f.write("\n".join(b) + "\n")
    return hdr, blocks


SKIPPED = [0]


def exec_program(exe, prog, logp, timeout=600):
    rc, so, se = run_driver(exe, [prog, logp], env=SAN_ENV, timeout=timeout)
    if os.path.exists(logp):
        # an operation of a generated sequence whose API precondition does not hold on the real table under THIS hash assignment (sequences are
        # generated once and replayed under several assignments: e.g. next_duplicate after a walk that ended) is skipped by the driver, which
        # logs a "precond" record instead of executing it; nothing was executed, so there is nothing to explain: the record is dropped
        lines = open(logp).read().split("\n")
        kept = [ln for ln in lines if not ln.startswith('{"op":"precond"')]
        if len(kept) != len(lines):
            SKIPPED[0] += len(lines) - len(kept)
            open(logp, "w").write("\n".join(kept))
    return rc, se


def validate_log(mod, logp, tag, timeout=1500):
    r = run_tlc(mod, workers=1, timeout=timeout, env={"TRACE": logp, "JAVA_TOOL_OPTIONS": "-XX:ParallelGCThreads=2"}, tag=tag, heap="6g")
    m = re.search(r'"MAXL", (\d+), (\d+)', r.out)
    if not m:
        raise RuntimeError("trace validation did not run (%s): %s\n%s" % (mod, r.error, r.out[-2000:]))
    if r.violation or (r.error and not r.ok):
        if r.violation and r.violation.startswith("invariant"):
            return int(m.group(1)), int(m.group(2)), r, r.violation
        raise RuntimeError("trace validation failed (%s): %s\n%s" % (mod, r.violation or r.error, r.out[-2000:]))
    return int(m.group(1)), int(m.group(2)), r, None


def split_runs(logp):
    """[(first record index (1-based), last, run id)] of the executions in a log"""
    res = []
    with open(logp) as f:
        for i, ln in enumerate(f, 1):
            if ln.startswith('{"op":"new"'):
                m = re.search(r'"run":(\d+)', ln)
                res.append([i, i, int(m.group(1))])
            elif res:
                res[-1][1] = i
    return res


# ------------------------------------------------------------------ one job: program -> driver -> TLC
def conformance(ctx, exe, sc, plat, runs, name, wd, kind):
    """Execute `runs` on the real table and validate the log.  Returns number of violations found."""
    if not runs or len(ctx.violations) >= MAXV:
        return
    prog = os.path.join(wd, "prog_%s.txt" % name); logp = os.path.join(wd, "log_%s.ndjson" % name)
    hdr, blocks = write_program(prog, sc, runs)
    mod = trace_module(sc, plat)
    t0 = time.time()
    rc, se = exec_program(exe, prog, logp)
    t1 = time.time()
    ctx.extra["operations_skipped_precondition_false_on_the_real_table"] = SKIPPED[0]
    spans = split_runs(logp) if os.path.exists(logp) else []
    if rc != 0:
        rid = spans[-1][2] if spans else 1
        d = viol_dir(ctx)
        what = ("timeout (call did not return)" if rc == -9 else "AddressSanitizer" if rc == 23 else "UndefinedBehaviorSanitizer" if rc == 24 else
                "driver oracle" if rc == 3 else "crash/assertion (rc=%d)" % rc)
        m = re.search(r"(DRV-FAIL.*|ERROR: AddressSanitizer.*|runtime error:.*|Assertion.*failed.*)", se)
        save_replay(d, sc, hdr, blocks[rid - 1], {"kind": kind, "failure": what, "rc": rc, "stderr": se[-3000:], "run": rid, "job": name})
        violation(ctx, "%s while executing a generated sequence on the real table (scenario %s, %s run %d): %s" % (what, sc["name"], name, rid, m.group(1)[:200] if m else se[-200:]), d)
        # the log up to the failing run is still validated below
        spans = spans[:-1]
        if not spans:
            return
        keep = spans[-1][1]
        lines = open(logp).read().split("\n")[:keep]
        open(logp, "w").write("\n".join(lines) + "\n")
    maxl, total, r, inv = validate_log(mod, logp, "C08_tv_" + name)
    ctx.states += r.distinct; ctx.transitions += r.states
    log("  [conf] %-28s %6d runs %7d records: driver %.1fs, TLC %.1fs, %s" % (name, len(spans), total, t1 - t0, r.wall,
        "accepted" if maxl == total and not inv else "REJECTED at record %d" % (maxl + 1)))
    if maxl == total and not inv:
        ctx.traces += len(spans); ctx.events += total; ctx.replays += len(spans)
        if spans:
            lines = open(logp).read().split("\n")
            a, b, rid = spans[min(len(spans) - 1, 1)]
            ctx.sample({"kind": "%s: TLC-generated input executed on the real table, log accepted by LfhtTrace" % kind, "scenario": sc["name"],
                        "program": blocks[rid - 1][:12], "log": [json.loads(x) for x in lines[a - 1:min(b, a + 5)]]})
        os.unlink(logp); os.unlink(prog)
        return
    # rejected: the execution that owns the first unexplained record
    bad = [s for s in spans if s[0] <= maxl + 1 <= s[1]]
    a, b, rid = bad[0] if bad else spans[-1]
    ctx.traces += len([s for s in spans if s[1] <= maxl]); ctx.events += maxl
    lines = open(logp).read().split("\n")
    one = [lines[0]] + lines[a - 1:b]
    d = viol_dir(ctx)
    tp1 = os.path.join(d, "trace.ndjson"); open(tp1, "w").write("\n".join(one) + "\n")
    m1, t1_, r1, inv1 = validate_log(mod, tp1, "C08_tv_one_" + name)
    shutil.copy(r1.log, os.path.join(d, "tlc.log"))
    k = m1 + 1
    rec = json.loads(one[k - 1]) if k <= len(one) else None
    save_replay(d, sc, hdr, blocks[rid - 1], {"kind": kind, "job": name, "run": rid, "first_unexplained_record_index": k, "first_unexplained_record": rec,
                                               "invariant": inv1, "context": [json.loads(x) for x in one[max(1, k - 5):k - 1]]})
    if m1 == t1_ and not inv1:
        ctx.notes.append("rejection in %s run %d did not repeat in isolation (ignored)" % (name, rid))
        shutil.rmtree(d, ignore_errors=True)
    else:
        short = json.dumps(rec)[:300] if rec else "?"
        violation(ctx, "recorded execution of the real table is not a behaviour of LfhtAbs/LfhtNew/LfhtMm (scenario %s, %s run %d%s): first unexplained record #%d %s" % (
            sc["name"], name, rid, ", invariant %s" % inv1 if inv1 else "", k, short), d)
    # continue with the executions after the rejected one
    rest = runs[rid:]
    if rest and len(ctx.violations) < MAXV:
        conformance(ctx, exe, sc, plat, rest, name + "+", wd, kind)


def save_replay(d, sc, hdr, block, meta):
    meta = dict(meta); meta["scenario"] = sc["name"]
    with open(os.path.join(d, "prog.txt"), "w") as f:
        f.write(hdr + "\n" + "\n".join(block) + "\n")
    json.dump(meta, open(os.path.join(d, "meta.json"), "w"), indent=1)


# ------------------------------------------------------------------ configurations the sequences are executed on
def seq_configs(sc):
    """(init, min, max, flags, mm) tuples: every allocator and flag combination on small tables (buckets shared by the
    adversarial hashes), including max < init and min > init"""
    base = [(1, 1, 8, 0, "order"), (2, 1, 16, 1, "order"), (1, 2, 0, 3, "order"), (4, 1, 4, 2, "order"),
            (1, 1, 8, 1, "chunk"), (2, 2, 16, 0, "chunk"), (8, 1, 4, 3, "chunk"), (1, 4, 2, 2, "chunk"),
            (1, 1, 512, 1, "mmap"), (2, 1, 8, 3, "mmap"), (4, 8, 16, 0, "mmap"), (1, 1, 1, 2, "mmap"),
            (1, 1, 64, 3, "default"), (2, 1, 0, 1, "default"), (16, 1, 512, 0, "default"), (1, 1, 2, 0, "default")]
    return [tuple(x) for x in sc.get("run_cfgs", base) if not explosive(sc, tuple(x))]


def explosive(sc, cfgt):
    """AUTO_RESIZE + practically unbounded max + hashes that never split: the chain-length heuristic would grow the table to 2^33 buckets"""
    return bool(sc.get("unbounded_growth")) and (cfgt[3] & 1) and (cfgt[2] == 0 or cfgt[2] > 4096)


def check_tlc(ctx, r, name, what):
    ctx.add_tlc(r, name)
    if r.violation:
        d = viol_dir(ctx); shutil.copy(r.log, os.path.join(d, "tlc.log"))
        json.dump({"kind": "spec", "module": name}, open(os.path.join(d, "meta.json"), "w"))
        violation(ctx, "TLC: %s violated in %s (%s; counterexample in tlc.log)" % (r.violation, name, what), d)
        return False
    if not r.ok:
        if r.error == "timeout":
            ctx.notes.append("%s: TLC timed out (%d distinct states): not exhaustive" % (name, r.distinct))
            return True
        if "simulate" in what and not r.error:
            return True
        raise RuntimeError("TLC failed on %s: %s\n%s" % (name, r.error, r.out[-1500:]))
    return True


def run(ctx):
    q = ctx.quick()
    wd = os.path.join(ctx.outdir, "work"); shutil.rmtree(wd, ignore_errors=True); os.makedirs(wd)
    exe = build()
    plat = get_plat(exe)
    scs = [load_scenario(s) for s in SCENARIOS]
    only = os.environ.get("VERIF_SCEN")
    if only:
        scs = [s for s in scs if s["name"] in only.split(",")]
    rnd = random.Random(ctx.seed)
    sim_len, sim_n = (12, 200) if q else (16, 5000)     # -simulate num (behaviours per worker); the first 4 operations are additions
    narrow = [o for o in ALL_OPS if o not in ("lookupx", "ndupx")]
    # exhaustive: (name, length, keys, operations)
    plans = [("exh3", 3, [1, 2, 3], narrow), ("exh2", 2, None, ALL_OPS)] if q else [("exh4", 4, [1, 2, 3], narrow), ("exh3", 3, None, ALL_OPS)]
    t0 = time.time()
    # ---- 1. generation (TLC), several TLC processes side by side (2 workers each, 8 in total)
    gen = {}
    with cf.ThreadPoolExecutor(4) as ex:
        futs = {}
        fg = ex.submit(gen_configs, scs[0], plat, q, 2)
        fm = ex.submit(check_mm, scs[0], plat, q, 2)
        for sc in scs:
            for name, ln, keys, ops in plans:
                futs[ex.submit(gen_sequences, sc, plat, ln, name, None, ctx.seed, 2, 6000, ops, keys)] = (sc, name)
            futs[ex.submit(gen_sequences, sc, plat, sim_len, "sim", sim_n, ctx.seed, 2, 3000)] = (sc, "sim")
        for f in cf.as_completed(futs):
            sc, kind = futs[f]
            seqs, r = f.result()
            gen[(sc["name"], kind)] = seqs
            log("  [gen] %-16s %s: %d sequences, %d states, %.0fs" % (sc["name"], kind, len(seqs), r.distinct, r.wall))
            if not check_tlc(ctx, r, "C08_%s_%s" % (sc["name"], kind), "LfhtGen %s" % ("-simulate" if kind == "sim" else "exhaustive")):
                return
            if not seqs:
                raise RuntimeError("TLC generated no sequences for %s/%s:\n%s" % (sc["name"], kind, r.out[-1500:]))
        cfgs, rg = fg.result()
        log("  [gen] configuration grid: %d tuples (%d accepted), %d states, %.0fs" % (len(cfgs), sum(1 for c in cfgs if c["ok"]), rg.distinct, rg.wall))
        if not check_tlc(ctx, rg, "C08_grid", "LfhtGen creation-parameter grid, LfhtNew!NormSane"):
            return
        rm = fm.result()
        log("  [mc]  allocator sweep (LfhtMm, all sizes of %d^3 x flags x allocator configurations): %d states, %.0fs" % (len(SWEEP_VALS_Q if q else SWEEP_VALS_T), rm.distinct, rm.wall))
        if not check_tlc(ctx, rm, "C08_mm", "LfhtMm allocator sweep, AbsInv/MmValid"):
            return
        want = len(GRID_VALS) ** 3 * 4 * len(MMS)
        if len(cfgs) != want:
            raise RuntimeError("configuration grid incomplete: %d of %d tuples" % (len(cfgs), want))
    log("  generation done in %.0fs" % (time.time() - t0))
    ctx.extra["generated"] = {"sequences_exhaustive": sum(len(v) for k, v in gen.items() if k[1] != "sim"),
                              "sequences_simulated": sum(len(v) for k, v in gen.items() if k[1] == "sim"), "configurations": len(cfgs)}
    # ---- 2. programs: sequences x representative configurations; configuration grid x simulated sequences
    work = []
    CH = 6000

    def add_work(sc, runs, name, kind):
        for n in range(0, len(runs), CH):
            work.append((sc, runs[n:n + CH], "%s_%s%s" % (sc["name"][8:], name, "_%d" % (n // CH) if len(runs) > CH else ""), kind))
    for si, sc in enumerate(scs):
        rc = seq_configs(sc)
        for name, ln, keys, ops in plans:
            seqs = gen[(sc["name"], name)]
            off = rnd.randrange(len(rc))
            add_work(sc, [(rc[(i + off) % len(rc)], s) for i, s in enumerate(seqs)], name, "operation sequences (exhaustive to length %d)" % ln)
        seqs = gen[(sc["name"], "sim")]
        off = rnd.randrange(len(rc))
        runs = [(rc[(i + off) % len(rc)], s) for i, s in enumerate(seqs)]
        if not q:
            runs += [(rc[(i * 7 + off + 5) % len(rc)], s) for i, s in enumerate(seqs)]      # long sequences on a second configuration
        add_work(sc, runs, "sim", "operation sequences (tlc -simulate, length %d)" % sim_len)
    # grid: each scenario takes a slice of the tuples, each with one simulated sequence
    order = list(range(len(cfgs))); rnd.shuffle(order)
    slices = [[] for _ in scs]
    for n, j in enumerate(order):
        c = cfgs[j]; si = n % len(scs)
        while explosive(scs[si], (c["init"], c["min"], c["max"], c["flags"], c["mm"])) and any(not s.get("unbounded_growth") for s in scs):
            si = (si + 1) % len(scs)
        slices[si].append(c)
    for si, sc in enumerate(scs):
        sims = gen[(sc["name"], "sim")]
        mine = slices[si]
        runs = [((c["init"], c["min"], c["max"], c["flags"], c["mm"]), sims[rnd.randrange(len(sims))] if c["ok"] else []) for c in mine]
        add_work(sc, runs, "grid", "creation-parameter grid")
    # ---- 3. execute + validate (parallel TLC single-worker validations)
    work.sort(key=lambda w: -len(w[1]))
    with cf.ThreadPoolExecutor(8) as ex:
        futs = [ex.submit(conformance, ctx, exe, sc, plat, runs, name, wd, kind) for sc, runs, name, kind in work]
        for f in futs:
            f.result()
    shutil.rmtree(wd, ignore_errors=True)


def replay(ctx, path):
    meta = json.load(open(os.path.join(path, "meta.json")))
    if meta.get("kind") == "spec":
        log("replay of %s: specification-level counterexample, see tlc.log" % path); return
    sc = load_scenario(meta["scenario"])
    wd = os.path.join(ctx.outdir, "replay_work"); shutil.rmtree(wd, ignore_errors=True); os.makedirs(wd)
    exe = build(); plat = get_plat(exe)
    prog = os.path.join(wd, "prog.txt"); shutil.copy(os.path.join(path, "prog.txt"), prog)
    logp = os.path.join(wd, "log.ndjson")
    rc, se = exec_program(exe, prog, logp)
    if rc != 0:
        d = viol_dir(ctx); shutil.copy(prog, os.path.join(d, "prog.txt")); json.dump(meta, open(os.path.join(d, "meta.json"), "w"), indent=1)
        violation(ctx, "replayed program fails on the real table (rc=%d): %s" % (rc, se[-300:]), d)
    else:
        mod = trace_module(sc, plat)
        maxl, total, r, inv = validate_log(mod, logp, "C08_tv_replay")
        if maxl != total or inv:
            d = viol_dir(ctx); shutil.copy(prog, os.path.join(d, "prog.txt")); shutil.copy(logp, os.path.join(d, "trace.ndjson"))
            json.dump(meta, open(os.path.join(d, "meta.json"), "w"), indent=1)
            rec = open(logp).read().split("\n")[maxl] if maxl < total else ""
            violation(ctx, "replayed execution is not a behaviour of the specification: first unexplained record #%d %s" % (maxl + 1, rec[:300]), d)
    log("replay of %s: %s" % (path, "violation reproduced" if ctx.violations else "no violation on the current tree"))
