"""Stand-alone wrapper: `./check bp_c19` runs only the bulletproof-flavor part of C19 (tools/props/bp_parts.py).
The C19 plugin itself is wired by the coordinator; this file exists so that the part can be run and replayed on its own."""
from props import bp_parts

LEVEL = "model_checking"
ASSUMPTIONS = []


def run(ctx):
    bp_parts.run_c19(ctx)


def replay(ctx, path):
    bp_parts.replay(ctx, path)
