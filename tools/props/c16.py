"""C16: fork() bracketed by the documented handlers leaves parent and child fully functional.

spec/Fork.tla (TLC: AtMostOnce, NoLoss, DeadlockFree, NoErrs [BarrierComplete, NestBalanced, WorkerResumed, ChildRegistry, ChildThreadCrd,
ExplicitResize], NoUaf, NestOK, TypeOK; FairSpec => <>AllDone; one world explored twice: Follow = "P" the parent, Follow = "C"
the child in which every other thread is gone)   <->   harness/d_fork.c (+ d_fork_ht.c): the real src/urcu.c (RCU_MB) /
src/urcu-bp.c with src/urcu-call-rcu-impl.h, and src/rculfhash.c + src/workqueue.c, under VSCHED with a real fork().

Binding: every run records the parent's trace and the child's (<trace>.child); both are projected (tools/fork_common.py) and
validated against spec/trace/ForkTrace.tla.in -- the parent with Follow = "P", the child as "parent prefix up to the fork event +
child suffix" with Follow = "C" -- with and without software store buffers.  Driver-level oracles run in both processes.
Negative controls: a corrupted field of a recorded trace must be rejected; TLC must find the violation of fork WITHOUT the
handlers and of the model-level mutants (nosplice, joinold, nopausedwait, keepold, noprune, nestpost, noinitlock).

Tiers: quick = TLC on fork_crcu1 / fork_ht2 / fork_bp0 (P and C, liveness of the two child configurations with a daemon that never
sleeps / a pruned registry) + conformance of those and of fork_bp_reg, fork_ht1 (10 seeds x SC/TSO, parent and
child trace each) + qsbr at oracle level + 2 TLC negative controls.  thorough = TLC (safety + liveness) on every golden scenario,
150 seeds x SC/TSO each, all negative controls.  C16_SKIP_MC=1 skips the TLC configurations (development knob for mutation runs).

Mutation experiments on scratch copies of the library (tools/seedtest.sh, all detected, see the builder's report):
  after_fork_child drops the inherited queues            -> ORACLE rcu_barrier returned before callback n1 (child), exit status 3
  after_fork_child joins the old helper threads          -> DEADLOCK in the child (runtime: join on a gone thread never completes)
  before_fork does not wait for PAUSED                   -> child BUDGET / DEADLOCK (callback spliced by the helper at fork time is lost)
  before_fork does not wake the helpers                  -> parent BUDGET (sleeping helper never pauses) / trace rejected
  helper does not unregister before PAUSED               -> CRASH (double registration assert) / BUDGET
  after_fork_child keeps default_call_rcu_data           -> DEADLOCK in the child (callbacks queued on a helper that does not exist)
  after_fork_child does not reset thread_call_rcu_data   -> ORACLE child: thread_call_rcu_data not reset (fork_crcu3)
  urcu_bp_after_fork_child does not prune                -> ORACLE child registry holds 2 slots
  urcu_bp handlers without init_lock (fix 534a091 reverted) -> every fork_bp_reg trace rejected at `lock gp.lock` (+ child DEADLOCK on some schedules)
  cds_lfht_after_fork_parent nesting test inverted       -> parent BUDGET (worker stays paused, queue never drains)
  urcu_workqueue_create_worker keeps PAUSE               -> child BUDGET (new worker pauses for ever)
"""
import os, json, re, shutil, copy
from vlib import *
import conc
import fork_common as fc

LEVEL = "model_checking"
# label coverage (pc values reached, collected with a TLCSet register over the golden configurations; GNext quantifies over a state-dependent set,
# so TLC's per-action coverage cannot be used): all 216 labels are reached except fs_e2 / fs_lt -- the retry path of the child's splice of an
# inherited queue, reachable only with a half-linked inherited queue (informational scenario fork_bp_enq, DESIGN observation O3)
LABELS_NOT_REACHED_IN_GOLDEN = ["fs_e2", "fs_lt"]
W = 4
from props import wq_parts
ASSUMPTIONS = [
    "serialised execution of the real code: scheduling points are the hooked shared accesses, fences and blocking calls; fork() is a real fork() from a model thread: "
    "the child keeps only the caller, mutexes owned by other threads stay owned, store buffers of other threads are lost",
    "parent and child are explored as two configurations of one specification (Follow = P / C): after fork() the two processes share no state",
    "the grace period is abstract (every read-side section of a REGISTERED reader that is open when synchronize_rcu starts has ended when it returns); its "
    "implementation runs for real in the driver but is verified by C01/C02; wfcqueue internals by C10; call_rcu / rcu_barrier details by C03/C04",
    "flavors: mb (urcu.c, RCU_MB) and bp (urcu-bp.c, sys_membarrier available) at model level; memb shares all handler code with mb; qsbr only at the level of the "
    "driver's oracles (scenario fork_qsbr1, forking thread offline around the handlers)",
    "as documented for the non-bp flavors no application thread other than the forking one is registered or inside the library at fork time; "
    "bp environment: at the fork instant other threads may be registered, inside read-side sections (held across the fork), registering or exiting "
    "(init_lock is held across the fork since repair 534a091), but NOT inside call_rcu() / defer_rcu() / synchronize_rcu() (updater-side operations "
    "no handler can exclude: DESIGN observation O3, informational scenario fork_bp_enq)",
    "the forking thread calls the handlers OUTSIDE any read-side critical section (as rcu_barrier() requires, C04); for qsbr this means offline or unregistered "
    "from call_rcu_before_fork() until the after-fork handler has returned (DESIGN observation O4: an online qsbr forking thread dead-locks before_fork against a helper's grace period)",
    "hash table: one table, one possible CPU (no partition threads), growing only; helper-selection state (per-thread / per-CPU pointers) is changed only by the thread that uses it",
    "futex values below -2 are identified with -2 (the code only compares with -1 and stores 0)",
    "bounds: <= 2 scenario threads (+ 1 in thorough), <= 3 call_rcu_data, <= 3 callbacks, one fork per execution, store buffers <= 1 (TLC) / 32 (traces)",
]
INV = ["AtMostOnce", "NoLoss", "DeadlockFree", "NoErrs", "NoUaf", "NestOK", "TypeOK"]
TRACE_INV = ["AtMostOnce", "NoErrs", "NoUaf", "NestOK"]
RESET = {"t": "-", "op": "reset", "var": "-", "a": "-", "b": "-", "r": "-"}

# quick: model checked AND conformance-checked
QUICK = ["fork_crcu1", "fork_ht2", "fork_bp0"]
# quick: conformance only (their TLC configurations -- 0.2M..1.1M states -- run in the thorough tier)
QUICK_CONF_ONLY = ["fork_bp_reg", "fork_ht1", "fork_crcu3", "fork_ht4"]     # fork_crcu3: per-thread helper only, no default helper at fork time
THOROUGH = ["fork_crcu0", "fork_bp1", "fork_crcu2", "fork_crcu4", "fork_ht3", "fork_bp2", "fork_ht4"]
# negative controls for TLC: (scenario, follow, mutants, acceptable violations)
NEG_QUICK = [("fork_nohandlers", "C", (), None), ("fork_bp0", "C", ("noprune",), None)]
NEG_THOROUGH = [("fork_bp_reg", "C", ("noinitlock",), None), ("fork_crcu1", "C", ("nosplice",), None), ("fork_crcu1", "C", ("joinold",), None), ("fork_crcu1", "C", ("nopausedwait",), None),
                ("fork_crcu1", "C", ("keepold",), None), ("fork_ht2", "P", ("nestpost",), None)]
INFO_SCEN = [("fork_bp_enq", "O3")]
# driver-level oracles only (no trace validation: the flavor's reader protocol is not modelled)
ORACLE_ONLY = ["fork_qsbr1"]

BUILDS = {"mb": ((), False), "bp": (("FORK_BP",), False), "mb_ht": (("FORK_HT",), True), "qsbr": (("FORK_QSBR",), False)}
COMMON_DEFS = ("URCU_VERIF_RCU_QS_ACTIVE_ATTEMPTS=2", "URCU_VERIF_URCU_WAIT_ATTEMPTS=2")
MM = ("rculfhash-mm-order.c", "rculfhash-mm-chunk.c", "rculfhash-mm-mmap.c")
_EXES = {}


def build_key(sc):
    fl = sc.get("flavor", "mb")
    return fl + ("_ht" if sc.get("ht") else "")


def exe_for(ctx, sc):
    k = build_key(sc)
    if k not in _EXES:
        defs, ht = BUILDS[k]
        extra = (["d_fork_ht.c"] + [os.path.join(REPO, "src", f) for f in MM]) if ht else []
        _EXES[k] = build_driver("d_fork_" + k, "d_fork.c", defines=tuple(defs) + COMMON_DEFS, extra_src=extra, tag=ctx.pid + "_d_fork_" + k)
    return _EXES[k]


# ------------------------------------------------------------------ TLC
def mc_consts(sc, follow, mut=()):
    c = fc.consts(sc, follow, mut); c["TSO"] = "TRUE"; c["Tracing"] = "FALSE"
    return c


def model_check(ctx, sc, follow, timeout=3000, mut=(), expect_violation=False):
    c = mc_consts(sc, follow, mut)
    mod = gen_mc(sc, "mc" + follow + "".join("_" + m for m in mut), c,
                 cfg_lines=["SPECIFICATION GSpec"] + ["INVARIANT " + i for i in INV] + ["CONSTRAINT SBBound", "CHECK_DEADLOCK FALSE"])
    r = run_tlc(mod, workers=W, coverage=False, timeout=timeout, heap="8g")
    if expect_violation:       # negative control: counted, but not listed among the configurations of the claim (it is incomplete by design)
        ctx.states += r.distinct; ctx.transitions += r.states
    else:
        ctx.add_tlc(r, mod, {k: v for k, v in c.items() if len(v) < 200})
    log("  [TLC] %s %s%s: %d distinct states, depth %d, %.0fs, %s" % (sc["name"], follow, (" mutants " + ",".join(mut)) if mut else "", r.distinct, r.depth, r.wall,
                                                                     "ok" if r.ok else (r.violation or r.error)))
    if expect_violation:
        return r
    if r.violation:
        d = ctx.viol_dir(); shutil.copy(r.log, os.path.join(d, "tlc.log"))
        json.dump({"scenario": sc["name"], "kind": "tlc", "follow": follow, "module": mod}, open(os.path.join(d, "meta.json"), "w"), indent=1)
        ctx.violation("TLC: %s violated in %s (design-level counterexample in tlc.log)" % (r.violation, mod), d)
    elif not r.ok:
        if r.error == "timeout":
            ctx.notes.append("%s: TLC timed out after %ds with %d distinct states (not exhaustive)" % (mod, timeout, r.distinct))
        else:
            raise RuntimeError("TLC failed on %s: %s\n%s" % (mod, r.error, r.out[-1500:]))
    return r


def liveness_check(ctx, sc, follow, timeout=3000):
    c = mc_consts(sc, follow)
    mod = gen_mc(sc, "live" + follow, c, cfg_lines=["SPECIFICATION FairSpec", "PROPERTY Live", "CHECK_DEADLOCK FALSE"])
    r = run_tlc(mod, workers=W, timeout=timeout, heap="8g")
    ctx.add_tlc(r, mod, {"property": "FairSpec => <>AllDone", "Follow": follow})
    log("  [TLC] %s %s liveness: %d distinct states, %.0fs, %s" % (sc["name"], follow, r.distinct, r.wall, "ok" if r.ok else (r.violation or r.error)))
    if r.violation:
        d = ctx.viol_dir(); shutil.copy(r.log, os.path.join(d, "tlc.log"))
        json.dump({"scenario": sc["name"], "kind": "tlc", "follow": follow, "module": mod, "live": True}, open(os.path.join(d, "meta.json"), "w"), indent=1)
        ctx.violation("TLC: liveness (every operation after the fork terminates) violated in %s: %s" % (mod, r.violation), d)
    elif not r.ok:
        if r.error == "timeout":
            ctx.notes.append("%s: liveness check timed out after %ds" % (mod, timeout))
        else:
            raise RuntimeError("TLC failed on %s: %s\n%s" % (mod, r.error, r.out[-1500:]))


def negative_mc(ctx, scn, follow, mut, timeout=1500):
    """TLC must find a violation (fork without the handlers / model-level mutant): otherwise the invariants are vacuous -> machinery error"""
    sc = load_scenario(scn)
    r = model_check(ctx, sc, follow, timeout=timeout, mut=mut, expect_violation=True)
    if not r.violation:
        raise RuntimeError("negative control %s %s %s: TLC found NO violation (%s)" % (scn, follow, ",".join(mut), r.error or "ok"))
    ctx.extra.setdefault("negative_controls_tlc", []).append({"scenario": scn, "follow": follow, "mutants": list(mut), "violation": r.violation,
                                                             "distinct_states": r.distinct})


# ------------------------------------------------------------------ running the driver
def run_env(sc, seed):
    return {"VRT_MODE": sc.get("mode") or ("uniform" if seed % 3 == 2 else "pct"), "VRT_DEPTH": 1 + seed % 4, "VRT_LEN": 300, "VRT_BUDGET": sc.get("budget", 60000)}


def run_driver_pg(exe, args, env=None, timeout=60):
    """like vlib.run_driver, but in its own process group: on a timeout the forked child is killed too (nothing is left running)"""
    import subprocess, signal
    e = dict(os.environ)
    if env:
        e.update({k: str(v) for k, v in env.items()})
    p = subprocess.Popen([exe] + [str(a) for a in args], env=e, stdout=subprocess.PIPE, stderr=subprocess.PIPE, text=True, start_new_session=True)
    try:
        so, se = p.communicate(timeout=timeout)
        return p.returncode, so, se
    except subprocess.TimeoutExpired:
        try:
            os.killpg(p.pid, signal.SIGKILL)
        except OSError:
            pass
        p.communicate()
        return -9, "", "TIMEOUT (hung outside the scheduler)"
    finally:
        try:
            os.killpg(p.pid, signal.SIGKILL)      # a child that outlived its parent (never on a normal run: the parent waits for it)
        except OSError:
            pass


def run_one(exe, sc, tso, seed, wd, env_extra=None, tag="t"):
    pf = os.path.join(wd, "prog_%s.txt" % sc["name"])
    with open(pf, "w") as f:
        f.write(fc.program(sc))
    tp = os.path.join(wd, "%s_%s_%d_%d.ndjson" % (tag, sc["name"], tso, seed))
    for p in (tp, tp + ".child"):
        if os.path.exists(p):
            os.unlink(p)
    env = run_env(sc, seed)
    if env_extra:
        env.update(env_extra)
    rc, so, se = run_driver_pg(exe, [seed, tso, tp, pf], env=env, timeout=sc.get("run_timeout", 60))
    pe = read_trace(tp) if os.path.exists(tp) else []
    ce = read_trace(tp + ".child") if os.path.exists(tp + ".child") else None
    return {"seed": seed, "tso": tso, "rc": rc, "stderr": se[-600:], "trace": tp, "env": env, "scenario": sc["name"], "parent": pe, "child": ce, "prog": pf}


def save_run(d, r):
    for src, dst in ((r["trace"], "trace.ndjson"), (r["trace"] + ".child", "trace.child.ndjson"), (r["prog"], "prog.txt")):
        if os.path.exists(src):
            shutil.copy(src, os.path.join(d, dst))
    meta = {k: r[k] for k in ("scenario", "seed", "tso", "rc", "stderr", "env")}
    json.dump(meta, open(os.path.join(d, "meta.json"), "w"), indent=1)
    return meta


def cleanup_run(r):
    for p in (r["trace"], r["trace"] + ".child"):
        if os.path.exists(p):
            os.unlink(p)


def report_failure(ctx, r, key=None):
    if r["rc"] == 2 and "VRT-FAIL" not in r["stderr"]:
        raise RuntimeError("driver setup error (scenario %s seed %d): %s" % (r["scenario"], r["seed"], r["stderr"][-300:]))
    d = ctx.viol_dir(); save_run(d, r)
    m = re.findall(r"VRT-FAIL (.*)", r["stderr"])
    ctx.violation("oracle failure on the real code: %s (scenario %s seed %d tso=%d rc=%d)" % (" | ".join(m) if m else r["stderr"][-200:], r["scenario"], r["seed"], r["tso"], r["rc"]), d, key=key)


def trace_module(sc, follow):
    """one trace module (TSO instance) per scenario and process: executions recorded without software store buffers are validated
    against it too, as TSO behaviours in which every store is committed at once (fork_common.project(sc_as_tso=True))"""
    c = fc.consts(sc, follow); c["TSO"] = "TRUE"; c["Tracing"] = "TRUE"; c["SBMax"] = "32"; c["__spec__"] = "Fork"
    return gen_trace_module("ForkTrace", "Fork", "TV_%s_%s" % (sc["name"], follow), c, invariants=TRACE_INV)


def projected(sc, r, follow):
    fl = sc.get("flavor", "mb"); sc_run = r["tso"] == 0
    if follow == "P":
        return fc.project(r["parent"], fl, sc_as_tso=sc_run)
    return fc.project(fc.child_trace(r["parent"], r["child"]), fl, sc_as_tso=sc_run)


_REJECTIONS = [0]


def validate(ctx, sc, follow, runs, wd, tag):
    """validate the parent (follow = P) or child (follow = C) executions of `runs` in one TLC run; on rejection locate the execution"""
    runs = [r for r in runs if follow == "P" or r["child"] is not None]
    if not runs or len(ctx.violations) >= conc.MAXV or _REJECTIONS[0] >= conc.MAXV:     # (the anchor coverage pass records no violations)
        return
    mod = trace_module(sc, follow)
    allev = []; bounds = []
    for r in runs:
        n = projected(sc, r, follow)
        bounds.append((len(allev) + 1, len(allev) + len(n), r))
        allev += n + [RESET]
    tp = os.path.join(wd, "%s.ndjson" % tag)
    write_ndjson(tp, allev)
    v = validate_trace_file(mod, tp, tag=tag, timeout=900)
    if v.error:
        raise RuntimeError("trace validation failed to run (%s): %s\n%s" % (mod, v.error, v.tlc.out[-1500:]))
    ctx.states += v.tlc.distinct; ctx.transitions += v.tlc.states
    if v.accepted:
        ctx.traces += len(runs); ctx.events += len(allev) - len(runs)
        return
    _REJECTIONS[0] += 1
    pos = v.maxl
    bad = None
    for lo, hi, r in bounds:
        if lo <= pos <= hi + 1:
            bad = (lo, hi, r)
    lo, hi, r = bad if bad else bounds[-1]
    ctx.traces += len([b for b in bounds if b[1] < pos])
    one = allev[lo - 1:hi]
    d = ctx.viol_dir()
    tp1 = os.path.join(d, "projected.%s.ndjson" % follow); write_ndjson(tp1, one)
    v1 = validate_trace_file(mod, tp1, tag=tag + "_one", timeout=300)
    rest = [b[2] for b in bounds if b[0] > hi]
    if v1.accepted:
        ctx.notes.append("rejection of seed %d (%s) did not repeat in isolation (ignored)" % (r["seed"], follow))
        shutil.rmtree(d, ignore_errors=True)
        return validate(ctx, sc, follow, rest, wd, tag)
    shutil.copy(v1.tlc.log, os.path.join(d, "tlc.log"))
    meta = save_run(d, r)
    k = v1.maxl
    meta.update({"follow": follow, "trace_module": mod, "first_unmatched_event_index": k, "first_unmatched_event": one[k - 1] if 0 < k <= len(one) else None,
                 "context": one[max(0, k - 6):k]})
    json.dump(meta, open(os.path.join(d, "meta.json"), "w"), indent=1)
    who = "parent" if follow == "P" else "child"
    if v1.violation:
        ctx.violation("property invariant %s violated on a recorded %s execution of the real code (scenario %s, seed %d, tso=%d)" % (v1.violation, who, sc["name"], r["seed"], r["tso"]), d)
    else:
        ctx.violation("recorded %s execution is not a behaviour of Fork: scenario %s seed %d tso=%d, first unexplained event #%d %s" % (
            who, sc["name"], r["seed"], r["tso"], k, json.dumps(meta["first_unmatched_event"])), d)
    if rest and len(ctx.violations) < conc.MAXV:
        validate(ctx, sc, follow, rest, wd, tag)


def conformance(ctx, sc, nseeds, wd):
    exe = exe_for(ctx, sc)
    good = []
    for tso in (0, 1):
        seeds = [ctx.seed * 100003 + tso * 1000 + i for i in range(nseeds)]
        first = True
        for s in seeds:
            r = run_one(exe, sc, tso, s, wd)
            if r["rc"] != 0:
                if len(ctx.violations) < conc.MAXV:
                    report_failure(ctx, r)
                cleanup_run(r)
                continue
            if r["child"] is None and any(o["op"] == "fork" for ops in sc["threads"].values() for o in ops):
                raise RuntimeError("scenario %s seed %d: no child trace recorded" % (sc["name"], s))
            good.append(r)
            if first:
                first = False
                ctx.sample({"kind": "recorded parent execution of the real code (projected, first events)", "scenario": sc["name"], "tso": tso, "seed": s,
                            "events": projected(sc, r, "P")[:12]})
                if r["child"] is not None:
                    ctx.sample({"kind": "recorded child execution (projected, first events after the fork)", "scenario": sc["name"], "tso": tso, "seed": s,
                                "events": fc.project(r["child"], sc.get("flavor", "mb"))[:12]})
    if len(ctx.violations) < conc.MAXV:
        validate(ctx, sc, "P", good, wd, "tv_%s_P" % sc["name"])
        validate(ctx, sc, "C", good, wd, "tv_%s_C" % sc["name"])
    if good and sc.get("neg") and not ctx.violations:
        negative_trace_control(ctx, sc, [r for r in good if r["tso"] == 0], wd)
    for r in good:
        cleanup_run(r)
    log("  [conf] %s: traces validated so far %d (parent + child), events %d, violations %d" % (sc["name"], ctx.traces, ctx.events, len(ctx.violations)))


def negative_trace_control(ctx, sc, runs, wd):
    """corrupt one field of accepted executions -> the trace specification must reject; otherwise machinery error"""
    res = []
    for follow, pick, what in (("C", lambda e: e["op"] == "xchg" and e["var"].endswith(".tail") and e["a"].startswith("n"), "child: node spliced into the new default queue"),
                               ("P", lambda e: e["op"] == "or" and e["var"].endswith(".flags"), "parent: value of the flags word after uatomic_or(PAUSE/PAUSED)")
                               ):
        for r in runs:
            if follow == "C" and r["child"] is None:
                continue
            ev = projected(sc, r, follow)
            if follow == "C":
                k0 = next((i for i, e in enumerate(ev) if e["op"] == "fork"), 0)
            else:
                k0 = 0
            idx = [i for i, e in enumerate(ev) if i >= k0 and pick(e)]
            if not idx:
                continue
            bad = copy.deepcopy(ev); e = bad[idx[0]]
            if e["op"] == "xchg":
                e["a"] = "n9"
            elif e["op"] == "or":
                e["r"] = str(int(e["r"]) + 64)
            else:
                e["var"] = "n9"
            mod = trace_module(sc, follow)
            tp = os.path.join(wd, "neg.ndjson"); write_ndjson(tp, bad)
            v = validate_trace_file(mod, tp, tag="tv_neg_" + sc["name"], timeout=300)
            if v.error:
                raise RuntimeError("negative control failed to run: %s" % v.error)
            if v.accepted:
                raise RuntimeError("negative control: corrupted trace (%s, seed %d) was ACCEPTED" % (what, r["seed"]))
            res.append({"corruption": what, "rejected_at_event": v.maxl, "of": v.total, "seed": r["seed"]})
            break
    ctx.extra.setdefault("negative_controls_trace", []).append({"scenario": sc["name"], "results": res})


def informational(ctx, wd, nseeds):
    """DESIGN observation O3 (outside the quantification of C16: another bp thread INSIDE call_rcu() -- between the two steps of the
    wait-free enqueue -- at the fork instant leaves a half-linked queue in the child).  Informational experiment only: its outcome goes to
    the evidence notes and never affects the verdict or the exit status."""
    for scn, what in INFO_SCEN:
        sc = load_scenario(scn)
        exe = exe_for(ctx, sc)
        hits = []
        for i in range(nseeds):
            s = ctx.seed * 100003 + 5000 + i
            r = run_one(exe, sc, 0, s, wd, tag="o")
            if r["rc"] != 0:
                hits.append(s)
            cleanup_run(r)
        ctx.notes.append("observation %s %s: %d of %d schedules of %s end with the child not completing (informational, outside the claim)" % (
            what, "reproduced" if hits else "not reproduced in this run", len(hits), nseeds, scn))
        ctx.extra.setdefault("observations", []).append({"scenario": scn, "observation": what, "runs": nseeds, "runs_child_not_completing": len(hits), "example_seeds": hits[:5]})
        log("  [info] %s (%s): %d of %d schedules: child does not complete (informational)" % (scn, what, len(hits), nseeds))


def oracle_only(ctx, wd, nseeds):
    for scn in ORACLE_ONLY:
        sc = load_scenario(scn); exe = exe_for(ctx, sc); ok = 0
        for tso in (0, 1):
            for i in range(nseeds):
                r = run_one(exe, sc, tso, ctx.seed * 100003 + 7000 + tso * 1000 + i, wd, tag="q")
                if r["rc"] != 0:
                    if len(ctx.violations) < conc.MAXV:
                        report_failure(ctx, r)
                elif r["child"] is None:
                    raise RuntimeError("scenario %s: no child trace recorded" % scn)
                else:
                    ok += 1
                cleanup_run(r)
        ctx.extra.setdefault("oracle_level_runs", {})[scn] = {"runs": 2 * nseeds, "passed": ok}
        log("  [oracle] %s: %d of %d executions (parent + child) passed the driver-level oracles" % (scn, ok, 2 * nseeds))


def run(ctx):
    q = ctx.quick()
    ctx.extra["labels_not_reached_in_golden_configs"] = LABELS_NOT_REACHED_IN_GOLDEN
    wd = os.path.join(ctx.outdir, "work"); shutil.rmtree(wd, ignore_errors=True); os.makedirs(wd)
    only = os.environ.get("VERIF_SCEN")
    scen = QUICK + QUICK_CONF_ONLY + ([] if q else THOROUGH)
    for scn in scen:
        if only and scn not in only.split(","):
            continue
        if len(ctx.violations) >= conc.MAXV:
            break
        sc = load_scenario(scn)
        if not (q and scn in QUICK_CONF_ONLY) and not os.environ.get("C16_SKIP_MC"):     # C16_SKIP_MC: development knob (mutation experiments)
            for follow in ("P", "C"):
                model_check(ctx, sc, follow, timeout=900 if q else 6000)
                if sc.get("live") and (not q or (sc.get("live") == "quick" and follow == "C")):
                    liveness_check(ctx, sc, follow, timeout=900 if q else 6000)
        else:
            ctx.notes.append("%s: conformance only in the quick tier (its TLC configurations run in the thorough tier)" % scn)
        conformance(ctx, sc, nseeds=sc.get("nseeds_quick", 10) if q else 150, wd=wd)
    if not only:
        for scn, follow, mut, _ in NEG_QUICK + ([] if q else NEG_THOROUGH):
            negative_mc(ctx, scn, follow, mut)
        oracle_only(ctx, wd, 10 if q else 150)
        informational(ctx, wd, 30 if q else 300)
    shutil.rmtree(wd, ignore_errors=True)
    # the work queue's pause / resume handshake with queued and flushed work at full granularity (spec/Workqueue.tla <-> real src/workqueue.c)
    if len(ctx.violations) < conc.MAXV:
        ctx.assumptions += [a for a in wq_parts.ASSUMPTIONS if a not in ctx.assumptions]
        wq_parts.run_c16(ctx)


def replay(ctx, path):
    if wq_parts.is_mine(path):
        return wq_parts.replay_c16(ctx, path)
    meta = json.load(open(os.path.join(path, "meta.json")))
    sc = load_scenario(meta["scenario"])
    if meta.get("kind") == "tlc":
        (liveness_check if meta.get("live") else model_check)(ctx, sc, meta["follow"])
        log("replay of %s: %s" % (path, "violation reproduced" if ctx.violations else "no violation on the current tree"))
        return
    wd = os.path.join(ctx.outdir, "replay_work"); shutil.rmtree(wd, ignore_errors=True); os.makedirs(wd)
    r = run_one(exe_for(ctx, sc), sc, meta["tso"], meta["seed"], wd, env_extra=meta.get("env"))
    if r["rc"] != 0:
        report_failure(ctx, r)
    else:
        validate(ctx, sc, "P", [r], wd, "tv_replay_P")
        validate(ctx, sc, "C", [r], wd, "tv_replay_C")
    log("replay of %s: %s" % (path, "violation reproduced" if ctx.violations else "no violation on the current tree"))
