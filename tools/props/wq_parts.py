"""Work queue (src/workqueue.c, include/urcu/ref.h) parts of C09 and C16.

  run_c09(ctx)  "a table whose resizes are still queued can be destroyed safely once empty": what cds_lfht_destroy() /
                cds_lfht_exit() rely on: urcu_workqueue_queue_work / flush_queued_work (completion object, reference count,
                completion futex) / urcu_workqueue_destroy (STOP, wake, join, emptiness assertion, free) / the worker loop
  run_c16(ctx)  urcu_workqueue_pause_worker / resume_worker (before-fork / after-fork-parent handlers of rculfhash) with work
                queued, flushed and executed around the pause; create from a scenario thread
                (the after-fork-child path, urcu_workqueue_create_worker in a forked child, is covered by spec/Fork.tla)
  replay(ctx, path), is_mine(path)

Spec spec/Workqueue.tla, driver harness/d_workqueue.c (the real src/workqueue.c), trace spec spec/trace/WorkqueueTrace.tla.in,
scenarios scenarios/wq_*.json, shared code tools/wq_common.py.  Same contract as a cNN.run(ctx)."""
import os, json
from vlib import *
import conc
import wq_common as wc

ASSUMPTIONS = [
    "workqueue: x86-TSO memory model (lock-prefixed read-modify-writes drain the store buffer: the cmm_smp_mb() that follow them in workqueue.c are "
    "redundant on this architecture and dropping one is not observable); compiler honours volatile/atomic accesses and asm barriers",
    "workqueue: serialised execution: scheduling points are the hooked shared accesses and blocking calls; poll() / caa_cpu_relax() are scheduling hints only",
    "workqueue: API contract taken from the only in-tree user (rculfhash): urcu_workqueue_destroy() is called after urcu_workqueue_flush_queued_work() by a thread that "
    "has joined every other user of the queue (destroy without flush can abort on the emptiness assertion: scenario wq_neg_noflush, a negative control); a work item is "
    "queued at most once; callbacks terminate; one work queue at a time",
    "workqueue: the two calloc()s of a flush are folded into its call step; plain initialisation in urcu_workqueue_create and the plain `flags &= ~STOP; tid = 0` after "
    "the join are silent steps; set_thread_cpu_affinity (cpu_affinity = -1) and the optional worker callbacks other than initialize / finalize are not exercised",
    "workqueue bounds: <= 3 scenario threads, <= 4 operations each, <= 2 user work items + 2 completions, store buffers <= 2 entries (TLC), spurious/EINTR budget <= 2",
    "workqueue: urcu_workqueue_create_worker (fork child) is not part of this component (spec/Fork.tla models it)",
]

# quick: < ~1M distinct states in total
C09_QUICK = ["wq_q1f", "wq_destroy", "wq_destroy_2t", "wq_requeue", "wq_flush_race"]
C09_THOROUGH = ["wq_spur", "wq_2q_flush", "wq_create", "wq_create_2t", "wq_rt", "wq_rt_destroy", "wq_2flush", "wq_3t"]
C16_QUICK = ["wq_pause", "wq_pause_flush", "wq_create_2t"]
C16_THOROUGH = ["wq_pause_2q", "wq_pause_spur", "wq_rt_pause"]
# model-level negative controls: (scenario, mutants, expected violation, tso)
NEG_QUICK = [("wq_q1f", ["wakefirst"], "deadlock", True), ("wq_q1f", ["noref"], "uaf", True), ("wq_q1f", ["nocount"], "FlushGuarantee", True),
             ("wq_q1f", ["plaindec", "nombwait"], "deadlock", True), ("wq_destroy", ["nojoin"], "WorkerAliveAtFree", True),
             ("wq_neg_noflush", [], "DestroyNonEmpty", True)]
NEG_THOROUGH = [("wq_q1f", ["countfirst"], "deadlock", True), ("wq_q1f", ["putfirst"], "uaf", True), ("wq_q1f", ["unsafeiter"], "uaf", True),
                ("wq_q1f", ["latedec"], "deadlock", True), ("wq_destroy", ["nostopwake"], "deadlock", True)]
# mutants that are NOT observable (thorough tier: they must model check clean; recorded in the evidence):
#   nombwait    the cmm_smp_mb() after the lock-prefixed futex decrement in urcu_workqueue_wait_completion is redundant on x86-TSO
#               (it becomes necessary as soon as the decrement is a load + store: plaindec+nombwait is a TSO-only lost wake-up, clean under SC)
#   latecount   barrier_count incremented after the completion work was queued: the worker's decrement to -1 does not wake, the waiter reads 0 after its own increment
#   skipwake    wake skipped when qlen was non-zero: the increments made while the worker sleeps run through 0 exactly once
#   stopfirst   STOP tested before the splice: not observable under the flush-before-destroy contract
EQUIV = [("wq_q1f", ["nombwait"], True), ("wq_q1f", ["plaindec", "nombwait"], False), ("wq_q1f", ["latecount"], True), ("wq_flush_race", ["latecount"], True),
         ("wq_flush_race", ["skipwake"], True), ("wq_2q_flush", ["skipwake"], True), ("wq_destroy", ["stopfirst"], True)]
NEG_C16 = [("wq_pause", ["nopausewake"], "temporal", False)]
# misuse scenario whose TLC counterexample is forced onto the real, unmodified code (it must abort on the emptiness assertion)
DIRECTED = [("wq_neg_noflush", "ASSERT_ABORT")]
LIVE_QUICK = [("wq_live", ["Termination", "EventuallyExecuted"], True), ("wq_destroy", ["Termination"], False)]
LIVE_THOROUGH = [("wq_spur", ["Termination", "EventuallyExecuted"], True), ("wq_requeue", ["Termination", "EventuallyExecuted"], False),
                 ("wq_flush_race", ["Termination", "EventuallyExecuted"], False), ("wq_create_2t", ["Termination"], False), ("wq_rt", ["Termination", "EventuallyExecuted"], False)]
LIVE_C16 = [("wq_pause", ["Termination", "EventuallyExecuted"], False), ("wq_pause_flush", ["Termination", "EventuallyExecuted"], True)]


def _neg_live(negs):
    """nopausewake is a liveness counterexample (the pausing thread spins for ever): it is run as a liveness configuration"""
    return [(s, m, e, t) for s, m, e, t in negs if e != "temporal"], [(s, m, t) for s, m, e, t in negs if e == "temporal"]


def _liveness_negative(ctx, s, m, tso):
    comp = wc.component()
    mod, c, r = wc.model_check(comp, load_scenario(s), 3, 900, props=("Termination",), mut=tuple(m), tso=tso, tag=ctx.pid.lower())
    wc.mc_report(ctx, load_scenario(s), mod, c, r, 900, expect="temporal")


def run_c09(ctx):
    q = ctx.quick()
    if q:
        # quick tier: every scenario model checked; executions of the real code: SC + TSO for two scenarios, TSO only for the others
        wc.run_property(ctx, C09_QUICK, NEG_QUICK, LIVE_QUICK, nseeds=20, mc_workers=2, mc_timeout=600, pool_size=2,
                        sc_tsos={"wq_destroy": (), "wq_destroy_2t": (1,), "wq_requeue": (1,)}, nsim=8, directed=DIRECTED)
    else:
        wc.run_property(ctx, C09_QUICK + C09_THOROUGH, NEG_QUICK + NEG_THOROUGH, LIVE_QUICK + LIVE_THOROUGH, nseeds=400, mc_workers=4, mc_timeout=7200, coverage=True,
                        do_selftest=True, sc_also=["wq_q1f", "wq_destroy", "wq_flush_race", "wq_2q_flush"], equivalents=EQUIV, nsim=150, sim_tsos=(0, 1), directed=DIRECTED)


def run_c16(ctx):
    q = ctx.quick()
    negs, lnegs = _neg_live(NEG_C16)
    if q:
        wc.run_property(ctx, C16_QUICK, negs, LIVE_C16[:1], nseeds=20, mc_workers=2, mc_timeout=600, pool_size=2, sc_tsos={"wq_create_2t": (1,)}, nsim=8)
    else:
        wc.run_property(ctx, C16_QUICK + C16_THOROUGH, negs, LIVE_C16, nseeds=400, mc_workers=4, mc_timeout=7200, coverage=True, nsim=150, sim_tsos=(0, 1))
    if not COV and not os.environ.get("VERIF_SCEN"):
        for s, m, t in lnegs:
            _liveness_negative(ctx, s, m, t)


def replay(ctx, path):
    wc.replay(ctx, path)


replay_c09 = replay_c16 = replay


def is_mine(path):
    """True when the violation directory `path` was produced by this module (lets the coordinator dispatch --replay)."""
    try:
        meta = json.load(open(os.path.join(path, "meta.json")))
    except Exception:
        return False
    return str(meta.get("scenario", "")).startswith("wq_") or meta.get("driver") == "d_workqueue.c"
