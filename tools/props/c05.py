"""C05: the concurrent hash table (cds_lfht) is linearizable against a multiset-per-key object; nodes resident during a whole
lookup / traversal are never missed, whatever is added or removed around them and while the table grows or shrinks.

Component (shared with C06 / C07, see tools/lfht_common.py): spec/Lfht.tla (+ LfhtLin.tla, LinMon.tla), harness/d_lfht.c on the real
src/rculfhash.c, spec/trace/LfhtConcTrace.tla.in (step level) and LfhtHistTrace.tla.in (history level), scenarios/lfht_*.json.
Per scenario: exhaustive TLC run (TSO store buffers on), recorded executions of the real code validated step by step against Lfht and,
independently, as call/return histories against LfhtLin; TLC behaviours replayed as schedules into the real code.
Thorough tier: bigger scenarios (two-order grow / shrink, 8 buckets with 3-bit hashes, re-grow after shrink), both memory modes, the
chunk and mmap bucket allocators, and the negative controls (seeded design errors of Lfht.Mut must each be found by TLC)."""
from vlib import *
import conc, lfht_common as L

LEVEL = "model_checking"
ASSUMPTIONS = L.ASSUMPTIONS
INV = ["Linearizable", "ResidentFound", "Sorted", "BucketsLinked", "FlagsOk", "InTabIsPhysical", "Conservation", "NoUAF"]
COMP = L.comp_for(INV)
QUICK = ["lfht_adl", "lfht_b4", "lfht_grow", "lfht_shrink", "lfht_trav", "lfht_addr_repl", "lfht_repl_add", "lfht_destroy"]
THOROUGH = QUICK + ["lfht_grow4", "lfht_shrink4", "lfht_regrow", "lfht_addr_repl3", "lfht_resize8"]
NEG = [("lfht_adl", "lookup_keeps_removed"), ("lfht_grow", "size_early")]


def run(ctx):
    q = ctx.quick()
    L.run_lfht(ctx, COMP, QUICK if q else THOROUGH, nseeds=30 if q else 1000, nsim=8 if q else 200, both_modes=not q,
               mm_variants=() if q else ("chunk", "mmap"))
    if not q:
        L.negative_controls(ctx, COMP, NEG)


def replay(ctx, path):
    L.replay(ctx, COMP, path)
