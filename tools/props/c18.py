"""C18: RCU lists -- readers concurrent with one updater always see a consistent list (rculist.h, rcuhlist.h)."""
import os, shutil, glob, json
import vlib
from vlib import *
import conc

vlib.NCPU = min(vlib.NCPU, 8)          # shared machine: at most 8 TLC workers

LEVEL = "model_checking"
ASSUMPTIONS = ["x86-TSO memory model (Sewell et al.); the compiler keeps the order of the list primitives' plain stores relative to "
               "rcu_assign_pointer/uatomic_store as observed in the instrumented -O1 build (the driver's event order is checked against the "
               "specification on every run)",
               "serialised execution: scheduling points are the hooked shared accesses, the plain (compiler-instrumented) accesses to "
               "list-node fields, and blocking calls",
               "abstract RCU: read-side sections are intervals, a grace period waits for every section open at its beginning "
               "(the grace-period implementation is C01's business)",
               "one updater thread (updates mutually excluded), <= 2 readers, <= 5 nodes, updater sequences of length <= 3, "
               "store buffer <= 2 entries in TLC"]

UPD = ("add", "addt", "del", "repl", "hadd", "hdel", "free")


def full_ops(sc):
    return {t: [{"op": o["op"], "n": o.get("n", "-"), "m": o.get("m", "-")} for o in ops] for t, ops in sc["threads"].items()}


def rcl_program(sc):
    out = ["kind %s" % sc["kind"], "init " + " ".join(sc["init"])]
    for t, ops in sc["threads"].items():
        out.append("thread %s" % t)
        for o in ops:
            if o["op"] == "repl": out.append("repl %s %s" % (o["n"], o["m"]))
            elif o["op"] in UPD: out.append("%s %s" % (o["op"], o["n"]))
            else: out.append(o["op"])
    return "\n".join(out) + "\n"


RCL = {
    "spec": "RcuList", "driver": "d_rculist.c", "trace": "RcuListTrace",
    "invariants": ["NoFreedAccess", "Initialised", "InOrder", "OnlyPresent", "Complete", "Terminates", "MemConsistent"],
    "mc_invariants": ["DeadlockFree"], "constraints": ["SBBound"],
    "consts": lambda sc: {"Threads": tla(set(sc["threads"])), "Prog": tla_fun(full_ops(sc)), "SBMax": str(sc.get("sbmax", 2)),
                          "Kind": tla(sc["kind"]), "InitList": tla(list(sc["init"])), "PlainBuf": "TRUE"},
    # recorded executions: the runtime cannot delay compiler-generated plain stores (they drain the software store buffer and
    # go straight to memory), only the hooked publication stores are buffered -> PlainBuf = FALSE instance of the same module
    "trace_consts": {"PlainBuf": "FALSE"},
    "program": rcl_program,
    "normalize": {"extra_fields": ("m",)},
    "pct_len": 60, "heap": "4g",
}

# schedule generation for tso=1: the TSO instance the runtime can follow (plain stores not delayed)
RCL_PF = dict(RCL)
RCL_PF["consts"] = lambda sc: dict(RCL["consts"](sc), PlainBuf="FALSE")
RCL_PF["variant"] = "_pf"

QUICK = ["rculist_adddel", "rculist_repl", "rculist_tail", "rculist_hlist"]
THOROUGH = QUICK + ["rculist_hdel", "rculist_free2", "rculist_sb6", "rculist_big", "rculist_hbig"]


def _strip(o, tagp):
    """remove the per-process suffix from every string of a JSON-like value"""
    if isinstance(o, str): return o.replace(tagp, "")
    if isinstance(o, list): return [_strip(x, tagp) for x in o]
    if isinstance(o, dict): return {k: _strip(v, tagp) for k, v in o.items()}
    return o


def run_scenarios(ctx, comp, scenarios, nseeds, nsim, mc_timeout):
    # Several checks of this property may run at the same time (e.g. against scratch copies of the library selected with
    # VERIF_REPO): everything this run generates -- driver build, work files, generated modules, TLC metadirs -- carries a
    # per-process suffix and is removed at the end, so that concurrent runs never read each other's binaries or traces.
    tagp = "_p%d" % os.getpid()
    wd = os.path.join(ctx.outdir, "work" + tagp); shutil.rmtree(wd, ignore_errors=True); os.makedirs(wd)
    btag = ctx.pid + "_" + comp["driver"][:-2] + tagp
    try:
        exe = build_driver(comp["driver"][:-2], comp["driver"], tag=btag)
        _run_scenarios(ctx, comp, scenarios, nseeds, nsim, mc_timeout, tagp, wd, exe)
    finally:
        shutil.rmtree(wd, ignore_errors=True)
        shutil.rmtree(os.path.join(vlib.BUILD, btag), ignore_errors=True)
        for pat in (os.path.join(vlib.GEN, "*%s*" % tagp), os.path.join(vlib.OUT, "tlc", "*%s*" % tagp)):
            for f in glob.glob(pat):
                if os.path.isdir(f): shutil.rmtree(f, ignore_errors=True)
                else: os.unlink(f)
        # reports refer to scenarios by their real names (needed by --replay)
        ctx.samples = _strip(ctx.samples, tagp); ctx.configs = _strip(ctx.configs, tagp); ctx.notes = _strip(ctx.notes, tagp)
        for v in ctx.violations:
            v["what"] = v["what"].replace(tagp, "")
            mp = os.path.join(v["replay"], "meta.json")
            if os.path.exists(mp):
                m = _strip(json.load(open(mp)), tagp); json.dump(m, open(mp, "w"), indent=1)


def _run_scenarios(ctx, comp, scenarios, nseeds, nsim, mc_timeout, tagp, wd, exe):
    only = os.environ.get("VERIF_SCEN")
    for scn in scenarios:
        if only and scn not in only.split(","):
            continue
        if len(ctx.violations) >= conc.MAXV:
            break
        sc = load_scenario(scn); name = sc["name"]; sc = dict(sc, name=name + tagp)
        # 1. TLC: full x86-TSO instance (every updater store buffered), all C18 invariants
        r = conc.model_check(ctx, comp, sc, timeout=mc_timeout)
        log("  [TLC] %s: %d distinct states, %.0fs, %s" % (name, r.distinct, r.wall, "ok" if r.ok else (r.violation or r.error)))
        zero = [k for k, v in r.coverage.items() if v[0] == 0 and k not in ("Terminating",)]
        ctx.extra.setdefault("actions_never_taken", {})[name] = zero
        # 2. code -> spec: recorded executions (SC and software-TSO) validated step by step, property ghosts checked on them
        for tso in (0, 1):
            if len(ctx.violations) >= conc.MAXV:
                break
            seeds = [ctx.seed * 100003 + k for k in range(nseeds)]
            runs, fails, pf = conc.run_batch(ctx, comp, exe, sc, tso, seeds, wd)
            conc.report_failures(ctx, comp, fails)
            if runs:
                ctx.sample({"kind": "recorded execution of the real code (first events)", "scenario": name, "tso": tso, "seed": runs[0][0],
                            "events": [e for e in runs[0][1][:12]]})
            conc.validate(ctx, comp, sc, tso, runs, wd, "tv_%s_%d" % (sc["name"], tso))
        # 3. spec -> code: TLC behaviours forced onto the real code: SC instance, and the TSO instance the runtime can execute
        for c, tso, n in ((comp, 0, nsim), (RCL_PF, 1, max(4, nsim // 2))):
            if nsim and len(ctx.violations) < conc.MAXV:
                got = conc.spec_to_code(ctx, c, exe, sc, tso, n, wd)
                if not got:          # TLC produced no behaviour (seen once on the overloaded machine): try again, and say so if it persists
                    got = conc.spec_to_code(ctx, c, exe, sc, tso, n, wd)
                if not got:
                    ctx.notes.append("no TLC behaviour could be generated for scenario %s tso=%d (simulation failed to run): spec -> code replays skipped for it" % (name, tso))
        log("  [conf] %s: traces validated so far %d, events %d, replays %d, violations %d" % (name, ctx.traces, ctx.events, ctx.replays, len(ctx.violations)))
    ctx.notes.append("TSO dimension: TLC explores the instance in which ALL updater stores (plain ones too) go through the store buffer "
                     "(TSO=TRUE, PlainBuf=TRUE).  The executed code cannot buffer compiler-generated plain stores: the runtime drains the "
                     "software store buffer before a plain store and the store is immediately visible; only the hooked rcu_assign_pointer / "
                     "uatomic_store publications are buffered.  Recorded tso=0 traces are therefore validated against the SC instance "
                     "(TSO=FALSE) and recorded tso=1 traces against the TSO=TRUE, PlainBuf=FALSE instance of the same module (plain store = "
                     "wait for the own buffer to drain, then write memory), whose behaviours are behaviours of the full TSO instance with "
                     "the plain stores flushed at once; recorded flush events line up one to one.")
    ctx.notes.append("spec -> code replays: behaviours of the SC instance and of the TSO=TRUE, PlainBuf=FALSE instance.  Under tso=1 the runtime "
                     "drains when a thread ARRIVES at a plain store (earlier than the F:<thread> decision of the behaviour; the runtime then drops "
                     "that decision), so a tso=1 replay may read different values than the TLC behaviour it was derived from; every replayed "
                     "execution is validated as a trace of its own.  Behaviours with delayed plain stores are covered by TLC only.")


def run(ctx):
    q = ctx.quick()
    run_scenarios(ctx, RCL, QUICK if q else THOROUGH, nseeds=40 if q else 1500, nsim=16 if q else 400, mc_timeout=600 if q else 3000)


def replay(ctx, path):
    conc.replay(ctx, RCL, path)
