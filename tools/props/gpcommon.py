"""Shared component descriptions for the grace-period checks (C01, C02, C15, C19)."""
from vlib import *


def gp_program(sc):
    out = []
    for t, ops in sc["threads"].items():
        out.append("thread %s" % t)
        for o in ops:
            if o["op"] == "pub":
                out.append("pub %s" % o["o"][3:])
            else:
                out.append(o["op"])
    if sc.get("sighandler"):
        out.append("sighandler")
    return "\n".join(out) + "\n"


def gp_consts(sc, flavor, sysmb, fault_budget=0, sig_threads=(), sig_budget=0, futex_mode="futex", skip=(), weak=(), sbblock=False, sbmax=None, sig_futex=False):
    return {"Threads": tla(set(sc["threads"])), "Prog": tla_fun(sc["threads"]), "SBMax": str(sbmax if sbmax is not None else sc.get("sbmax", 2)),
            "Flavor": '"%s"' % flavor, "SysMb": "TRUE" if sysmb else "FALSE", "QSAttempts": "2", "WaitAttempts": "2",
            "FaultBudget": str(fault_budget), "SigThreads": tla(set(sig_threads)), "SigBudget": str(sig_budget), "SigFutex": "TRUE" if sig_futex else "FALSE",
            "FutexMode": '"%s"' % futex_mode, "Skip": tla(set(skip)), "Weak": tla(set(weak)), "SBBlock": "TRUE" if sbblock else "FALSE"}


def gp_component(flavor, sysmb, fault_budget=0, sig_threads=(), sig_budget=0, futex_mode="futex", extra_invariants=(), faults="mixed", sig_futex=False):
    """flavor: 'mb' | 'memb'; sysmb: bool (memb only); futex_mode: 'futex' | 'enosys' (Linux: futex() fails with ENOSYS, both wrappers fall
    back to compat_futex_async; runtime VRT_FUTEX_ENOSYS=1) | 'compat' (generic branch of urcu/futex.h: compat_futex_async / compat_futex_noasync;
    driver built with -DGP_GENERIC_FUTEX); faults: 'mixed' (runtime injects value-unchanged returns first, then EINTR) | 'eintr' (EINTR only);
    sig_futex: signals are also delivered to threads asleep in FUTEX_WAIT, whose wait then returns EINTR (runtime VRT_SIG_FUTEX=1, spec SigFutex)"""
    env = {"VRT_MEMBARRIER": 1 if sysmb else 0}
    if fault_budget:
        env["VRT_SPURIOUS"] = (fault_budget + 1) // 2; env["VRT_EINTR"] = fault_budget // 2
        if faults == "eintr":
            env["VRT_SPURIOUS"] = 0; env["VRT_EINTR"] = fault_budget
    name = flavor + ("_sys" if (flavor == "memb" and sysmb) else "_nosys" if flavor == "memb" else "") + ("_f%d%s" % (fault_budget, "e" if faults == "eintr" else "") if fault_budget else "") + ("_sig" if sig_threads else "")
    defines = ["FLAVOR_" + flavor.upper(), "URCU_VERIF_RCU_QS_ACTIVE_ATTEMPTS=2", "URCU_VERIF_URCU_WAIT_ATTEMPTS=2"]
    if futex_mode == "enosys":
        env["VRT_FUTEX_ENOSYS"] = 1; name += "_enosys"
    elif futex_mode == "compat":
        defines.append("GP_GENERIC_FUTEX"); name += "_compat"
    if sig_threads:
        env["VRT_SIGS"] = sig_budget
        env["GP_SIG_THREADS"] = ",".join(sig_threads)      # the driver lets the handler interrupt only these threads (= SigThreads of the spec)
        if sig_futex:
            env["VRT_SIG_FUTEX"] = 1; name += "fx"
    return {
        "name": name, "spec": "UrcuGp", "driver": "d_gp.c", "trace": "UrcuGpTrace", "drvname": "d_gp_" + name,
        "defines": defines,
        "invariants": [], "mc_invariants": (["SigDeadlockFree"] if sig_threads else ["DeadlockFree"]) + ["FutexRange", "LockOrder"] + list(extra_invariants), "constraints": ["SBBound"],
        "consts": lambda sc: gp_consts(sc, flavor, sysmb, fault_budget, sig_threads, sig_budget, futex_mode, sig_futex=sig_futex),
        "mc_spec": "SigSpec" if sig_threads else "Spec", "mc_next": "SigNext" if sig_threads else "Next",
        "program": gp_program, "env": env, "normalize": {"extra_fields": ("k", "m")}, "variant": name, "pct_len": 200,
        "flavor": flavor, "sysmb": sysmb, "fault_budget": fault_budget, "futex_mode": futex_mode, "faults": faults,
    }
