"""Shared component descriptions for the grace-period checks (C01, C02, C15, C19)."""
from vlib import *


def gp_program(sc):
    out = []
    for t, ops in sc["threads"].items():
        out.append("thread %s" % t)
        for o in ops:
            if o["op"] == "pub":
                out.append("pub %s" % o["o"][3:])
            else:
                out.append(o["op"])
    if sc.get("sighandler"):
        out.append("sighandler")
    return "\n".join(out) + "\n"


def gp_component(flavor, sysmb, fault_budget=0, sig_threads=(), sig_budget=0):
    """flavor: 'mb' | 'memb'; sysmb: bool (memb only)"""
    env = {"VRT_MEMBARRIER": 1 if sysmb else 0}
    if fault_budget:
        env["VRT_SPURIOUS"] = (fault_budget + 1) // 2; env["VRT_EINTR"] = fault_budget // 2
    name = flavor + ("_sys" if (flavor == "memb" and sysmb) else "_nosys" if flavor == "memb" else "") + ("_f%d" % fault_budget if fault_budget else "") + ("_sig" if sig_threads else "")
    if sig_threads:
        env["VRT_SIGS"] = sig_budget
    return {
        "name": name, "spec": "UrcuGp", "driver": "d_gp.c", "trace": "UrcuGpTrace", "drvname": "d_gp_" + name,
        "defines": ["FLAVOR_" + flavor.upper(), "URCU_VERIF_RCU_QS_ACTIVE_ATTEMPTS=2", "URCU_VERIF_URCU_WAIT_ATTEMPTS=2"],
        "invariants": [], "mc_invariants": (["SigDeadlockFree"] if sig_threads else ["DeadlockFree"]) + ["FutexRange", "LockOrder"], "constraints": ["SBBound"],
        "consts": lambda sc: {"Threads": tla(set(sc["threads"])), "Prog": tla_fun(sc["threads"]), "SBMax": str(sc.get("sbmax", 2)),
                              "Flavor": '"%s"' % flavor, "SysMb": "TRUE" if sysmb else "FALSE", "QSAttempts": "2", "WaitAttempts": "2",
                              "FaultBudget": str(fault_budget), "SigThreads": tla(set(sig_threads)), "SigBudget": str(sig_budget)},
        "mc_spec": "SigSpec" if sig_threads else "Spec", "mc_next": "SigNext" if sig_threads else "Next",
        "program": gp_program, "env": env, "normalize": {"extra_fields": ("k",)}, "variant": name, "pct_len": 200,
    }
