"""C11: stacks are LIFO (cds_wfs, cds_lfs, legacy cds_lfs_rcu): push/pop/pop_all lose nothing, duplicate nothing.

Two components, each = TLA+ spec + scenarios + driver on the real inline code + trace spec:
  Wfs  spec/Wfs.tla  harness/d_wfs.c  scenarios/wfs_*.json   (wfstack.h)
  Lfs  spec/Lfs.tla  harness/d_lfs.c  scenarios/lfs_*.json   (lfstack.h, and rculfstack.h in scenarios with "legacy")
Per scenario: exhaustive TLC run (TSO store buffers on), recorded executions of the real code validated against the
spec (SC and TSO runs), TLC behaviours replayed as schedules into the real code.
Negative control (lfs_neg_*): recycling a popped node WITHOUT the grace period; TLC must find the ABA counterexample.
It is not part of the verdict on the library (the scenario misuses the API on purpose); a negative control that
passes is a failure of the machinery (exit 2).
"""
import os, re, json, shutil, threading, concurrent.futures as cf
from vlib import *
import conc

LEVEL = "model_checking"
ASSUMPTIONS = ["x86-TSO memory model (Sewell et al.); compiler honours volatile/atomic accesses and asm barriers",
               "serialised execution: scheduling points are the hooked shared accesses, watched plain accesses of node->next (lfstack) and blocking calls",
               "bounds: one stack, <= 3 nodes (recycled in the RCU scenarios), <= 4 threads, store buffer <= 2 in TLC; executed code uses 32-entry software store buffers",
               "read-side critical sections and grace periods are abstract (harness/absrcu.h): a grace period ends when every critical section open at its start has ended; the real flavors are C01's business",
               "plain store node->next in cds_lfs_push: buffered in the model-checked configurations (PlainBuf), written through in the executed code (the runtime keeps plain accesses coherent), which is one of the TSO behaviours"]
WORKERS = 6          # TLC workers per model-checking run (three lanes run side by side)


def b(x):
    return 1 if x else 0


# ------------------------------------------------------------------ Wfs
def wfs_program(sc):
    out = []
    for t, ops in sc["threads"].items():
        out.append("thread %s" % t)
        for o in ops:
            if o["op"] == "push": out.append("push %s" % o["n"])
            elif o["op"] == "pop": out.append("pop %d %d %d" % (b(o["blk"]), b(o["lck"]), b(o["ws"])))
            elif o["op"] == "popall": out.append("popall %d %d" % (b(o["blk"]), b(o["lck"])))
            else: out.append("empty")
    return "\n".join(out) + "\n"


WFS = {
    "spec": "Wfs", "driver": "d_wfs.c", "trace": "WfsTrace",
    "invariants": ["Linearizable", "Conservation", "Shape"], "mc_invariants": ["DeadlockFree"], "constraints": ["SBBound"],
    "consts": lambda sc: {"Threads": tla(set(sc["threads"])), "Prog": tla_fun(sc["threads"]), "SBMax": str(sc.get("sbmax", 2))},
    "program": wfs_program,
    "normalize": {"extra_fields": ("ws",)},
    "defines": ["URCU_VERIF_CDS_WFS_ADAPT_ATTEMPTS=2"],      # reach the poll() branch of ___cds_wfs_node_sync_next quickly
}


# ------------------------------------------------------------------ Lfs
def lfs_program(sc):
    out = ["mode %s" % ("legacy" if sc.get("legacy") else "lfs")]
    for t, ops in sc["threads"].items():
        out.append("thread %s" % t)
        for o in ops:
            if o["op"] == "push": out.append("push %s" % o["n"])
            elif o["op"] == "pop": out.append("pop %d %d" % (b(o["lck"]), b(o["rcu"])))
            elif o["op"] == "popall": out.append("popall %d" % b(o["lck"]))
            elif o["op"] == "sync": out.append("sync %d" % b(o["gp"]))
            else: out.append("empty")
    return "\n".join(out) + "\n"


def lfs_consts(plainbuf):
    return lambda sc: {"Threads": tla(set(sc["threads"])), "Prog": tla_fun(sc["threads"]), "SBMax": str(sc.get("sbmax", 2)),
                       "Legacy": tla(bool(sc.get("legacy"))), "PlainBuf": tla(plainbuf)}


LFS = {
    "spec": "Lfs", "driver": "d_lfs.c", "trace": "LfsTrace",
    "invariants": ["Linearizable", "Conservation", "Shape"], "mc_invariants": ["DeadlockFree"], "constraints": ["SBBound"],
    "consts": lfs_consts(False), "program": lfs_program,
    "normalize": {"extra_fields": ("rcu", "gp")},
}
LFS_MC = dict(LFS, consts=lfs_consts(True))       # model checking: the plain store of push sits in the store buffer

# quick tier: small scenarios whose union takes every label of both specs; thorough tier adds the bigger ones
WFS_QUICK = ["wfs_q_sc", "wfs_q_lock"]
WFS_MORE = ["wfs_2p1c", "wfs_nb", "wfs_popall", "wfs_locked"]
LFS_QUICK = ["lfs_q_sc", "lfs_q_lock", "lfs_q_rcu", "lfs_q_legacy"]
LFS_MORE = ["lfs_sc", "lfs_locked", "lfs_rcu", "lfs_legacy"]
LFS_NEG_QUICK = ["lfs_neg_q_aba"]
LFS_NEG_MORE = ["lfs_neg_aba"]


def model_check(ctx, comp, sc, timeout, expect_violation=False):
    c = conc.consts_for(comp, sc, True, False)
    mod = gen_mc(sc, "mc", c, cfg_lines=["SPECIFICATION Spec"] + ["INVARIANT " + i for i in comp["invariants"] + comp.get("mc_invariants", [])] +
                 ["CONSTRAINT " + x for x in comp.get("constraints", [])] + ["CHECK_DEADLOCK FALSE"])
    r = run_tlc(mod, coverage=not expect_violation, workers=WORKERS, timeout=timeout, heap=comp.get("heap", "8g"))
    if expect_violation:
        return r, mod
    ctx.add_tlc(r, mod, {k: v for k, v in c.items() if len(v) < 200})
    log("  [TLC] %s: %d distinct states, %.0fs, %s" % (sc["name"], r.distinct, r.wall, "ok" if r.ok else (r.violation or r.error)))
    if r.violation:
        d = ctx.viol_dir(); shutil.copy(r.log, os.path.join(d, "tlc.log"))
        ctx.violation("TLC: %s violated in %s (design-level counterexample in tlc.log)" % (r.violation, mod), d)
    elif not r.ok:
        if r.error == "timeout":
            ctx.notes.append("%s: TLC timed out after %ds with %d distinct states (not exhaustive)" % (mod, timeout, r.distinct))
        else:
            raise RuntimeError("TLC failed on %s: %s\n%s" % (mod, r.error, r.out[-1500:]))
    zero = [k for k, v in r.coverage.items() if v[0] == 0 and k not in ("Terminating",)]
    ctx.extra.setdefault("actions_never_taken", {})[sc["name"]] = zero
    ctx.extra.setdefault("_taken", {}).setdefault(comp["spec"], set()).update(k for k, v in r.coverage.items() if v[0] > 0)
    ctx.extra.setdefault("_labels", {}).setdefault(comp["spec"], set()).update(r.coverage.keys())
    return r, mod


def component(ctx, comp, comp_mc, scenarios, nseeds, nsim, mc_timeout):
    only = os.environ.get("VERIF_SCEN")
    scenarios = [s for s in scenarios if not only or s in only.split(",")]
    for scn in scenarios:
        if len(ctx.violations) >= conc.MAXV:
            return
        model_check(ctx, comp_mc, load_scenario(scn), mc_timeout)
    if scenarios and len(ctx.violations) < conc.MAXV:
        conc.run_component(ctx, comp, scenarios, nseeds=nseeds, nsim=nsim, mc=False)


# labels of Lfs that perform a shared access / scheduling point (one scheduler decision each); the others are silent
LFS_ACC = {"p_st", "p_mb", "p_cas", "q_rl", "q_ldh", "q_ldn", "q_cas", "q_mb", "q_ru", "x_xchg", "x_mb", "y_next", "g_begin", "g_wait", "m_ld"}


def counterexample_schedule(tlc_out):
    """TLC error trace -> VSCHED schedule (one entry per access step: T:<thread>, or F:<thread> for a flush)."""
    sched = []
    for m in re.finditer(r'^State \d+: <(\w+)\("([^"]+)"\)', tlc_out, re.M):
        lab, who = m.group(1), m.group(2)
        if lab == "fl":
            sched.append(who)
        elif lab in LFS_ACC:
            sched.append("T:" + who)
    return sched


def negative_control(ctx, scn, exe):
    """Recycling without the grace period (API misuse on purpose): TLC must find the ABA counterexample, and that
    counterexample, replayed as a schedule into the real lfstack.h, must trip a driver oracle.  Never a verdict on the
    library; a negative control that finds nothing is a failure of the machinery."""
    sc = load_scenario(scn)
    assert not any(o.get("lck") for ops in sc["threads"].values() for o in ops)
    r, mod = model_check(ctx, LFS, sc, 900, expect_violation=True)       # PlainBuf = FALSE: replayable by the runtime
    if not r.violation:
        raise RuntimeError("negative control %s: TLC found no ABA counterexample (%s) -- the specification cannot express the bug" % (scn, r.error or "no error"))
    sched = counterexample_schedule(r.out)
    wd = os.path.join(ctx.outdir, "neg_work"); shutil.rmtree(wd, ignore_errors=True); os.makedirs(wd)
    pf = conc.program_file(LFS, sc, os.path.join(wd, "prog.txt"))
    sp = os.path.join(wd, "sched.txt"); open(sp, "w").write("#auto-benign\n" + "\n".join(sched) + "\n")
    tp = os.path.join(wd, "t.ndjson")
    rc, so, se = run_driver(exe, [0, 1, tp, pf], env={"VRT_SCHED": sp}, timeout=30)
    m = re.search(r"VRT-FAIL (.*)", se)
    what = m.group(1) if m else "rc=%d %s" % (rc, se[-120:])
    shutil.rmtree(wd, ignore_errors=True)
    ctx.extra.setdefault("negative_controls", []).append({
        "scenario": scn, "tlc": r.violation, "tlc_distinct_states": r.distinct, "tlc_depth": r.depth,
        "counterexample_schedule": sched, "real_code_on_that_schedule": what})
    log("  [neg] %s: TLC finds %s (%d distinct states, depth %d); real code on TLC's schedule: %s" % (scn, r.violation, r.distinct, r.depth, what))
    if rc == 0 or "ORACLE" not in what:
        raise RuntimeError("negative control %s: TLC's ABA schedule did not trip a driver oracle on the real code (%s)" % (scn, what))


class Lane:
    """A view of the check context for one of the parallel lanes: own work directory, build tag and counters (merged
    at the end); violations, notes, samples, evidence extras go straight to the main context."""
    _lock = threading.Lock()

    def __init__(self, ctx, name):
        self.main = ctx; self.name = name; self.pid = ctx.pid + "_" + name; self.tier = ctx.tier; self.seed = ctx.seed
        self.states = self.transitions = self.traces = self.events = self.replays = 0
        self.violations = ctx.violations; self.notes = ctx.notes; self.extra = ctx.extra; self.configs = ctx.configs
        self.outdir = os.path.join(ctx.outdir, "lane_" + name)
        os.makedirs(self.outdir, exist_ok=True)

    def quick(self):
        return self.main.quick()

    def sample(self, smp):
        with Lane._lock:
            self.main.sample(smp)

    def viol_dir(self):
        with Lane._lock:
            return self.main.viol_dir()

    def violation(self, what, replay, key=None):
        with Lane._lock:
            self.main.violation(what, replay, key)

    def add_tlc(self, r, name, consts=None):
        self.states += r.distinct; self.transitions += r.states
        with Lane._lock:
            self.configs.append({"config": name, "distinct_states": r.distinct, "states_generated": r.states, "depth": r.depth,
                                 "wall_s": round(r.wall, 1), "complete": bool(r.ok), "constants": consts or {}})

    def merge(self):
        for k in ("states", "transitions", "traces", "events", "replays"):
            setattr(self.main, k, getattr(self.main, k) + getattr(self, k))
        shutil.rmtree(self.outdir, ignore_errors=True)


def run(ctx):
    q = ctx.quick()
    nseeds, nsim, mct = (40, 12, 600) if q else (1500, 300, 3000)
    only = os.environ.get("VERIF_SCEN")

    def lane_wfs(l):
        component(l, WFS, WFS, WFS_QUICK + ([] if q else WFS_MORE), nseeds, nsim, mct)

    def lane_lfs(l):
        component(l, LFS, LFS_MC, LFS_QUICK[:2] + ([] if q else LFS_MORE[:2]), nseeds, nsim, mct)

    def lane_rcu(l):
        component(l, LFS, LFS_MC, LFS_QUICK[2:] + ([] if q else LFS_MORE[2:]), nseeds, nsim, mct)
        if not only and len(ctx.violations) == 0:
            exe = build_driver("d_lfs", "d_lfs.c", tag=l.pid + "_d_lfs")
            for scn in LFS_NEG_QUICK + ([] if q else LFS_NEG_MORE):
                negative_control(l, scn, exe)

    # three lanes side by side (TLC: WORKERS workers each for model checking, 4 for simulation, 1 for trace validation)
    lanes = [(Lane(ctx, "wfs"), lane_wfs), (Lane(ctx, "lfs"), lane_lfs), (Lane(ctx, "rcu"), lane_rcu)]
    with cf.ThreadPoolExecutor(max_workers=len(lanes)) as ex:
        futs = [ex.submit(fn, l) for l, fn in lanes]
        errs = []
        for f in futs:
            try:
                f.result()
            except Exception as e:           # let the other lanes finish, then report the first machinery failure
                errs.append(e)
    for l, fn in lanes:
        l.merge()
    if errs:
        raise errs[0]
    # labels never taken by any scenario of a component
    never = {}
    for spec, labels in ctx.extra.pop("_labels", {}).items():
        never[spec] = sorted(x for x in labels - ctx.extra["_taken"][spec] if x not in ("Terminating", "SBBound"))
    ctx.extra.pop("_taken", None)
    if not only:
        ctx.extra["labels_never_taken_in_any_scenario"] = never
        if any(never.values()):
            ctx.notes.append("labels never taken in any scenario: %s" % never)


def replay(ctx, path):
    mp = os.path.join(path, "meta.json")
    if os.path.exists(mp):                                   # recorded execution / schedule of the real code
        meta = json.load(open(mp))
        return conc.replay(ctx, WFS if meta["scenario"].startswith("wfs_") else LFS, path)
    # design-level counterexample (tlc.log only): model-check that scenario again
    m = re.search(r"MC_(\w+?)_mc\b", open(os.path.join(path, "tlc.log"), errors="replace").read())
    if not m:
        raise RuntimeError("nothing to replay in " + path)
    sc = load_scenario(m.group(1))
    model_check(ctx, WFS if sc["spec"] == "Wfs" else LFS_MC, sc, 3000)
    log("replay of %s: %s" % (path, "violation reproduced" if ctx.violations else "no violation on the current tree"))
