"""C11: stacks are LIFO (cds_wfs, cds_lfs, legacy cds_lfs_rcu): push/pop/pop_all lose nothing, duplicate nothing.

Two components, each = TLA+ spec + scenarios + driver on the real inline code + trace spec:
  Wfs  spec/Wfs.tla  harness/d_wfs.c  scenarios/wfs_*.json   (wfstack.h)
  Lfs  spec/Lfs.tla  harness/d_lfs.c  scenarios/lfs_*.json   (lfstack.h, and rculfstack.h in scenarios with "legacy")
Per scenario: exhaustive TLC run (TSO store buffers on), recorded executions of the real code validated against the
spec (SC and TSO runs), TLC behaviours replayed as schedules into the real code.
Negative control (lfs_neg_*): recycling a popped node WITHOUT the grace period; TLC must find the ABA counterexample.
It is not part of the verdict on the library (the scenario misuses the API on purpose); a negative control that
passes is a failure of the machinery (exit 2).
"""
import os, shutil
from vlib import *
import conc

LEVEL = "model_checking"
ASSUMPTIONS = ["x86-TSO memory model (Sewell et al.); compiler honours volatile/atomic accesses and asm barriers",
               "serialised execution: scheduling points are the hooked shared accesses, watched plain accesses of node->next (lfstack) and blocking calls",
               "bounds: one stack, <= 3 nodes (recycled in the RCU scenarios), <= 4 threads, store buffer <= 2 in TLC; executed code uses 32-entry software store buffers",
               "read-side critical sections and grace periods are abstract (harness/absrcu.h): a grace period ends when every critical section open at its start has ended; the real flavors are C01's business",
               "plain store node->next in cds_lfs_push: buffered in the model-checked configurations (PlainBuf), written through in the executed code (the runtime keeps plain accesses coherent), which is one of the TSO behaviours"]
WORKERS = 8


def b(x):
    return 1 if x else 0


# ------------------------------------------------------------------ Wfs
def wfs_program(sc):
    out = []
    for t, ops in sc["threads"].items():
        out.append("thread %s" % t)
        for o in ops:
            if o["op"] == "push": out.append("push %s" % o["n"])
            elif o["op"] == "pop": out.append("pop %d %d %d" % (b(o["blk"]), b(o["lck"]), b(o["ws"])))
            elif o["op"] == "popall": out.append("popall %d %d" % (b(o["blk"]), b(o["lck"])))
            else: out.append("empty")
    return "\n".join(out) + "\n"


WFS = {
    "spec": "Wfs", "driver": "d_wfs.c", "trace": "WfsTrace",
    "invariants": ["Linearizable", "Conservation", "Shape"], "mc_invariants": ["DeadlockFree"], "constraints": ["SBBound"],
    "consts": lambda sc: {"Threads": tla(set(sc["threads"])), "Prog": tla_fun(sc["threads"]), "SBMax": str(sc.get("sbmax", 2))},
    "program": wfs_program,
    "normalize": {"extra_fields": ("ws",)},
    "defines": ["URCU_VERIF_CDS_WFS_ADAPT_ATTEMPTS=2"],      # reach the poll() branch of ___cds_wfs_node_sync_next quickly
}


# ------------------------------------------------------------------ Lfs
def lfs_program(sc):
    out = ["mode %s" % ("legacy" if sc.get("legacy") else "lfs")]
    for t, ops in sc["threads"].items():
        out.append("thread %s" % t)
        for o in ops:
            if o["op"] == "push": out.append("push %s" % o["n"])
            elif o["op"] == "pop": out.append("pop %d %d" % (b(o["lck"]), b(o["rcu"])))
            elif o["op"] == "popall": out.append("popall %d" % b(o["lck"]))
            elif o["op"] == "sync": out.append("sync %d" % b(o["gp"]))
            else: out.append("empty")
    return "\n".join(out) + "\n"


def lfs_consts(plainbuf):
    return lambda sc: {"Threads": tla(set(sc["threads"])), "Prog": tla_fun(sc["threads"]), "SBMax": str(sc.get("sbmax", 2)),
                       "Legacy": tla(bool(sc.get("legacy"))), "PlainBuf": tla(plainbuf)}


LFS = {
    "spec": "Lfs", "driver": "d_lfs.c", "trace": "LfsTrace",
    "invariants": ["Linearizable", "Conservation", "Shape"], "mc_invariants": ["DeadlockFree"], "constraints": ["SBBound"],
    "consts": lfs_consts(False), "program": lfs_program,
    "normalize": {"extra_fields": ("rcu", "gp")},
}
LFS_MC = dict(LFS, consts=lfs_consts(True))       # model checking: the plain store of push sits in the store buffer

WFS_QUICK = ["wfs_2p1c", "wfs_nb", "wfs_popall", "wfs_locked"]
WFS_MORE = []
LFS_QUICK = []
LFS_MORE = []
LFS_NEG = []


def model_check(ctx, comp, sc, timeout, expect_violation=False):
    c = conc.consts_for(comp, sc, True, False)
    mod = gen_mc(sc, "mc", c, cfg_lines=["SPECIFICATION Spec"] + ["INVARIANT " + i for i in comp["invariants"] + comp.get("mc_invariants", [])] +
                 ["CONSTRAINT " + x for x in comp.get("constraints", [])] + ["CHECK_DEADLOCK FALSE"])
    r = run_tlc(mod, coverage=not expect_violation, workers=WORKERS, timeout=timeout, heap=comp.get("heap", "8g"))
    if expect_violation:
        return r, mod
    ctx.add_tlc(r, mod, {k: v for k, v in c.items() if len(v) < 200})
    log("  [TLC] %s: %d distinct states, %.0fs, %s" % (sc["name"], r.distinct, r.wall, "ok" if r.ok else (r.violation or r.error)))
    if r.violation:
        d = ctx.viol_dir(); shutil.copy(r.log, os.path.join(d, "tlc.log"))
        ctx.violation("TLC: %s violated in %s (design-level counterexample in tlc.log)" % (r.violation, mod), d)
    elif not r.ok:
        if r.error == "timeout":
            ctx.notes.append("%s: TLC timed out after %ds with %d distinct states (not exhaustive)" % (mod, timeout, r.distinct))
        else:
            raise RuntimeError("TLC failed on %s: %s\n%s" % (mod, r.error, r.out[-1500:]))
    zero = [k for k, v in r.coverage.items() if v[0] == 0 and k not in ("Terminating",)]
    ctx.extra.setdefault("actions_never_taken", {})[sc["name"]] = zero
    ctx.extra.setdefault("_taken", {}).setdefault(comp["spec"], set()).update(k for k, v in r.coverage.items() if v[0] > 0)
    ctx.extra.setdefault("_labels", {}).setdefault(comp["spec"], set()).update(r.coverage.keys())
    return r, mod


def component(ctx, comp, comp_mc, scenarios, nseeds, nsim, mc_timeout):
    only = os.environ.get("VERIF_SCEN")
    scenarios = [s for s in scenarios if not only or s in only.split(",")]
    for scn in scenarios:
        if len(ctx.violations) >= conc.MAXV:
            return
        model_check(ctx, comp_mc, load_scenario(scn), mc_timeout)
    if scenarios and len(ctx.violations) < conc.MAXV:
        conc.run_component(ctx, comp, scenarios, nseeds=nseeds, nsim=nsim, mc=False)


def run(ctx):
    q = ctx.quick()
    component(ctx, WFS, WFS, WFS_QUICK + ([] if q else WFS_MORE), 60 if q else 1500, 16 if q else 300, 600 if q else 3000)
    # labels never taken by any scenario of a component
    never = {}
    for spec, labels in ctx.extra.pop("_labels", {}).items():
        never[spec] = sorted(l for l in labels - ctx.extra["_taken"][spec] if l not in ("Terminating", "SBBound"))
    ctx.extra.pop("_taken", None)
    ctx.extra["labels_never_taken_in_any_scenario"] = never


def replay(ctx, path):
    import json
    meta = json.load(open(os.path.join(path, "meta.json")))
    conc.replay(ctx, WFS if meta["scenario"].startswith("wfs_") else LFS, path)
