"""C07: among concurrent cds_lfht_del / cds_lfht_replace / cds_lfht_add_replace targeting one node exactly one obtains it, the others
fail; once the owner has returned and a grace period has elapsed nothing reads or writes the node again; the same for the bucket
tables released by a shrink (freed only after unlink + grace period) and for the table after cds_lfht_destroy, which refuses
non-empty tables.

Same component as C05 (tools/lfht_common.py).  Monitors in Lfht: SingleOwner, OwnedRemoved, NoUAF (alive ghosts of user nodes, of
every bucket-table order and of the table; every access and ->reverse_hash / key dereference asserts alive), ReclaimedUnreachable,
Conservation; on the real code: the owner quarantines its node after an abstract grace period, the wrapped memory-management plugin
quarantines released bucket tables, the recording cds_lfht_alloc quarantines struct cds_lfht: any later access is a UAF failure of
the runtime; a node obtained twice is a driver oracle failure."""
from vlib import *
import conc, lfht_common as L

LEVEL = "model_checking"
ASSUMPTIONS = L.ASSUMPTIONS
INV = ["SingleOwner", "OwnedRemoved", "NoUAF", "ReclaimedUnreachable", "Linearizable", "Conservation", "InTabIsPhysical", "BucketsLinked", "FlagsOk"]
COMP = L.comp_for(INV)
QUICK = ["lfht_2del", "lfht_addr_del_rc", "lfht_repl_lookup", "lfht_shrink_rd", "lfht_grow", "lfht_destroy"]      # lfht_grow: bucket nodes linked in front of equal-hash user nodes
THOROUGH = QUICK + ["lfht_shrink4", "lfht_regrow", "lfht_mix3", "lfht_repl2"]
NEG = [("lfht_2del", "owner_or"), ("lfht_2del", "gc_norestart"), ("lfht_shrink_rd", "free_early")]


def run(ctx):
    q = ctx.quick()
    # lfht_shrink4 (4 -> 2 -> 1: two bucket-table orders released by ONE fini_table call): conformance only in the quick tier
    L.run_lfht(ctx, COMP, QUICK + ["lfht_shrink4"] if q else THOROUGH, conf_only=("lfht_shrink4",) if q else (), nseeds=30 if q else 1000, nsim=8 if q else 200, both_modes=not q,
               mm_variants=() if q else ("chunk", "mmap"))
    if not q:
        L.negative_controls(ctx, COMP, NEG)


def replay(ctx, path):
    L.replay(ctx, COMP, path)
