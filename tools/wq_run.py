#!/usr/bin/env python3
"""Standalone runner of the Workqueue component (tools/props/wq_parts.py) -- for development and acceptance runs without touching
the shared plugins:

    python3 tools/wq_run.py quick|thorough [c09|c16|all]      (VERIF_SEED, VERIF_REPO, VERIF_WORK, VERIF_SCEN honoured)
    python3 tools/wq_run.py replay <violation-dir>

Builds a ctx exactly like tools/check.py does (pid WQC09 / WQC16, so that generated modules, builds and evidence never collide
with the real C09 / C16 checks), calls run_c09 / run_c16, prints the same PASS / FAIL / VIOLATION lines and uses the same exit
status (0 held, 1 violation, 2 machinery failure).  Unless VERIF_WORK is set, everything generated goes to a private directory
/tmp/wq_work_<pid> that is removed at the end when the run passed."""
import sys, os, time, shutil, traceback
own_work = None
if not os.environ.get("VERIF_WORK"):
    own_work = "/tmp/wq_work_%d" % os.getpid()
    os.environ["VERIF_WORK"] = own_work
sys.path.insert(0, os.path.dirname(os.path.abspath(__file__)))
from vlib import *
from check import Ctx
from props import wq_parts


def one(pid, fn, tier, seed):
    ctx = Ctx(pid, tier, seed)
    try:
        fn(ctx)
    except Exception as ex:
        traceback.print_exc()
        log("CHECK-ERROR property=%s %s" % (pid, ex))
        return 2
    wall = time.time() - ctx.t0
    cov = {"states": ctx.states, "transitions": ctx.transitions, "traces_validated_against_impl": ctx.traces, "samples": ctx.samples or ["(none)"],
           "trace_events_validated": ctx.events, "spec_behaviours_replayed_into_impl": ctx.replays, "tlc_configs": ctx.configs,
           "exhaustive": all(c["complete"] for c in ctx.configs) if ctx.configs else False, "notes": ctx.notes}
    cov.update({k: (sorted(v) if isinstance(v, set) else v) for k, v in ctx.extra.items()})
    write_evidence(pid, tier, seed, "model_checking", cov, wq_parts.ASSUMPTIONS, wall, len(ctx.violations))
    log("%s property=%s tier=%s states=%d traces=%d events=%d wall=%.1fs" % ("FAIL" if ctx.violations else "PASS", pid, tier, ctx.states, ctx.traces, ctx.events, wall))
    return 1 if ctx.violations else 0


def main():
    a = sys.argv[1:]
    seed = int(os.environ.get("VERIF_SEED", "1"))
    if a and a[0] == "replay":
        ctx = Ctx("WQREPLAY", "quick", seed)
        wq_parts.replay(ctx, a[1])
        rc = 1 if ctx.violations else 0
    else:
        tier = a[0] if a else "quick"
        which = a[1] if len(a) > 1 else "all"
        rc = 0
        if which in ("c09", "all"):
            rc = max(rc, one("WQC09", wq_parts.run_c09, tier, seed))
        if which in ("c16", "all"):
            rc = max(rc, one("WQC16", wq_parts.run_c16, tier, seed))
    if own_work and rc == 0:
        shutil.rmtree(own_work, ignore_errors=True)
    elif own_work:
        log("work directory kept: %s" % own_work)
    sys.exit(rc)


if __name__ == "__main__":
    main()
