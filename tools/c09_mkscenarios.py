"""Generator of scenarios/resize_*.json (C09).  The committed scenario files are the source of truth; this script only documents how they were produced."""
import json, os
D = "/verif/scenarios"
ALLN = list(range(0, 18)) + ["max+1", "BIG"]
def w(name, **kw):
    sc = {"name": name, "spec": "LfhtResize", "max": 8, "s0": 1, "auto": False, "acct": False, "cco": 1, "ncpus": 1, "mpo": 4, "failat": -1,
          "shift": 4, "pre": [], "prex": [], "count0": 0, "sc0": [[0, 0]], "growths": [2], "maxchk": 1, "growwins": False, "live": True}
    sc.update(kw)
    json.dump(sc, open(os.path.join(D, name + ".json"), "w"), indent=1)
# 1. every requested size, every max: two sequential calls from every reachable size (liveness + bounds), no partition threads
for m in (1, 2, 4, 8, 16):
    w("resize_seq_m%d" % m, max=m, live_quick=True, threads={"t1": [{"op": "resize", "ns": ALLN}, {"op": "resize", "ns": ALLN}]}, pre=[1, 2],
      descr="single caller: cds_lfht_resize(n) twice for every n in 0..17, max+1, ULONG_MAX; max_nr_buckets = %d" % m)
# 2. two concurrent callers + a reader: the target changes under the resizer (early exits of init_table / fini_table)
w("resize_conc", big=True, threads={"t1": [{"op": "resize", "ns": [3, 8]}], "t2": [{"op": "resize", "ns": [1, 5]}], "t3": [{"op": "lookup", "key": 1}]}, pre=[1, 2],
  descr="two concurrent cds_lfht_resize callers (grow / shrink / non powers of two) and a reader")
w("resize_conc2", s0=2, threads={"t1": [{"op": "resize", "ns": [3, 8]}], "t2": [{"op": "resize", "ns": [1, 5]}]}, pre=[1, 2],
  descr="two concurrent cds_lfht_resize callers (grow / shrink / non powers of two)")
# 3. grow then shrink against readers: bucket tables are released only after a grace period
w("resize_rd", s0=4, threads={"t1": [{"op": "resize", "ns": [1, 2]}, {"op": "resize", "ns": [8]}], "t2": [{"op": "lookup", "key": 1}, {"op": "lookup", "key": 2}]}, pre=[1, 2],
  descr="shrink (two orders) then grow while a reader performs two lookups")
# 4. partitioned populate / remove with helper threads, with and without pthread_create failing (EAGAIN)
for fa in (-1, 0, 1, 2):
    w("resize_part_f%s" % ("n" if fa < 0 else fa), ncpus=2, sc0=[[0, 0], [0, 0]], mpo=0, failat=fa, max=8, s0=2, live=(fa <= 0),
      threads={"t1": [{"op": "resize", "ns": [8]}, {"op": "resize", "ns": [2]}], "t2": [{"op": "lookup", "key": 1}]}, pre=[1, 2, 3],
      descr="partitioned resize (2 model CPUs, MIN_PARTITION_PER_THREAD_ORDER 0), pthread_create #%d fails" % fa)
w("resize_part_auto", auto=True, ncpus=1, mpo=0, max=8, s0=2, growths=[2], maxchkp=1, live=False,
  threads={"t1": [{"op": "resize", "ns": [4]}]}, pre=[1, 2, 3],
  descr="AUTO_RESIZE table, partition thread populating order 2: the bucket insertion walks a chain of 3 nodes, its check_resize raises resize_target (2 << 2 = 8) under the resizer")
w("resize_nocpu", ncpus=0, mpo=0, sc0=[[0, 0]] * 16, max=8, s0=2, live=True,
  threads={"t1": [{"op": "resize", "ns": [8, 5]}, {"op": "resize", "ns": [1]}], "t2": [{"op": "lookup", "key": 1}]}, pre=[1, 2],
  descr="CPU topology unknown (nr_cpus_mask = NR_CPUS_MASK_INIT_FAILED): partition_resize_helper always falls back to the caller although MIN_PARTITION_PER_THREAD_ORDER is 0")
# 5. lazy grow from chain length (AUTO_RESIZE, no accounting): two adders, the work-queue thread
w("resize_lazy_chain", big=True, auto=True, max=4, threads={"t1": [{"op": "add", "key": 7}], "t2": [{"op": "add", "key": 15}]}, pre=[1, 2, 3],
  growths=[2], growwins=True, live=False, descr="two concurrent adds on a chain of length >= 3: lazy grow, launch arbitration (resize_initiated), worker")
w("resize_lazy_chain1", auto=True, max=4, threads={"t1": [{"op": "add", "key": 7}, {"op": "lookup", "key": 1}]}, pre=[1, 2, 3],
  growths=[2], growwins=True, live=True, live_quick=True, descr="one add on a chain of length >= 3, then a lookup: lazy grow on the worker")
w("resize_lazy_seq", auto=True, max=16, threads={"t1": [{"op": "add", "key": 7}, {"op": "add", "key": 15}]}, pre=[1, 2, 3],
  growths=[2], growwins=True, live=True, maxchkp=0, thorough={"maxchkp": 1, "big": True}, descr="two successive adds on a long chain: the second lazy grow (4 -> 16) meets the resize_initiated flag left by the first launch (observation O2)")
# 6. counter driven lazy grow / shrink (AUTO_RESIZE | ACCOUNTING, COUNT_COMMIT_ORDER 1)
w("resize_lazy_count_grow", auto=True, acct=True, count0=6, sc0=[[1, 0]], max=4, growwins=True, maxchkp=0, thorough={"maxchkp": 1, "max": 8, "big": True},
  threads={"t1": [{"op": "add", "key": 5}], "t2": [{"op": "lookup", "key": 1}]}, pre=[1, 2],
  descr="an add commits the split counter: count 8 >= 8 * size: lazy grow to 8 on the worker, concurrent lookups")
w("resize_lazy_count_shrink", mms=True, auto=True, acct=True, count0=6, sc0=[[0, 1]], max=8, s0=8, growwins=True,
  threads={"t1": [{"op": "del", "key": 3}], "t2": [{"op": "lookup", "key": 1}, {"op": "lookup", "key": 2}]}, pre=[1, 2], prex=[3],
  descr="a del commits the split counter: count 4 < size 8: lazy shrink to 4 on the worker (grace periods), concurrent lookups")
# 7. lazy shrink racing with explicit resizes: every exit of the cmpxchg loop of cds_lfht_resize_lazy_count
w("resize_lazy_shrink_race", auto=True, acct=True, count0=4, sc0=[[0, 1]], max=16, s0=8, live=False, maxchkp=0, thorough={"maxchkp": 1, "big": True},
  threads={"t1": [{"op": "del", "key": 3}], "t2": [{"op": "resize", "ns": [2, 4, 16]}]}, pre=[1, 2], prex=[3],
  descr="del commits count 2 < size 8 (lazy shrink to 2) while cds_lfht_resize moves the target to 2 / 4 / 16: the cmpxchg loop returns, retries or launches")
# 8. destroy with resizes still queued (empty table), and plain destroy
w("resize_destroy_queued", mms=True, auto=True, acct=True, count0=6, sc0=[[1, 0]], max=4, live=True, live_quick=True,
  threads={"t1": [{"op": "add", "key": 5}, {"op": "del", "key": 5}, {"op": "destroy"}]},
  descr="the add queues a lazy grow; the table is emptied and destroyed while the resize is queued / running on the worker")
w("resize_destroy_helper", auto=True, s0=2, max=8, live=False, mpo=0, growths=[1, 2], maxchkp=1, big=True, spec_only=True,
  threads={"t1": [{"op": "add", "key": 5}, {"op": "del", "key": 5}, {"op": "destroy"}]},
  descr="specification only: a partition thread's check_resize reaches the lazy launch while the table is being destroyed (needs the store of resize_initiated to be still buffered when the helper starts: pthread_create is not modelled as a fence)")
w("resize_destroy_2t", auto=True, acct=True, count0=6, sc0=[[1, 0]], max=4, live=False,
  threads={"t1": [{"op": "add", "key": 5}, {"op": "del", "key": 5}], "t2": [{"op": "destroy"}]},
  descr="as resize_destroy_queued, destroy issued by a second thread once the first has finished")
w("resize_destroy_plain", mms=True, max=4, threads={"t1": [{"op": "resize", "ns": [4, 3]}, {"op": "destroy"}], "t2": [{"op": "lookup", "key": 1}]},
  descr="table without AUTO_RESIZE: resize then destroy by the caller (cds_lfht_delete_bucket), and destroy refused (-EPERM) is not reached: no resident key")
w("resize_destroy_eperm", auto=True, max=4, threads={"t1": [{"op": "destroy"}]}, pre=[1], descr="destroy of a non-empty AUTO_RESIZE table returns -EPERM and leaves it intact")
