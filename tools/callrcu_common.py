"""Shared by tools/props/c03.py and c04.py: the CallRcu component (spec/CallRcu.tla <-> harness/d_callrcu.c)."""
import os, json, re, shutil
from vlib import *
import conc

OPS = ("call", "rlock", "runlock", "sync", "getdef", "create", "setthr", "setcpu", "cpu", "free", "barrier", "pause", "resume", "createall", "freeall", "offline", "online", "pub", "qfree")


def norm_op(o):
    assert o["op"] in OPS, o
    return {"op": o["op"], "n": o.get("n", "-"), "x": o.get("x", "-"), "f": int(o.get("f", 0)), "c": int(o.get("c", 0))}


def nodes_of(sc):
    ns = set()
    for ops in sc["threads"].values():
        ns |= {o["n"] for o in ops if o["op"] == "call"}
    ns |= set(sc.get("re", {}).values())
    return sorted(ns)


def sanity(sc):
    called = set()
    for t, ops in sc["threads"].items():
        nest = 0
        for o in ops:
            if o["op"] == "call":
                assert o["n"] not in called, "rcu_head %s passed to call_rcu twice" % o["n"]; called.add(o["n"])
            elif o["op"] == "rlock": nest += 1
            elif o["op"] == "runlock": nest -= 1; assert nest >= 0
            elif o["op"] in ("barrier", "sync", "free", "pause"):
                assert nest == 0 or sc.get("misuse"), "%s inside a read-side critical section" % o["op"]
        assert nest == 0
    for a, b in sc.get("re", {}).items():
        assert b not in called, "re-enqueued head %s is also enqueued directly" % b; called.add(b)


def consts(sc):
    sanity(sc)
    thr = {t: [norm_op(o) for o in ops] for t, ops in sc["threads"].items()}
    re_ = {n: sc.get("re", {}).get(n, "-") for n in nodes_of(sc)}
    return {"Threads": tla(set(thr)), "Prog": tla_fun(thr), "SBMax": str(sc.get("sbmax", 2)), "NHelp": str(sc.get("nhelp", 1)),
            "NCpu": str(sc.get("ncpu", 2)), "Re": tla_fun(re_), "Spurious": str(sc.get("spurious", 0)),
            "SigThreads": tla(set(sc.get("sig_threads", []))), "SigBudget": str(sc.get("sig_budget", 0)),
            "Mut": tla(set(sc.get("mut", [])))}


def program(sc):
    out = []
    if any(o["op"] in ("createall", "freeall") for ops in sc["threads"].values() for o in ops):
        out.append("ncpu %d" % sc.get("ncpu", 2))      # the possible-CPU array length seen by the library = the model's NCpu
    for n, m in sc.get("re", {}).items():
        out.append("re %s %s" % (n, m))
    for t in sc.get("sig_threads", []):
        out.append("sig %s" % t)
    for t, ops in sc["threads"].items():
        out.append("thread %s" % t)
        for o in ops:
            o = norm_op(o)
            out.append("%s %s %s %d %d" % (o["op"], o["n"], o["x"], o["f"], o["c"]))
    return "\n".join(out) + "\n"


# ------------------------------------------------------------------ projection of recorded executions
DROP_OPS = ("rmb", "wmb", "sigmask", "end", "blocked", "relax", "poll", "replay_diverged")
XA = {"sig_enter": "a", "sig_exit": "a", "st": "a", "flush": "a", "xchg": "a", "inc": "a", "dec": "a", "add": "a", "or": "a", "and": "a", "addret": "a", "fwait": "a", "call": "a", "cb": "a"}
XR = {"sig_enter": "r", "sig_exit": "r", "ld": "r", "xchg": "r", "inc": "r", "dec": "r", "add": "r", "or": "r", "and": "r", "addret": "r", "fwait": "r", "fwoke": "r", "fwake": "r",
      "ret": "r", "rlock": "r", "runlock": "r"}


def merge_sig(events):
    """C19: the runtime's sig_enter / sig_exit events get the reader state the driver's handler logged right after entry / right
    before exit (events sigst: nesting count and rcu_read_ongoing() read from the flavor's reader state) as operands a / r."""
    if not any(e.get("op") == "sigst" for e in events):
        return events
    out = []; last_enter = {}; pend_exit = {}
    for e in events:
        op = e.get("op"); t = e.get("t")
        if op == "sig_enter":
            e = dict(e); last_enter[t] = e
        elif op == "sigst":
            if e.get("at") == "enter" and t in last_enter:
                last_enter.pop(t).update(a=e.get("nest"), r=e.get("ongoing"), win=e.get("win", 0))
            elif e.get("at") == "exit":
                pend_exit[t] = e
            continue
        elif op == "sig_exit" and t in pend_exit:
            x = pend_exit.pop(t); e = dict(e, a=x.get("nest"), r=x.get("ongoing"))
        out.append(e)
    return out


def project(events):
    """Runtime events -> events of the CallRcu specification (uniform records t, op, var, xa, xr).
    Dropped: runtime bookkeeping, busy-wait hints, and every access to a location without a name (the helper's private
    temporary queue, stack variables)."""
    out = []
    for e in merge_sig(events):
        op = e.get("op")
        if op in DROP_OPS or e.get("var") == "?" or e.get("loc") == "plain":
            continue
        n = {"t": e.get("t", "-"), "op": op, "var": e.get("var", "-"), "xa": "-", "xr": "-"}
        if op in XA and XA[op] in e:
            n["xa"] = e[XA[op]]
        if op in XR and XR[op] in e:
            n["xr"] = e[XR[op]]
        if op == "fail":
            n["what"] = e.get("what", "")
        out.append(n)
    return out


INVARIANTS = ["NoErr", "NoUseAfterFree", "NoLoss"]


def component(defines=(), variant=""):
    return {
        "spec": "CallRcu", "driver": "d_callrcu.c", "trace": "CallRcuTrace", "drvname": "d_callrcu" + variant, "variant": variant,
        "invariants": INVARIANTS, "mc_invariants": [], "constraints": [],
        "consts": consts, "program": program, "defines": list(defines),
        "normalize": {"drop_ops": (), "extra_fields": ("xa", "xr")},
        "trace_consts": {"SBMax": "40"},
        "pct_len": 200, "env": {"VRT_BUDGET": 8000},
    }


def run_batch_projected(ctx, comp, exe, sc, tso, seeds, wd):
    env = {}
    if sc.get("spurious"):
        env = {"VRT_SPURIOUS": (sc["spurious"] + 1) // 2, "VRT_EINTR": sc["spurious"] // 2}
    runs, fails, pf = conc.run_batch(ctx, comp, exe, sc, tso, seeds, wd, env_extra=env)
    return [(seed, project(ev)) for seed, ev in runs], fails


# ------------------------------------------------------------------ model checking
def model_check(comp, sc, workers, timeout, props=(), mut=(), coverage=False):
    """TLC on the scenario.  Safety: the invariants + TLC's deadlock check on DSpec (termination is an explicit stuttering
    step, so a reported deadlock is a scenario thread that can never finish).  With `props`: liveness under FairSpec."""
    sc = dict(sc)
    if mut:
        sc["mut"] = list(mut)
    c = conc.consts_for(comp, sc, True, False)
    tag = "".join(mut)
    if props:
        mod = gen_mc(sc, "live" + tag, c, cfg_lines=["SPECIFICATION FairSpec"] + ["PROPERTY " + p for p in props] + ["INVARIANT NoErr", "CHECK_DEADLOCK FALSE"])
    else:
        mod = gen_mc(sc, "mc" + tag, c, cfg_lines=["SPECIFICATION " + ("SigDSpec" if sc.get("sig_threads") else "DSpec")] + ["INVARIANT " + i for i in comp["invariants"]] + ["CHECK_DEADLOCK TRUE"])
    for attempt in (1, 2):
        r = run_tlc(mod, coverage=coverage, timeout=timeout, heap="8g", workers=workers)
        if r.ok or r.violation or r.error:
            break           # (a TLC process killed from outside leaves none of the three: run it again once)
    if r.error == "timeout" and not r.distinct:     # no final summary: take the last progress report
        m = re.findall(r"Progress\(\d+\) at [^:]*:\d+:\d+: ([\d,]+) states generated .*?, ([\d,]+) distinct states found", r.out)
        if m:
            r.states = int(m[-1][0].replace(",", "")); r.distinct = int(m[-1][1].replace(",", ""))
    return mod, c, r


def mc_report(ctx, sc, mod, c, r, timeout, expect=None):
    """expect = None: the scenario must hold.  expect = substring: negative control, TLC must report a violation whose
    description contains it (the invariants have teeth); anything else is a failure of the check itself."""
    ctx.add_tlc(r, mod, {k: v for k, v in c.items() if len(v) < 200})
    log("  [TLC] %s: %d distinct states, %.0fs, %s%s" % (mod, r.distinct, r.wall, "ok" if r.ok else (r.violation or r.error), " (negative control)" if expect is not None else ""))
    if expect is not None:
        what = (r.violation or "") + " " + " ".join(re.findall(r'errs = \{(.*?)\}', r.out)[-1:]) + (" uaf" if re.search(r"/\\ uaf = TRUE", r.out) else "")
        if not r.violation or expect not in what:
            raise RuntimeError("negative control %s did not produce the expected violation (%s): got %s" % (mod, expect, what.strip() or r.error or "no violation"))
        n = len(re.findall(r"^State \d+:", r.out, re.M))
        ctx.extra.setdefault("negative_controls", []).append({"config": mod, "expected": expect, "found": what.strip(), "counterexample_states": n})
        return
    if r.violation:
        d = ctx.viol_dir(); shutil.copy(r.log, os.path.join(d, "tlc.log"))
        json.dump({"kind": "tlc", "scenario": sc["name"], "module": mod}, open(os.path.join(d, "meta.json"), "w"))
        errs = re.findall(r'errs = \{(.*?)\}', r.out)
        ctx.violation("TLC: %s violated in %s%s (design-level counterexample in tlc.log)" % (r.violation, mod, " [" + errs[-1] + "]" if errs and errs[-1] else ""), d)
    elif not r.ok:
        if r.error == "timeout":
            ctx.notes.append("%s: TLC timed out after %ds with %d distinct states (not exhaustive)" % (mod, timeout, r.distinct))
        else:
            raise RuntimeError("TLC failed on %s: %s\n%s" % (mod, r.error, r.out[-1500:]))
    if r.coverage:
        ctx.extra.setdefault("actions_never_taken", {})[sc["name"]] = [k for k, v in r.coverage.items() if v[0] == 0 and k != "Terminating"]
        ctx.extra.setdefault("actions_taken", set()).update(k for k, v in r.coverage.items() if v[0] > 0)


def write_script(sc, idx, wd):
    p = os.path.join(wd, "script_%s_%d.txt" % (sc["name"], idx))
    with open(p, "w") as f:
        f.write("\n".join(sc["scripts"][idx]["order"]) + "\n")
    return p


def conformance(ctx, comp, exe, sc, tsos, nseeds, nscript, wd):
    """Recorded executions of the real code (seeded PCT / uniform schedules, then the scenario's directed schedules) are
    validated against the specification."""
    for tso in tsos:
        if len(ctx.violations) >= conc.MAXV:
            return
        seeds = [ctx.seed * 100003 + i for i in range(nseeds)]
        runs, fails = run_batch_projected(ctx, comp, exe, sc, tso, seeds, wd)
        conc.report_failures(ctx, comp, fails)
        if runs:
            ctx.sample({"kind": "recorded execution of the real code (first events)", "scenario": sc["name"], "tso": tso, "seed": runs[0][0],
                        "events": [{k: v for k, v in e.items() if v != "-"} for e in runs[0][1][:16]]})
        conc.validate(ctx, comp, sc, tso, runs, wd, "tv_%s_%d" % (sc["name"], tso))
        for k, scr in enumerate(sc.get("scripts", [])):
            if len(ctx.violations) >= conc.MAXV or not nscript:
                break
            sp = write_script(sc, k, wd)
            c2 = dict(comp); c2["env"] = dict(comp["env"], CR_SCRIPT=sp)
            seeds = [ctx.seed * 100003 + 50000 + i for i in range(nscript)]
            before = ctx.traces
            runs, fails = run_batch_projected(ctx, c2, exe, sc, tso, seeds, wd)
            for f in fails:
                f["env"]["CR_SCRIPT_ORDER"] = "|".join(scr["order"])
            conc.report_failures(ctx, c2, fails)
            conc.validate(ctx, comp, sc, tso, runs, wd, "tvs_%s_%d_%d" % (sc["name"], tso, k))
            ctx.replays += ctx.traces - before
            if runs and k == 0 and tso == tsos[0]:
                ctx.sample({"kind": "directed schedule derived from a TLC counterexample, enforced on the real code", "scenario": sc["name"], "from": scr.get("from", ""), "order": scr["order"]})


def run_property(ctx, pid, scenarios, negatives, live, nseeds, nscript, sc_tsos, mc_workers=3, mc_timeout=3000, coverage=False, defines=(), conf_only=()):
    """scenarios: names model checked (background) and executed/validated (foreground); negatives: [(scenario, mutants,
    expected)] model-level negative controls; live: [(scenario, properties)] liveness configurations."""
    import concurrent.futures as cf
    comp = component(defines)
    wd = os.path.join(ctx.outdir, "work"); shutil.rmtree(wd, ignore_errors=True); os.makedirs(wd)
    only = os.environ.get("VERIF_SCEN")
    scs = [load_scenario(s) for s in scenarios if not only or s in only.split(",")]
    exe = build_driver(comp["drvname"], comp["driver"], defines=comp["defines"], tag=ctx.pid + "_" + comp["drvname"])
    with cf.ThreadPoolExecutor(1) as pool:      # one background TLC (mc_workers) + the foreground trace validator (1 worker)
        # conf_only: scenarios whose executions are validated against the specification without the exhaustive TLC run (done in the thorough tier)
        jobs = [(sc, None, pool.submit(model_check, comp, sc, mc_workers, mc_timeout, (), (), coverage)) for sc in scs if sc["name"] not in conf_only]
        if not only:
            jobs += [(load_scenario(s), exp, pool.submit(model_check, comp, load_scenario(s), mc_workers, mc_timeout, (), tuple(m))) for s, m, exp in negatives]
            jobs += [(load_scenario(s), None, pool.submit(model_check, comp, load_scenario(s), mc_workers, mc_timeout, tuple(props))) for s, props in live]
        for sc in scs:
            conformance(ctx, comp, exe, sc, sc_tsos.get(sc["name"], (1,)), nseeds, nscript, wd)
            log("  [conf] %s: traces validated so far %d, events %d, directed %d, violations %d" % (sc["name"], ctx.traces, ctx.events, ctx.replays, len(ctx.violations)))
        for sc, exp, j in jobs:
            mod, c, r = j.result()
            mc_report(ctx, sc, mod, c, r, mc_timeout, expect=exp)
    shutil.rmtree(wd, ignore_errors=True)
    if "actions_taken" in ctx.extra:
        taken = ctx.extra.pop("actions_taken")
        never = set().union(*[set(v) for v in ctx.extra.get("actions_never_taken", {}).values()]) - taken
        ctx.extra["actions_never_taken_in_any_scenario"] = sorted(never)


def real_flavor(ctx, flavor, scenarios, nseeds, tsos=(1,)):
    """Integration runs: the same driver over a REAL flavor translation unit (src/urcu.c includes urcu-call-rcu-impl.h): driver
    oracles on every execution, and the executions -- projected on the call_rcu component -- validated against the specification."""
    comp = component(REAL_DEFINES[flavor], variant="_" + flavor)
    comp["env"] = dict(comp["env"], VRT_BUDGET=30000)
    wd = os.path.join(ctx.outdir, "work_" + flavor); shutil.rmtree(wd, ignore_errors=True); os.makedirs(wd)
    exe = build_driver(comp["drvname"], comp["driver"], defines=comp["defines"], tag=ctx.pid + "_" + comp["drvname"])
    only = os.environ.get("VERIF_SCEN")
    n0 = ctx.traces
    for name in scenarios:
        if only and name not in only.split(","):
            continue
        sc = load_scenario(name)
        for tso in tsos:
            if len(ctx.violations) >= conc.MAXV:
                break
            seeds = [ctx.seed * 100003 + 70000 + i for i in range(nseeds)]
            runs, fails, pf = conc.run_batch(ctx, comp, exe, sc, tso, seeds, wd)
            for f in fails:
                f["env"]["CR_REAL_FLAVOR"] = flavor
            conc.report_failures(ctx, comp, fails)
            conc.validate(ctx, comp, sc, tso, [(s_, project_real(ev)) for s_, ev in runs], wd, "tvr_%s_%s_%d" % (flavor, name, tso))
    ctx.extra["traces_over_real_flavor_" + flavor] = ctx.traces - n0
    log("  [real %s] traces validated %d, violations %d" % (flavor, ctx.traces - n0, len(ctx.violations)))
    shutil.rmtree(wd, ignore_errors=True)


def replay(ctx, path, defines=()):
    """Re-run one recorded violation on the current tree: a TLC configuration or a recorded execution (same scenario, seed,
    scheduler mode, directed schedule)."""
    meta = json.load(open(os.path.join(path, "meta.json")))
    m = re.match(r"TV_.*_(mb|memb|qsbr)_[01]$", str(meta.get("trace_module", "")))
    flavor = (meta.get("env") or {}).get("CR_REAL_FLAVOR") or (m.group(1) if m else None)
    comp = component(REAL_DEFINES[flavor], variant="_" + flavor) if flavor else component(defines)
    if flavor:
        comp["env"] = dict(comp["env"], VRT_BUDGET=30000)
    sc = load_scenario(meta["scenario"])
    if meta.get("kind") == "tlc":
        m = re.match(r"MC_.*_(mc|live)(\w*)$", meta["module"])
        mod, c, r = model_check(comp, sc, 4, 3000, ("EventuallyInvoked", "BarrierReturns") if m and m.group(1) == "live" else ())
        mc_report(ctx, sc, mod, c, r, 3000)
    else:
        wd = os.path.join(ctx.outdir, "replay_work"); shutil.rmtree(wd, ignore_errors=True); os.makedirs(wd)
        exe = build_driver(comp["drvname"], comp["driver"], defines=comp["defines"], tag=ctx.pid + "_" + comp["drvname"])
        env = dict(meta.get("env") or {})
        if "CR_SCRIPT_ORDER" in env:
            sp = os.path.join(wd, "script.txt"); open(sp, "w").write(env.pop("CR_SCRIPT_ORDER").replace("|", "\n") + "\n"); env["CR_SCRIPT"] = sp
        c2 = dict(comp); c2["env"] = dict(comp["env"]); c2["env"].update({k: v for k, v in env.items() if k.startswith("CR_")})
        runs, fails, pf = conc.run_batch(ctx, c2, exe, sc, meta["tso"], [meta["seed"]], wd, env_extra={k: v for k, v in env.items() if k.startswith("VRT_")})
        conc.report_failures(ctx, c2, fails)
        conc.validate(ctx, comp, sc, meta["tso"], [(s, (project_real if flavor else project)(ev)) for s, ev in runs], wd, "tv_replay")
    log("replay of %s: %s" % (path, "violation reproduced" if ctx.violations else "no violation on the current tree"))


# ------------------------------------------------------------------ real flavor variant (integration runs)
REAL_DEFINES = {"qsbr": ["CR_FLAVOR_QSBR", "URCU_VERIF_RCU_QS_ACTIVE_ATTEMPTS=2", "URCU_VERIF_URCU_WAIT_ATTEMPTS=2"],
                "mb": ["CR_FLAVOR_MB", "URCU_VERIF_RCU_QS_ACTIVE_ATTEMPTS=2", "URCU_VERIF_URCU_WAIT_ATTEMPTS=2", "URCU_VERIF_KICK_READER_LOOPS=2"],
                "memb": ["CR_FLAVOR_MEMB", "URCU_VERIF_RCU_QS_ACTIVE_ATTEMPTS=2", "URCU_VERIF_URCU_WAIT_ATTEMPTS=2", "URCU_VERIF_KICK_READER_LOOPS=2"]}
MINE_FILES = ("urcu-call-rcu-impl.h", "ref.h", "wfcqueue.h")
DRIVER_OPS = ("call", "ret", "cb", "cbend", "rlock", "runlock", "spawn", "join", "exit", "free", "fail", "sig_enter", "sig_exit")


def project_real(events):
    """Executions over a REAL flavor (src/urcu.c ...): the grace-period internals -- every access to a location the driver
    did not name, the flavor's mutexes and futex, fences issued from other files -- are dropped (C01's business) and replaced by
    the abstract events of the specification.  The read lock held inside call_rcu() becomes rlock (just before the first
    call_rcu-level event after the call) and runlock (at the first flavor-level event after the last call_rcu-level one, i.e.
    where the real rcu_read_unlock starts), so that the abstract section lies inside the real one.  A synchronize_rcu() becomes
    gp_begin (right after the event that precedes it: the helper's splice, or the caller's call) and gp_end (right before the
    caller's next own event), so that the abstract grace period contains the real one -- but only if flavor-level events of that
    thread were recorded in between (otherwise no grace period ran and none is reported).
    C19: the events of a signal handler frame (sig_enter .. sig_exit of the interrupted thread; the handler's own rlock / runlock are
    logged by the driver with the flavor's nesting count, after the real rcu_read_lock returned / before the real rcu_read_unlock is
    called) take no part in that bookkeeping: its flavor-level events are dropped, the rest is kept in place.
    The sig_enter / sig_exit events carry the nesting count the executed code read from the flavor's reader word, and the
    specification must be at that nesting depth.  An abstract section lies strictly inside the real one, so a handler that interrupts
    a real rcu_read_lock() after its store to the reader word (signal delivery is a full barrier: the store is visible) or a real
    rcu_read_unlock() before its store finds the flavor's count one above the abstract one; the abstract rlock is then placed right
    before the sig_enter (and the later one dropped), the abstract runlock right after the sig_exit (and the earlier one withdrawn) --
    the abstract section still lies inside the real one.  Which of the two applies is known from the driver (sigst field win: 1 inside
    the real rcu_read_lock of a scenario rlock, 2 inside the real rcu_read_unlock of a scenario runlock) or, inside call_rcu(), from
    the phase (before its first / after its last call_rcu-level event)."""
    out = []; nest = {}; pend_gp = {}; incall = {}; phase = {}; lockpos = {}; insig = {}; early = {}
    runlock_idx = {}; skip_rlock = {}; redo = {}
    def absnest(t):
        return nest.get(t, 0) + (1 if incall.get(t) == "call" and (phase.get(t) == 1 or early.get(t)) else 0)
    def emit(t, op, xr="-"):
        out.append({"t": t, "op": op, "var": "-", "xa": "-", "xr": xr})
    def rec(e, op, t, var):
        n = {"t": t, "op": op, "var": var, "xa": "-", "xr": "-"}
        if op in XA and XA[op] in e:
            n["xa"] = e[XA[op]]
        if op in XR and XR[op] in e:
            n["xr"] = e[XR[op]]
        if op == "fail":
            n["what"] = e.get("what", "")
        return n
    for e in merge_sig(events):
        op = e.get("op"); t = e.get("t", "-"); var = e.get("var", "-")
        if op in DROP_OPS or e.get("loc") == "plain":     # (plain accesses to named locations, logged only with CR_WATCH_PLAIN: not part of the specification)
            continue
        if op == "sig_enter":
            insig[t] = insig.get(t, 0) + 1
            if insig[t] == 1 and isinstance(e.get("a"), int) and e["a"] == absnest(t) + 1:
                incr = incall.get(t) == "call"
                if (incr and phase.get(t) == 0 and not early.get(t)) or (not incr and e.get("win") == 1 and not skip_rlock.get(t)):
                    emit(t, "rlock", absnest(t) + 1)              # (the rest of the real rcu_read_lock follows the handler)
                    if incr:
                        early[t] = True
                    else:
                        skip_rlock[t] = True; nest[t] = nest.get(t, 0) + 1
                elif ((incr and phase.get(t) == 2) or (not incr and e.get("win") == 2)) and runlock_idx.get(t) is not None:
                    redo[t] = out[runlock_idx[t]]; out[runlock_idx.pop(t)] = None      # (the real rcu_read_unlock has not stored yet)
        if insig.get(t):
            if var != "?" and (op in DRIVER_OPS or op == "flush" or var == "gptr"):
                out.append(rec(e, op, t, var))
            if op == "sig_exit":
                insig[t] -= 1
                if not insig[t] and t in redo:
                    runlock_idx[t] = len(out); out.append(redo.pop(t))
            continue
        loc = e.get("loc")
        foreign = loc is not None and loc.split(":")[0] not in MINE_FILES and var != "gptr"
        if foreign and incall.get(t) == "call" and phase.get(t) == 1:
            emit(t, "runlock", nest.get(t, 0)); phase[t] = 2; runlock_idx[t] = len(out) - 1
        if foreign and t in pend_gp:
            pend_gp[t][1] = True                          # flavor-level events after the splice / the call: a real synchronize_rcu() ran
        if foreign and incall.get(t) == "call" and phase.get(t) == 0:
            lockpos[t] = len(out); out.append(None)      # candidate position of rlock: after the last event of the real rcu_read_lock
        if var == "?":
            continue
        if op in DRIVER_OPS or op == "flush":
            keep = True
        elif loc is not None:
            keep = not foreign
        elif op in ("lock", "unlock", "trylock"):
            keep = var == "call_rcu_mutex"
        elif op in ("fwait", "fwoke", "fwake"):
            keep = True
        else:
            keep = False
        if not keep:
            continue
        if op != "flush":
            g = pend_gp.pop(t, None)
            if g and g[1]:                                # (no grace-period activity seen: no abstract grace period either -> rejected)
                out[g[0]] = {"t": t, "op": "gp_begin", "var": "-", "xa": "-", "xr": "-"}
                emit(t, "gp_end")
            if incall.get(t) == "call" and phase.get(t) == 0 and op != "ret":
                r = {"t": t, "op": "rlock", "var": "-", "xa": "-", "xr": nest.get(t, 0) + 1}
                if early.pop(t, False):
                    lockpos.pop(t, None)
                elif t in lockpos:
                    out[lockpos.pop(t)] = r
                else:
                    out.append(r)
                phase[t] = 1
        n = {"t": t, "op": op, "var": var, "xa": "-", "xr": "-"}
        if op in XA and XA[op] in e:
            n["xa"] = e[XA[op]]
        if op in XR and XR[op] in e:
            n["xr"] = e[XR[op]]
        if op == "fail":
            n["what"] = e.get("what", "")
        if op in ("rlock", "runlock"):
            nest[t] = e.get("r", 0)
            if op == "rlock" and skip_rlock.pop(t, False):
                continue                                  # (already placed before the handler that interrupted the real rcu_read_lock)
        if op == "ret":
            if incall.get(t) == "call" and phase.get(t) == 1:
                emit(t, "runlock", nest.get(t, 0))
            incall[t] = None
        if op != "flush":
            runlock_idx.pop(t, None)
            if op == "runlock":
                runlock_idx[t] = len(out)
        out.append(n)
        if op == "call":
            incall[t] = e.get("a"); phase[t] = 0; lockpos.pop(t, None); early.pop(t, None)
            if e.get("a") == "sync":
                pend_gp[t] = [len(out), False]; out.append(None)
        elif op == "xchg" and re.match(r"h\d+$", t) and var.endswith(".tail") and str(e.get("a", "")).startswith("H"):
            pend_gp[t] = [len(out), False]; out.append(None)
    return [x for x in out if x is not None]


# ------------------------------------------------------------------ recorded finding (qsbr): self-deadlock of library waits
QSBR_FINDING_KEY = "C03-qsbr-data-free-online-caller-hang"
QSBR_DEFINES = ["CR_FLAVOR_QSBR", "URCU_VERIF_RCU_QS_ACTIVE_ATTEMPTS=2", "URCU_VERIF_URCU_WAIT_ATTEMPTS=2"]


def qsbr_finding(ctx):
    """urcu-qsbr: call_rcu_data_free() called by a registered ONLINE thread while the helper holds a callback never returns
    (the helper's synchronize_rcu() waits for the caller's quiescent state, the caller polls for URCU_CALL_RCU_STOPPED without
    going offline -- rcu_barrier() does go offline).  Only executed when known_findings.jsonl lists the key (status known): it is
    then reported as KNOWN-FINDING; an unlisted hang of the same kind would be a violation."""
    if not any(f.get("key") == QSBR_FINDING_KEY for f in ctx.findings):
        return
    comp = component(QSBR_DEFINES, variant="_qsbr")
    wd = os.path.join(ctx.outdir, "work_qsbr"); shutil.rmtree(wd, ignore_errors=True); os.makedirs(wd)
    exe = build_driver(comp["drvname"], comp["driver"], defines=comp["defines"], tag=ctx.pid + "_" + comp["drvname"])
    sc = load_scenario("crcu_thr_re")
    runs, fails, pf = conc.run_batch(ctx, comp, exe, sc, 0, [ctx.seed * 100003 + i for i in range(3)], wd)
    for f in fails:
        d = ctx.viol_dir()
        if os.path.exists(f["trace"]):
            shutil.move(f["trace"], os.path.join(d, "trace.ndjson"))
        f["env"]["CR_REAL_FLAVOR"] = "qsbr"
        json.dump(f, open(os.path.join(d, "meta.json"), "w"), indent=1)
        hang = "BUDGET" in f["stderr"]
        ctx.violation("qsbr: call_rcu_data_free() by an online reader does not return: %s" % f["stderr"].strip()[-120:], d, key=QSBR_FINDING_KEY if hang else None)
    ctx.extra["qsbr_finding_runs"] = {"runs": len(runs) + len(fails), "hung": len(fails)}
    shutil.rmtree(wd, ignore_errors=True)
