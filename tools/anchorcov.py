"""Anchor coverage (DESIGN 2.7): which lines of a property's anchors (properties.jsonl: anchors.mechanism[].where, anchors.state[].where,
line numbers of the pinned base commit) were executed by the drivers of a check.

The drivers are rebuilt with --coverage (VERIF_COV=1 makes vlib.build_driver do that) in a separate work directory, the check's quick
tier is run once more against them, and the .gcda files are read with `gcov --json-format`.  Line numbers of the base commit are
mapped onto the working tree with a diff of the two versions of each file, so hook blocks and fix: commits do not shift the ranges.
Python 3 standard library only."""
import json, os, re, subprocess, gzip, difflib, glob

VERIF = os.path.dirname(os.path.dirname(os.path.abspath(__file__)))
REPO = os.environ.get("VERIF_REPO", "/repo")


def base_commit():
    """the pinned commit = the parent of the first hook commit"""
    try:
        r = subprocess.run(["git", "-C", "/repo", "rev-list", "--max-parents=0", "HEAD"], capture_output=True, text=True)
        return r.stdout.split()[0]
    except Exception:
        return None


def resolve(path):
    cands = [path, "include/urcu/" + path, "src/" + path, "include/" + path]
    for c in cands:
        if os.path.exists(os.path.join(REPO, c)):
            return c
    return None


def parse_where(where, files):
    """'src/urcu.c:337-458 (391, 411); static/urcu-mb.h:57-65,99-108' -> [(path, [(a, b), ...])]"""
    out = []
    last = None
    for part in where.split(";"):
        part = re.sub(r"\([^)]*\)", "", part).strip()
        m = re.match(r"^([\w./+-]+?\.(?:c|h|md))\s*:?\s*([\d,\s-]*)", part)
        if not m:
            continue
        path = resolve(m.group(1))
        if not path or not path.endswith((".c", ".h")):
            continue
        rngs = []
        for r in m.group(2).split(","):
            r = r.strip()
            mm = re.match(r"^(\d+)(?:-(\d+))?$", r)
            if mm:
                a = int(mm.group(1)); b = int(mm.group(2) or a)
                rngs.append((a, b))
        out.append((path, rngs))
    return out


def line_map(path, base):
    """old line number -> new line number (None if the line was removed)"""
    try:
        old = subprocess.run(["git", "-C", "/repo", "show", "%s:%s" % (base, path)], capture_output=True, text=True).stdout.split("\n")
    except Exception:
        return None
    new = open(os.path.join(REPO, path), errors="replace").read().split("\n")
    sm = difflib.SequenceMatcher(a=old, b=new, autojunk=False)
    m = {}
    for tag, i1, i2, j1, j2 in sm.get_opcodes():
        if tag == "equal":
            for k in range(i2 - i1):
                m[i1 + k + 1] = j1 + k + 1
    return m


def gcov_counts(build_dir):
    """{repo-relative path: {line: count}} aggregated over every .gcda below build_dir"""
    counts = {}
    for gcda in glob.glob(os.path.join(build_dir, "**", "*.gcda"), recursive=True):
        d = os.path.dirname(gcda)
        r = subprocess.run(["gcov", "--json-format", "--stdout", os.path.basename(gcda)], cwd=d, capture_output=True)
        if r.returncode != 0 or not r.stdout:
            continue
        try:
            txt = r.stdout
            if txt[:2] == b"\x1f\x8b":
                txt = gzip.decompress(txt)
            docs = [json.loads(x) for x in txt.decode(errors="replace").split("\n") if x.strip().startswith("{")]
        except Exception:
            continue
        for doc in docs:
            for f in doc.get("files", []):
                p = os.path.normpath(os.path.join(d, f["file"])) if not os.path.isabs(f["file"]) else os.path.normpath(f["file"])
                rp = os.path.realpath(p)
                root = os.path.realpath(REPO) + os.sep
                if not rp.startswith(root):
                    continue
                rel = rp[len(root):]
                c = counts.setdefault(rel, {})
                for ln in f.get("lines", []):
                    c[ln["line_number"]] = c.get(ln["line_number"], 0) + ln["count"]
    return counts


def report(pid, build_dir):
    props = {json.loads(l)["id"]: json.loads(l) for l in open(os.path.join(VERIF, "properties.jsonl"))}
    p = props[pid]
    base = base_commit()
    counts = gcov_counts(build_dir)
    maps = {}
    res = []; tot_exec = tot_hit = 0
    for kind in ("mechanism", "state"):
        for a in p["anchors"].get(kind, []):
            for path, rngs in parse_where(a.get("where", ""), None):
                if path not in maps:
                    maps[path] = line_map(path, base) if base else None
                lm = maps[path]; c = counts.get(path)
                for (x, y) in rngs:
                    ent = {"anchor": a.get("name", "")[:70], "file": path, "base_lines": "%d-%d" % (x, y)}
                    if c is None:
                        ent["status"] = "file not compiled into any instrumented driver of this check"
                    else:
                        new = [lm.get(k) if lm else k for k in range(x, y + 1)]
                        ex = [k for k in new if k and k in c]
                        hit = [k for k in ex if c[k] > 0]
                        ent.update({"executable_lines": len(ex), "executed_lines": len(hit),
                                    "not_executed": [k for k in ex if c[k] == 0][:40]})
                        tot_exec += len(ex); tot_hit += len(hit)
                    res.append(ent)
    return {"base_commit": base, "executable_anchor_lines": tot_exec, "executed_anchor_lines": tot_hit, "ranges": res,
            "note": "lines of the property's anchors executed by this check's drivers (quick-tier run of coverage builds); inline functions and "
                    "macros are attributed by gcc to their definition lines; a range of a file no driver includes is listed as such"}


if __name__ == "__main__":
    import sys
    print(json.dumps(report(sys.argv[1], sys.argv[2]), indent=1)[:6000])
