"""Spec -> code for the Workqueue component: a TLC behaviour of spec/Workqueue.tla (a counterexample of a negative control, or any
error trace, model checked with Tracing = TRUE so that the acc ghost carries the event of every step) is turned into a schedule
for the VSCHED runtime (VRT_SCHED) and forced onto the real src/workqueue.c through harness/d_workqueue.c.

One schedule entry per scheduling point of the runtime:
  * every hooked access / barrier / futex call / join / exit of the behaviour: "T:<thread>";  store-buffer flush: "F:<thread>";
  * events logged by the driver without a scheduling point (call, ret, cb, cbend, free, spawn): none;
  * the worker's accesses to its PRIVATE temporary queue have no event in the specification but are scheduling points of the runtime:
    4 after the splice's xchg of wq.cbs_tail (append to cbs_tmp: xchg, store [+ its flush under TSO]; first_blocking: 2 loads), 1 after
    every load of <node>.next that returned NULL (the comparison with cbs_tmp_tail.p);
  * the driver's application-level waits: 1 before the call event of every operation other than create in scenarios that create the
    work queue themselves, 1 before an application-level join;
  * poll() / caa_cpu_relax() are run automatically by the replay mode ("#auto-benign").
"""
import os, re, json, shutil
from vlib import *
import conc
import wq_common as wc

NO_POINT = ("call", "ret", "cb", "cbend", "free", "spawn")
SCHEDULES = {}      # (scenario, tso, pseudo seed) -> schedule of a forced behaviour (lets a rejected one be replayed)


def behaviour_events(tlc_out):
    """the acc value of every state of a TLC error trace, in order, without repetitions (steps that did not change acc)"""
    ev = []; last = 0
    for m in re.finditer(r"acc = \[([^\]]*)\]", tlc_out):
        f = dict(re.findall(r'(\w+) \|-> ("[^"]*"|-?\d+)', m.group(1)))
        k = int(f.get("k", "0"))
        if k <= last:
            continue
        last = k
        ev.append({x: (v[1:-1] if v.startswith('"') else int(v)) for x, v in f.items()})
    return ev


def schedule_of(events, tso, pre=True):
    s = []
    for e in events:
        op = e["op"]; t = e["t"]
        if op == "call" and not pre and not t.startswith("h") and e["a"] != "create":
            s.append("T:" + t); continue        # the driver's wait for the work queue pointer
        if op == "join" and not str(e["var"]).startswith("h"):
            s += ["T:" + t, "T:" + t]; continue # application-level join: wait until the target has started + pthread_join
        if op in NO_POINT:
            continue
        if op == "flush":
            s.append("F:" + t); continue
        s.append("T:" + t)
        if t.startswith("h"):
            if op == "xchg" and e["var"] == "wq.cbs_tail" and e["a"] == "wq.cbs_head":
                s += ["T:" + t, "T:" + t] + (["F:" + t] if tso else []) + ["T:" + t, "T:" + t]
            elif op == "ld" and str(e["var"]).endswith(".next") and e["var"] != "wq.cbs_head.next" and e["r"] == "NULL":
                s.append("T:" + t)
    return s


def counterexample(sc, mut=(), tso=False, workers=4, timeout=900, tag="sched"):
    """model check `sc` with Tracing = TRUE and return the events of the error trace (None when TLC finds no error)"""
    comp = wc.component()
    sc = dict(sc)
    if mut:
        sc["mut"] = list(mut)
    c = conc.consts_for(comp, sc, tso, True)
    mod = gen_mc(sc, "cx" + tag + "".join(mut), c, cfg_lines=["SPECIFICATION DSpec"] + ["INVARIANT " + i for i in comp["invariants"]] + ["CHECK_DEADLOCK TRUE"])
    r = run_tlc(mod, timeout=timeout, heap="8g", workers=workers)
    if not r.violation:
        return None, r
    return behaviour_events(r.out), r


def force(exe, comp, sc, sched, tso, wd, name="directed"):
    """run the driver under the schedule; returns (rc, stderr, events, diverged)"""
    os.makedirs(wd, exist_ok=True)
    pf = conc.program_file(comp, sc, os.path.join(wd, "prog_%s.txt" % sc["name"]))
    sp = os.path.join(wd, "sched_%s.txt" % name)
    with open(sp, "w") as f:
        f.write("#auto-benign\n" + "\n".join(sched) + "\n")
    tp = os.path.join(wd, "trace_%s.ndjson" % name)
    env = dict(comp.get("env", {})); env["VRT_SCHED"] = sp
    rc, so, se = run_driver(exe, [0, 1 if tso else 0, tp, pf], env=env, timeout=30)
    ev = read_trace(tp) if os.path.exists(tp) else []
    return rc, se, ev, any(e.get("op") == "replay_diverged" for e in ev)


def behaviour_runs(ctx, comp, exe, sc, tso, n, wd):
    """tlc -simulate behaviours of Workqueue (up to quiescence) -> schedules -> forced onto the real code.  Returns the executions
    obtained [(pseudo seed, projected events)] (validated by the caller together with the seeded ones); an execution that fails an
    oracle under a behaviour of the specification is reported as a violation."""
    c = conc.consts_for(comp, sc, tso, True)
    base = gen_mc(sc, "simbase%s_%d" % (ctx.pid.lower(), tso), c, cfg_lines=[])
    t = open(os.path.join(SPEC, "trace", "WorkqueueSim.tla.in")).read()
    mod = "SIM_%s_%s_%d" % (sc["name"], ctx.pid.lower(), tso)
    with open(os.path.join(GEN, mod + ".tla"), "w") as f:
        f.write(t.replace("@MODULE@", mod).replace("@BASE@", base))
    cfgtxt = open(os.path.join(GEN, base + ".cfg")).read()
    with open(os.path.join(GEN, mod + ".cfg"), "w") as f:
        f.write("SPECIFICATION SSpec\n" + cfgtxt + "INVARIANT Emit\nCHECK_DEADLOCK FALSE\n")
    r = run_tlc(mod, workers=2, simulate=max(2, n), depth=600, timeout=300, tag=mod, extra=["-seed", str(ctx.seed)])
    scheds = []; seen = set()
    for m in re.finditer(r'"SCHED", "(\[.*?\])"', r.out):
        try:
            s = json.loads(m.group(1).replace('\\"', '"'))
        except Exception:
            continue
        if tuple(s) not in seen:
            seen.add(tuple(s)); scheds.append(s)
    scheds = scheds[:n]
    if not scheds:
        raise RuntimeError("spec -> code: TLC simulation of %s produced no behaviour (%s)" % (mod, r.error or r.violation or "no SCHED line"))
    shutil.rmtree(os.path.join(OUT, "tlc", mod), ignore_errors=True)
    runs = []; exact = 0
    for i, s in enumerate(scheds):
        rc, se, ev, div = force(exe, comp, sc, s, tso, wd, name="sim%d" % i)
        if rc != 0:
            if len(ctx.violations) < conc.MAXV:
                d = ctx.viol_dir()
                json.dump({"scenario": sc["name"], "tso": tso, "seed": 200000 + i, "rc": rc, "stderr": se[-500:], "schedule": s, "driver": comp["driver"], "component": "workqueue", "env": {}}, open(os.path.join(d, "meta.json"), "w"), indent=1)
                mm = re.search(r"VRT-FAIL (.*)", se)
                ctx.violation("the real code fails under a behaviour of %s (scenario %s, tso=%d): %s" % (comp["spec"], sc["name"], tso, mm.group(1) if mm else se[-200:]), d)
            continue
        exact += 0 if div else 1
        runs.append((200000 + i, wc.project(ev)))
        SCHEDULES[(sc["name"], tso, 200000 + i)] = s
    ctx.extra["wq_spec_behaviours_forced"] = ctx.extra.get("wq_spec_behaviours_forced", 0) + len(scheds)
    ctx.extra["wq_spec_behaviours_followed_exactly"] = ctx.extra.get("wq_spec_behaviours_followed_exactly", 0) + exact
    if scheds:
        ctx.sample({"kind": "TLC behaviour of Workqueue replayed into the real code", "scenario": sc["name"], "tso": tso, "schedule": scheds[0][:40]})
    return runs


def directed_negative(ctx, comp, exe, scn, expect_fail, wd, mut=(), tso=False):
    """A TLC counterexample (negative control: misuse scenario) forced onto the real, unmodified code: the code must follow it and
    fail the same way (expect_fail: substring of the runtime's failure)."""
    sc = load_scenario(scn)
    ev, r = counterexample(sc, mut=mut, tso=tso, tag=ctx.pid.lower())
    if not ev:
        raise RuntimeError("directed negative %s: TLC found no counterexample (%s)" % (scn, r.error or "ok"))
    sched = schedule_of(ev, tso, sc.get("pre", True))
    rc, se, tr, div = force(exe, comp, sc, sched, tso, wd, name="neg_" + scn)
    got = (re.search(r"VRT-FAIL (.*)", se) or [None, ""])[1] + " " + " ".join(e.get("what", "") for e in tr if e.get("op") == "fail")
    if rc == 0 or expect_fail not in got or div:
        raise RuntimeError("directed negative %s: the real code did not reproduce the counterexample (rc=%d, diverged=%s, %s)" % (scn, rc, div, got.strip()))
    ctx.replays += 1
    ctx.extra.setdefault("wq_directed_negatives", []).append({"scenario": scn, "tlc": wc.describe(r), "real_code": got.strip(), "schedule": sched})
