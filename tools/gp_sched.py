#!/usr/bin/env python3
"""Directed schedules for the grace-period driver (C02 / C15).

The seeded PCT / uniform schedulers practically never drive the real code into the futex sleep path of wait_gp() (the reader would have to be
preempted inside a two-step critical section for ~30 consecutive updater steps, and caa_cpu_relax() demotes the spinning updater), so the
sleep / wake-up handshake -- the subject of C02 -- would stay unexecuted.  This module asks TLC for a shortest behaviour of UrcuGp that reaches
a TARGET state (e.g. "updater asleep on the gp futex while the reader is inside its section", "reader unlinking itself from cur_snap_readers
between the two scans") by checking the invariant ~Target on the scenario's instance with Tracing = TRUE, converts the counterexample into a
VSCHED schedule (one agent choice per recorded event), and the plugins force the real code along it, complete the run (deterministically and
with seeded schedulers), require the marker event of the target in the recorded trace and validate the trace against the specification.

  python3 tools/gp_sched.py --regen      regenerate scenarios/gp_corpus.json (the fixed regression corpus replayed by the quick tiers)
"""
import os, re, sys, json
sys.path.insert(0, os.path.dirname(os.path.abspath(__file__)))
from vlib import *

CORPUS = os.path.join(VERIF, "scenarios", "gp_corpus.json")
GPF = '"gp_futex"'


def S(t):
    return '"wn.%s.state"' % t


# name -> (TLA+ state predicate, regex that the recorded trace of the real code must contain when the target was reached)
TARGETS = {
    # C02: spin -> sleep transition and wake-up
    "gp_sleep_in_cs": ('sleeping["u1"] = %s /\\ ~woken["u1"] /\\ cs["r1"] # 0' % GPF, r'"t":"u1","op":"fwait","var":"gp_futex","a":-1,"r":"SLEEP"'),
    "gp_dekker": ('pc["r1"] = "ru_ldf" /\\ pc["u1"] = "w_ldr" /\\ mem["gp_futex"] = -1 /\\ wl["u1"] = 2', r'"t":"u1","op":"dec","var":"gp_futex"'),
    "gp_eagain": ('pc["u1"] = "wg_fw" /\\ mem["gp_futex"] = 0', r'"t":"u1","op":"fwait","var":"gp_futex","a":-1,"r":"EAGAIN"'),
    "gp_wake_pending": ('sleeping["u1"] = %s /\\ woken["u1"]' % GPF, r'"t":"r1","op":"fwake","var":"gp_futex","a":1,"r":1'),
    "gp_spurious": ('sleeping["u1"] = %s /\\ ~woken["u1"] /\\ faults = 1 /\\ cs["r1"] # 0' % GPF, r'"t":"u1","op":"fwoke","var":"gp_futex","r":"(SPURIOUS|EINTR)"'),
    "gp_fault_then_wake": ('sleeping["u1"] = %s /\\ woken["u1"] /\\ wkind["u1"] # "WAKE" /\\ pc["r1"] = "ru_wake"' % GPF, r'"t":"r1","op":"st","var":"gp_futex","a":0'),    # (markers are events of the forced prefix, never of the seeded completion)
    "gp_sleep_2nd_gp": ('sleeping["u1"] = %s /\\ ~woken["u1"] /\\ i["u1"] = 2' % GPF, r'"t":"u1","op":"fwait","var":"gp_futex","a":-1,"r":"SLEEP"'),
    "gp_two_asleep": ('sleeping["u1"] = %s /\\ ~woken["u1"] /\\ sleeping["u2"] = %s /\\ ~woken["u2"]' % (GPF, S("u2")), r'"t":"u2","op":"fwait","var":"wn.u2.state","a":0,"r":"SLEEP"'),
    "gp_two_asleep_rev": ('sleeping["u2"] = %s /\\ ~woken["u2"] /\\ sleeping["u1"] = %s /\\ ~woken["u1"]' % (GPF, S("u1")), r'"t":"u1","op":"fwait","var":"wn.u1.state","a":0,"r":"SLEEP"'),
    "waiter_asleep": ('sleeping["u2"] = %s /\\ ~woken["u2"]' % S("u2"), r'"t":"u2","op":"fwait","var":"wn.u2.state","a":0,"r":"SLEEP"'),
    "waiter_wake_race": ('pc["u1"] = "k_ld2" /\\ pc["u2"] = "a_or"', r'"t":"u1","op":"st","var":"wn.u2.state","a":1'),
    "waiter_eintr": ('sleeping["u2"] = %s /\\ woken["u2"] /\\ wkind["u2"] = "EINTR" /\\ pc["u1"] \\notin {"k_wk", "k_ld2", "k_fw", "k_or"}' % S("u2"), r'"t":"u2","op":"fwoke","var":"wn.u2.state","r":"EINTR"'),
    "waiter_eintr_gp_asleep": ('sleeping["u2"] = %s /\\ woken["u2"] /\\ wkind["u2"] = "EINTR" /\\ sleeping["u1"] = %s /\\ ~woken["u1"]' % (S("u2"), GPF), r'"t":"u2","op":"fwoke","var":"wn.u2.state","r":"EINTR"'),
    "sig_on_sleeping_waiter": ('insig["u2"] /\\ sleeping["u2"] = %s /\\ pc["u1"] \\notin {"k_wk", "k_ld2", "k_fw", "k_or"}' % S("u2"), r'"t":"u2","op":"fwoke","var":"wn.u2.state","r":"EINTR"'),
    "gp_sleep_r2_left": ('sleeping["u1"] = %s /\\ ~woken["u1"] /\\ cs["r1"] # 0 /\\ pc["r2"] = "Done"' % GPF, r'"t":"u1","op":"fwait","var":"gp_futex","a":-1,"r":"SLEEP"'),
    # futex unavailable
    "enosys_gp_poll": ('pc["u1"] = "wgc_ld" /\\ f["u1"] = -1 /\\ cs["r1"] # 0', r'"t":"u1","op":"fwait","var":"gp_futex","r":"ENOSYS"'),
    "enosys_waiter_poll": ('pc["u2"] = "ac_ld" /\\ st["u2"] = 0 /\\ pc["u1"] = "s_gplk"', r'"t":"u2","op":"fwait","var":"wn.u2.state","r":"ENOSYS"'),
    "compat_waiter_asleep": ('sleeping["u2"] = "compat_cond" /\\ ~woken["u2"]', r'"t":"u2","op":"cwait","var":"compat_lock"'),
    "compat_gp_poll": ('pc["u1"] = "wgc_ld" /\\ f["u1"] = -1 /\\ cs["r1"] # 0', r'"t":"u1","op":"mb".*compat_futex'),
    # C15: register / unregister against the phases of a grace period
    "unreg_from_cursnap": ('"r1" \\in cursnap /\\ pc["r1"] = "x_del"', r'"t":"r1","op":"lock","var":"registry_lock"'),
    # (with a single reader "r1 in qsr and unregistering" is unreachable: the updater never drops the registry lock once its input list is empty;
    #  likewise a reader cannot leave cur_snap_readers while the updater is asleep and NOT yet woken -- TLC: unreachable, 7.2 M states)
    "r2_unreg_from_qsr": ('"r2" \\in qsr /\\ pc["r2"] = "x_del" /\\ cs["r1"] # 0', r'"t":"r2","op":"lock","var":"registry_lock"'),
    "r2_unreg_from_cursnap": ('"r2" \\in cursnap /\\ pc["r2"] = "x_del" /\\ cs["r1"] # 0', r'"t":"r2","op":"lock","var":"registry_lock"'),
    "unreg_wake_pending": ('sleeping["u1"] = %s /\\ pc["r1"] = "x_del"' % GPF, r'"t":"u1","op":"fwait","var":"gp_futex","a":-1,"r":"SLEEP"'),
    "rereg_in_phase2": ('pc["r1"] = "g_add" /\\ i["r1"] = 5 /\\ lock["gp_lock"] = "u1" /\\ ph["u1"] = 2 /\\ pc["u1"] \\in {"wg_ld", "wg_fw", "wg_wk", "wg_lock", "wr_lock"}', r'"t":"r1","op":"proj","m":\[\]'),
    "r2_leaves_while_asleep_on_r1": ('sleeping["u1"] = %s /\\ ~woken["u1"] /\\ cs["r1"] # 0 /\\ pc["r2"] = "x_del"' % GPF, r'"t":"u1","op":"fwait","var":"gp_futex","a":-1,"r":"SLEEP"'),
    "r2_regs_while_asleep": ('sleeping["u1"] = %s /\\ ~woken["u1"] /\\ cs["r1"] # 0 /\\ pc["r2"] = "g_add"' % GPF, r'"t":"u1","op":"fwait","var":"gp_futex","a":-1,"r":"SLEEP"'),
}

# (scenario, component args, targets): the corpus.  Component args: (flavor, sysmb, fault_budget, futex_mode)
MBa, MSa, MNa = ("mb", False, 0, "futex"), ("memb", True, 0, "futex"), ("memb", False, 0, "futex")
PLAN = [
    ("gp_c02_sleep", MBa, ["gp_sleep_in_cs", "gp_dekker", "gp_eagain", "gp_wake_pending"]),
    ("gp_c02_sleep", MSa, ["gp_sleep_in_cs", "gp_dekker", "gp_eagain"]),
    ("gp_c02_sleep", MNa, ["gp_sleep_in_cs", "gp_dekker", "gp_wake_pending"]),
    ("gp_c02_sleep", ("mb", False, 2, "futex"), ["gp_spurious", "gp_sleep_in_cs", "gp_fault_then_wake"]),
    ("gp_c02_sleep", ("memb", True, 2, "futex"), ["gp_spurious", "gp_fault_then_wake"]),
    ("gp_c02_2u", ("mb", False, 1, "futex"), ["waiter_asleep"]),
    ("gp_c02_2u", ("mb", False, 1, "futex", "eintr"), ["waiter_eintr"]),          # the queued waiter's FUTEX_WAIT returns EINTR: it must go back to sleep / re-check, not declare itself RUNNING
    ("gp_c02_2u", ("memb", True, 1, "futex", "eintr"), ["waiter_eintr"]),
    ("gp_c02_2u1r", ("mb", False, 1, "futex", "eintr"), ["waiter_eintr_gp_asleep"]),
    ("gp_c02_sig2u", ("mb", False, 0, "futex", "mixed", ["u1", "u2"], 1), ["sig_on_sleeping_waiter"]),     # (the leader can only sleep on the gp futex if the single signal was spent on a reader section)
    ("gp_c02_sig2u", ("memb", True, 0, "futex", "mixed", ["u1", "u2"], 1), ["sig_on_sleeping_waiter"]),
    ("gp_c02_2gp", MBa, ["gp_sleep_2nd_gp"]),
    ("gp_c02_2u", MBa, ["waiter_asleep", "waiter_wake_race"]),
    ("gp_c02_2u", MSa, ["waiter_asleep"]),
    ("gp_c02_2u1r", MBa, ["gp_two_asleep", "gp_two_asleep_rev"]),
    ("gp_c02_2r", MBa, ["gp_sleep_r2_left"]),
    ("gp_c02_sleep", ("mb", False, 0, "enosys"), ["enosys_gp_poll"]),
    ("gp_c02_2u", ("mb", False, 0, "enosys"), ["enosys_waiter_poll"]),
    ("gp_c02_sleep", ("memb", True, 0, "enosys"), ["enosys_gp_poll"]),
    ("gp_c02_2u", ("mb", False, 0, "compat"), ["compat_waiter_asleep"]),
    ("gp_c02_sleep", ("mb", False, 0, "compat"), ["compat_gp_poll"]),
    ("gp_c15_unreg", MBa, ["unreg_from_cursnap", "unreg_wake_pending"]),
    ("gp_c15_unreg", MSa, ["unreg_from_cursnap", "unreg_wake_pending"]),
    ("gp_c15_unreg", MNa, ["unreg_from_cursnap"]),
    ("gp_c15_rereg", MBa, ["rereg_in_phase2"]),
    ("gp_c15_rereg", MNa, ["rereg_in_phase2"]),
    ("gp_c15_come_go", MBa, ["r2_leaves_while_asleep_on_r1", "r2_regs_while_asleep", "r2_unreg_from_qsr", "r2_unreg_from_cursnap"]),
    ("gp_c15_come_go", MSa, ["r2_leaves_while_asleep_on_r1"]),
]


def comp_of(args):
    from props.gpcommon import gp_component
    # args: (flavor, sysmb, fault_budget, futex_mode[, faults[, signal threads, signal budget]]); signals are also delivered to sleeping threads
    return gp_component(args[0], args[1], fault_budget=args[2], futex_mode=args[3], faults=args[4] if len(args) > 4 else "mixed",
                        sig_threads=tuple(args[5]) if len(args) > 5 else (), sig_budget=args[6] if len(args) > 6 else 0, sig_futex=len(args) > 5)


def schedule_from_trace(out):
    """TLC error trace (states printed with the acc ghost, faults, woken) -> list of VSCHED agent choices."""
    sched = []; lastk = 0; lastf = 0; lastw = {}
    for st in re.split(r"^State \d+: ", out, flags=re.M)[1:]:
        m = re.search(r"^/\\ acc = \[(.*?)\]\s*$", st, re.M | re.S)
        if not m:
            continue
        rec = m.group(1)
        k = int(re.search(r"\bk \|-> (\d+)", rec).group(1))
        fm = re.search(r"^/\\ faults = (\d+)", st, re.M); f = int(fm.group(1)) if fm else 0
        wm = re.search(r"^/\\ woken = \[(.*?)\]\s*$", st, re.M | re.S)
        w = dict((a_, b_ == "TRUE") for a_, b_ in re.findall(r"(\w+) \|-> (TRUE|FALSE)", wm.group(1))) if wm else {}
        if f > lastf:                                   # faulter step: the runtime's W:<t> agent (spurious / EINTR return of t's FUTEX_WAIT)
            sched += ["W:" + t for t in w if w[t] and not lastw.get(t)]
        lastf = f; lastw = w
        if k == lastk:
            continue
        lastk = k
        t = re.search(r"\bt \|-> \"([^\"]+)\"", rec).group(1); op = re.search(r"\bop \|-> \"([^\"]+)\"", rec).group(1)
        if op == "flush":
            sched.append("F:" + t)
        elif op == "sig_enter":
            sched.append("S:" + t)                 # signal delivery is a scheduler agent of its own
        elif op == "cwoke":
            sched += ["T:" + t, "T:" + t]          # pthread_cond_wait: woken (leave the condition queue), then re-acquire the mutex
        else:
            sched.append("T:" + t)
    return sched


def reach(sc, comp, target, tso=1, timeout=900, workers=None):
    """Shortest behaviour of the scenario's TLC instance reaching TARGETS[target] -> schedule (list) or None."""
    import conc
    c = conc.consts_for(comp, sc, tso, True)
    pred = TARGETS[target][0]
    # the runtime executes sys_membarrier as ONE step that drains every buffer; the specification delivers one IPI per thread at different
    # moments (more permissive).  Search only behaviours the code can follow: between the first IPI and the return of membarrier() nobody else moves.
    defs = ("Target == %s\nNotReached == ~Target\n"
            "IpiAtomic == \\A t \\in Threads : ((pc[t] = \"m_ipi\" /\\ ipi[t] # Threads) \\/ pc[t] = \"m_sys\") => (pc'[t] # pc[t] \\/ ipi'[t] # ipi[t])") % pred
    mod = gen_mc(sc, "reach_%s_%s_%d" % (comp["variant"], target, tso), c, extra_defs=defs,
                 cfg_lines=["SPECIFICATION " + comp.get("mc_spec", "Spec"), "INVARIANT NotReached", "CONSTRAINT SBBound", "ACTION_CONSTRAINT IpiAtomic", "CHECK_DEADLOCK FALSE"])
    r = run_tlc(mod, timeout=timeout, workers=workers)
    if r.violation == "invariant NotReached":
        return schedule_from_trace(r.out), r
    if r.ok or r.error == "timeout":
        return None, r
    raise RuntimeError("TLC failed on %s: %s\n%s" % (mod, r.error or r.violation, r.out[-1500:]))


def load_corpus():
    return json.load(open(CORPUS)) if os.path.exists(CORPUS) else []


def generate(plan=PLAN, logf=log, tsos=(1,)):
    out = []
    for scn, args, targets in plan:
        sc = load_scenario(scn); comp = comp_of(args)
        for tg in targets:
            for tso in tsos:
                s, r = reach(sc, comp, tg, tso)
                logf("  [reach] %-14s %-18s %-30s tso=%d: %s (%d states, %.0fs)" % (scn, comp["name"], tg, tso, ("%d steps" % len(s)) if s else "UNREACHABLE", r.distinct, r.wall))
                out.append({"scenario": scn, "component": list(args), "target": tg, "tso": tso, "schedule": s, "states": r.distinct})
    return out


if __name__ == "__main__":
    if "--regen" in sys.argv:
        os.environ.setdefault("VERIF_TLC_WORKERS", "4")
        # --regen                : everything in PLAN
        # --regen --only a,b,... : only (scenario, target) pairs whose scenario or target name contains one of the substrings; merged into the existing corpus
        only = sys.argv[sys.argv.index("--only") + 1].split(",") if "--only" in sys.argv else None
        plan = PLAN if not only else [(scn, a, [t for t in tg if any(o in t or o in scn for o in only)]) for scn, a, tg in PLAN]
        c = generate([p_ for p_ in plan if p_[2]])
        if only:
            key = lambda e: (e["scenario"], json.dumps(e["component"]), e["target"], e["tso"])
            new = {key(e) for e in c}
            c = [e for e in load_corpus() if key(e) not in new] + c
        bad = [e for e in c if not e["schedule"]]
        with open(CORPUS, "w") as f:
            f.write("[\n" + ",\n".join(json.dumps(e) for e in c if e["schedule"]) + "\n]\n")
        print("corpus: %d schedules written to %s; unreachable targets: %s" % (len(c) - len(bad), CORPUS, [(e["scenario"], e["target"]) for e in bad]))
    else:
        print(__doc__)
