"""Shared by tools/props/c05.py, c06.py, c07.py: the concurrent hash table component (spec/Lfht.tla, harness/d_lfht.c,
spec/trace/LfhtConcTrace.tla.in, spec/trace/LfhtHistTrace.tla.in, scenarios/lfht_*.json)."""
import os, re, json, shutil, copy
from vlib import *
import vlib, conc

MM_SRC = ["rculfhash-mm-order.c", "rculfhash-mm-chunk.c", "rculfhash-mm-mmap.c"]
NO_CS = ("reclaim", "resize", "wait", "destroy")       # operations that must run outside a read-side critical section


def ops_of(sc):
    """thread -> list of op records with rl / ru made explicit"""
    out = {}
    for t, ops in sc["threads"].items():
        l = []
        for o in ops:
            o = dict(o)
            d = o["op"] not in NO_CS
            o["rl"] = bool(o.get("rl", d)); o["ru"] = bool(o.get("ru", d))
            l.append(o)
        out[t] = l
    return out


def lfht_consts(sc):
    nodes = sc.get("nodes", {})
    return {"Threads": tla(set(sc["threads"])), "Prog": tla_fun(ops_of(sc)), "SBMax": str(sc.get("sbmax", 2)),
            "NodeHash": tla_fun({n: v["h"] for n, v in nodes.items()}), "NodeKey": tla_fun({n: v["k"] for n, v in nodes.items()}),
            "HBits": str(sc.get("hbits", 2)), "InitSize": str(sc.get("init_size", 1)), "MaxSize": str(sc.get("max_size", 4)),
            "InitNodes": tla(list(sc.get("init", []))), "Mut": tla(set(sc.get("mut", [])))}


def knum(k):
    return int(re.sub(r"\D", "", k))


def lfht_program(sc):
    out = ["table %d %d %s" % (sc.get("init_size", 1), sc.get("max_size", 4), sc.get("mm", "order"))]
    for n, v in sc.get("nodes", {}).items():
        out.append("node %s %d %d" % (n, v["h"], knum(v["k"])))
    for n in sc.get("init", []):
        out.append("init %s" % n)
    nodes = sc.get("nodes", {}); init = sc.get("init", [])
    plain = {nodes[o["n"]]["k"] for ops in sc["threads"].values() for o in ops if o["op"] == "add"}
    plain |= {k for k in {v["k"] for v in nodes.values()} if sum(1 for n in init if nodes[n]["k"] == k) > 1}
    for k in sorted({v["k"] for v in nodes.values()} - plain):      # Lfht!UniqueKeys
        out.append("ukey %d" % knum(k))
    for t, ops in ops_of(sc).items():
        out.append("thread %s" % t)
        for o in ops:
            k = o["op"]; rl, ru = int(o["rl"]), int(o["ru"])
            if k in ("add", "addu", "addr", "repl"): out.append("%s %s %d %d" % (k, o["n"], rl, ru))
            elif k == "del": out.append("del %s %d %d" % (o["n"], rl, ru))
            elif k in ("lookup", "dups"): out.append("%s %d %d %d %d" % (k, o["h"], knum(o["k"]), rl, ru))
            elif k == "iter": out.append("iter %d %d" % (rl, ru))
            elif k == "resize": out.append("resize %d" % o["size"])
            elif k == "wait": out.append("wait %s" % ",".join(o["ts"]))
            else: out.append(k)
    return "\n".join(out) + "\n"


# ------------------------------------------------------------------ component
ALL_INV = ["Linearizable", "ResidentFound", "Sorted", "BucketsLinked", "FlagsOk", "InTabIsPhysical", "Conservation",
           "GuaranteeF", "NoDupExposed", "SingleOwner", "OwnedRemoved", "NoUAF", "ReclaimedUnreachable"]
LFHT = {
    "spec": "Lfht", "driver": "d_lfht.c", "trace": "LfhtConcTrace",
    "invariants": list(ALL_INV), "mc_invariants": ["DeadlockFree"], "constraints": ["SBBound"], "properties": ["FrozenAfterRemoved"],
    "consts": lfht_consts, "program": lfht_program,
    "normalize": {"extra_fields": ("h", "k", "rl", "ru", "sz", "old")},
    "pct_len": 200, "sim_depth": 600,
}
ASSUMPTIONS = [
    "x86-TSO memory model (Sewell et al.); compiler honours volatile/atomic accesses and asm barriers; every mutation of a ->next word is a locked "
    "cmpxchg/or/xchg, the only buffered stores are the resizer's stores to ht->size / resize_target / resize_initiated",
    "serialised execution: scheduling points are the hooked shared accesses, barriers, mutex operations, grace periods and the start of every driver operation",
    "RCU is abstract (harness/absrcu.h: a grace period waits for exactly the read-side sections open at its start; synchronize_rcu starts with a full barrier); "
    "the real flavors' grace periods are C01's claim",
    "API preconditions are the scenario's responsibility: every operation inside a read-side critical section, del/replace of a node in the same section as the "
    "lookup that found it, a node freed only by its owner after synchronize_rcu, resize outside any section, destroy only when no other operation is in flight",
    "linearizability is decided against a multiset-per-key object (LfhtLin): lookup / add_unique may return any present node of the key; first/next and "
    "lookup/next_duplicate traversals are not atomic objects and are checked by the ResidentFound / NoDupExposed monitors instead",
    "bounds: hashes of 2-3 bits, tables of 1, 2, 4 (thorough: 8) buckets, <= 5 user nodes, 2-4 threads x 1-3 operations, one explicit cds_lfht_resize at a time "
    "(no CDS_LFHT_AUTO_RESIZE worker, no CDS_LFHT_ACCOUNTING), min_nr_alloc_buckets = 1; the order allocator in every scenario, chunk and mmap allocators in "
    "thorough-tier conformance runs",
    "plain initialisation stores of a still private node (node->next before the publishing cmpxchg) are committed with the successful cmpxchg; "
    "->reverse_hash and keys are immutable once published",
]


def _normalize(events, **kw):
    """vlib.normalize + every logged value as a string (Lfht keeps one value type in mem: sizes are decimal strings)"""
    out = vlib.normalize(events, **kw)
    for n in out:
        for f in ("a", "b", "r"):
            if isinstance(n.get(f), int) and not isinstance(n.get(f), bool):
                n[f] = str(n[f])
    return out


def _build_driver(name, src, **kw):
    kw["extra_src"] = [os.path.join(vlib.REPO, "src", f) for f in MM_SRC]
    return vlib.build_driver(name, src, **kw)


def install():
    """conc uses its own module-level names for these two (from vlib import *): bind the Lfht variants for this process"""
    conc.normalize = _normalize
    conc.build_driver = _build_driver


def comp_for(invariants):
    c = dict(LFHT); c["invariants"] = list(invariants)
    return c


def mc_run(pid, comp, sc, timeout=3000, workers=None):
    """TLC on one scenario; touches nothing shared (may run beside the conformance lane)"""
    c = conc.consts_for(comp, sc, True, False)
    mod = gen_mc(sc, "mc" + pid.lower(), c, cfg_lines=["SPECIFICATION Spec"] + ["INVARIANT " + i for i in comp["invariants"] + comp.get("mc_invariants", [])] +
                 ["PROPERTY " + p for p in comp.get("properties", [])] + ["CONSTRAINT " + x for x in comp.get("constraints", [])] + ["CHECK_DEADLOCK FALSE"])
    r = run_tlc(mod, coverage=True, timeout=timeout, heap="8g", workers=workers)
    if not r.ok and not r.violation and re.search(r"FileNotFoundException|when writing the disk|No such file or directory", r.out):
        # the shared out/tlc directory was cleaned under the running TLC (other checks run in parallel): once more
        log("  [TLC] %s: scratch directory vanished under TLC, running it again" % sc["name"])
        r = run_tlc(mod, coverage=True, timeout=timeout, heap="8g", workers=workers)
    log("  [TLC] %s: %d distinct states, %d generated, depth %d, %.0fs, %s" % (sc["name"], r.distinct, r.states, r.depth, r.wall, "ok" if r.ok else (r.violation or r.error)))
    return r, mod, c


def mc_merge(ctx, sc, r, mod, c, timeout=3000):
    ctx.add_tlc(r, mod, {k: v for k, v in c.items() if len(v) < 300})
    if r.violation:
        d = ctx.viol_dir(); shutil.copy(r.log, os.path.join(d, "tlc.log"))
        ctx.violation("TLC: %s violated in %s (design-level counterexample in tlc.log)" % (r.violation, mod), d)
    elif not r.ok:
        if r.error == "timeout":
            ctx.notes.append("%s: TLC timed out after %ds with %d distinct states (not exhaustive)" % (mod, timeout, r.distinct))
        else:
            raise RuntimeError("TLC failed on %s: %s\n%s" % (mod, r.error, r.out[-1500:]))
    ctx.extra.setdefault("_taken", set()).update(k for k, v in r.coverage.items() if v[0] > 0)
    ctx.extra.setdefault("_labels", set()).update(r.coverage.keys())
    ctx.extra.setdefault("actions_never_taken", {})[sc["name"]] = sorted(k for k, v in r.coverage.items() if v[0] == 0 and k not in ("Terminating",))


def model_check(ctx, comp, sc, timeout=3000, workers=None):
    r, mod, c = mc_run(ctx.pid, comp, sc, timeout, workers)
    mc_merge(ctx, sc, r, mod, c, timeout)
    return r


def hist_validate(ctx, comp, sc, tso, runs, workdir, tag):
    """history level: call/ret events only, against LfhtLin through LinMon (independent of the step-level specification)"""
    if not runs or len(ctx.violations) >= conc.MAXV:
        return
    nodes = sc.get("nodes", {})
    c = {"Threads": tla(set(sc["threads"])), "NodeHash": tla_fun({n: v["h"] for n, v in nodes.items()}), "NodeKey": tla_fun({n: v["k"] for n, v in nodes.items()}),
         "InitNodes": tla(list(sc.get("init", []))), "__spec__": "Lfht"}
    mod = gen_trace_module("LfhtHistTrace", "Lfht", "HV_%s" % sc["name"], c, invariants=["HLinearizable"])
    allev = []; bounds = []
    for seed, ev in runs:
        n = [e for e in _normalize(ev, **comp.get("normalize", {})) if e["op"] in ("call", "ret")]
        bounds.append((len(allev) + 1, len(allev) + len(n), seed))
        allev += n + [conc.RESET]
    tp = os.path.join(workdir, "%s.ndjson" % tag)
    write_ndjson(tp, allev)
    v = validate_trace_file(mod, tp, tag=tag, timeout=600)
    if v.error:
        raise RuntimeError("history validation failed to run (%s): %s\n%s" % (mod, v.error, v.tlc.out[-1500:]))
    ctx.states += v.tlc.distinct; ctx.transitions += v.tlc.states
    if v.accepted:
        ctx.extra["histories_validated"] = ctx.extra.get("histories_validated", 0) + len(runs)
        return
    pos = v.maxl; bad = [b for b in bounds if b[0] <= pos <= b[1] + 1]
    lo, hi, seed = bad[0] if bad else bounds[-1]
    d = ctx.viol_dir()
    ev = [r for r in runs if r[0] == seed][0][1]
    write_ndjson(os.path.join(d, "trace.ndjson"), ev)
    write_ndjson(os.path.join(d, "history.ndjson"), allev[lo - 1:hi])
    shutil.copy(v.tlc.log, os.path.join(d, "tlc.log"))
    meta = {"scenario": sc["name"], "tso": tso, "seed": seed, "driver": comp["driver"], "level": "history", "history_module": mod,
            "env": {"VRT_MODE": "uniform" if seed % 3 == 2 else "pct", "VRT_DEPTH": 1 + seed % 4, "VRT_LEN": comp.get("pct_len", 120)}}
    json.dump(meta, open(os.path.join(d, "meta.json"), "w"), indent=1)
    ctx.violation("history of a recorded execution of the real code is not linearizable against LfhtLin (%s; scenario %s, seed %d, tso=%d)" % (
        v.violation or "history not accepted", sc["name"], seed, tso), d)


def variant(sc, mm):
    s = copy.deepcopy(sc); s["mm"] = mm; s["name"] = sc["name"] + "_" + mm
    return s


def run_lfht(ctx, comp, scenarios, nseeds, nsim, both_modes=True, mc_timeout=3000, mm_variants=(), workers=None, conf_only=()):
    """Two lanes side by side: TLC model checking of every scenario (its own thread, VERIF_TLC_WORKERS workers), and the conformance
    lane (driver runs, step-level and history-level trace validation, schedule replay: one TLC worker at a time)."""
    import threading
    install()
    wd = os.path.join(ctx.outdir, "work"); shutil.rmtree(wd, ignore_errors=True); os.makedirs(wd)
    exe = conc.build_driver("d_lfht", comp["driver"], tag=ctx.pid + "_d_lfht")
    only = os.environ.get("VERIF_SCEN")
    scs = [load_scenario(s) for s in scenarios if not only or s in only.split(",")]
    mcres = []; stop = threading.Event()

    def mc_lane():
        for sc in scs:
            if stop.is_set():
                return
            if sc["name"] in conf_only:     # executions validated against the specification; the exhaustive TLC run of this scenario is in the thorough tier
                continue
            try:
                mcres.append((sc,) + mc_run(ctx.pid, comp, sc, mc_timeout, workers))
                if mcres[-1][1].violation:
                    return
            except Exception as e:
                mcres.append((sc, e)); return
    th = None
    if not os.environ.get("VERIF_LFHT_NOMC"):
        th = threading.Thread(target=mc_lane); th.start()
    try:
        for k, sc in enumerate(scs):
            if len(ctx.violations) >= conc.MAXV:
                break
            todo = [(sc, tso) for tso in ((0, 1) if both_modes else (1 - k % 2,))] + [(variant(sc, mm), 1) for mm in mm_variants]
            for s, tso in todo:
                if len(ctx.violations) >= conc.MAXV:
                    break
                seeds = [ctx.seed * 100003 + j for j in range(nseeds)]
                runs, fails, pf = conc.run_batch(ctx, comp, exe, s, tso, seeds, wd)
                conc.report_failures(ctx, comp, fails)
                if runs:
                    ctx.sample({"kind": "recorded execution of the real code (first events)", "scenario": s["name"], "tso": tso, "seed": runs[0][0],
                                "events": [e for e in runs[0][1][:12]]})
                histonly = os.environ.get("VERIF_LFHT_LEVEL") == "hist"      # diagnosis: history level only (what does a rejected run do to the API-level property?)
                if not histonly:
                    conc.validate(ctx, comp, s, tso, runs, wd, "tv_%s_%d" % (s["name"], tso))
                hist_validate(ctx, comp, s, tso, runs, wd, "hv_%s_%d" % (s["name"], tso))
                if nsim and s is sc and not histonly:
                    conc.spec_to_code(ctx, comp, exe, s, tso, nsim, wd)
            if sc.get("targets") and len(ctx.violations) < conc.MAXV:
                directed(ctx, comp, exe, sc, wd, 4 if nseeds <= 60 else 40)
            log("  [conf] %s: traces validated so far %d, events %d, replays %d, violations %d" % (sc["name"], ctx.traces, ctx.events, ctx.replays, len(ctx.violations)))
    finally:
        if len(ctx.violations) >= conc.MAXV:
            stop.set()
        if th:
            th.join()
    for item in mcres:
        if isinstance(item[1], Exception):
            raise item[1]
        sc, r, mod, c = item
        mc_merge(ctx, sc, r, mod, c, mc_timeout)
    shutil.rmtree(wd, ignore_errors=True)
    if not only and th:
        never = sorted(x for x in ctx.extra.pop("_labels", set()) - ctx.extra.pop("_taken", set()) if x not in ("Terminating",))
        ctx.extra["labels_never_taken_by_this_check"] = never
        ctx.extra["label_coverage_note"] = ("C05, C06 and C07 share the component Lfht; each check runs the scenarios relevant to its property. Every label of Lfht is taken by "
                                            "the quick scenarios of C05; the labels listed here belong to operations this property does not quantify over")
    else:
        ctx.extra.pop("_labels", None); ctx.extra.pop("_taken", None)


def witness_schedule(tlc_out):
    """TLC error trace (Tracing = TRUE) -> VSCHED schedule: one entry per state whose acc.k grew (T:<thread>, F:<thread> for a flush)"""
    sched = []; k0 = 0
    for m in re.finditer(r"^State \d+: .*?\n(.*?)(?=^State \d+:|\Z)", tlc_out, re.S | re.M):
        a = re.search(r"/\\ acc = (\[.*?\])\s*(?=\n/\\ |\n\n|\Z)", m.group(1), re.S)
        if not a:
            continue
        blk = a.group(1)
        k = re.search(r"\bk \|-> (\d+)", blk); t = re.search(r"\bt \|-> \"([^\"]+)\"", blk); op = re.search(r"\bop \|-> \"([^\"]+)\"", blk)
        if k and int(k.group(1)) > k0:
            k0 = int(k.group(1))
            sched.append(("F:" if op and op.group(1) == "flush" else "T:") + t.group(1))
    return sched


def directed(ctx, comp, exe, sc, wd, nseeds):
    """Directed schedules (DESIGN 8): for every target of the scenario ({"name", "pred"}: a state predicate over the specification's variables with
    `zt` ranging over the threads) TLC's shortest behaviour reaching it is forced onto the real code as a schedule prefix (software-TSO, flushes
    included) and completed by the seeded scheduler; oracles run, and the executions are validated like any other."""
    c = conc.consts_for(comp, sc, True, True)
    base = gen_mc(sc, "dirbase%s" % comp.get("variant", ""), c, cfg_lines=[])
    pf = conc.program_file(comp, sc, os.path.join(wd, "prog_%s.txt" % sc["name"]))
    for tg in sc["targets"]:
        mod = "DIR_%s_%s" % (sc["name"], tg["name"])
        with open(os.path.join(GEN, mod + ".tla"), "w") as f:
            f.write("---- MODULE %s ----\nEXTENDS %s\nDirTarget == ~(\\E zt \\in Threads : %s)\n====\n" % (mod, base, tg["pred"]))
        with open(os.path.join(GEN, mod + ".cfg"), "w") as f:
            f.write("SPECIFICATION Spec\n" + open(os.path.join(GEN, base + ".cfg")).read() + "INVARIANT DirTarget\n" +
                    "".join("CONSTRAINT %s\n" % x for x in comp.get("constraints", [])) + "CHECK_DEADLOCK FALSE\n")
        r = run_tlc(mod, timeout=900, heap="4g")
        ctx.states += r.distinct; ctx.transitions += r.states
        if r.violation != "invariant DirTarget":
            raise RuntimeError("directed target %s/%s is not reachable in the specification (%s): predicate wrong or scenario too small" % (sc["name"], tg["name"], r.violation or r.error or "no violation"))
        sched = witness_schedule(r.out)
        runs = []; fails = []; reached = 0
        for j in range(nseeds):
            seed = ctx.seed * 1009 + j
            sp = os.path.join(wd, "dir_%s_%d.sched" % (tg["name"], j)); tp = os.path.join(wd, "dir_%s_%d.ndjson" % (tg["name"], j))
            open(sp, "w").write("#auto-benign\n" + "\n".join(sched + ["X:seeded"]) + "\n")      # X:seeded: unknown agent = hand over to the seeded scheduler
            env = dict(comp.get("env", {})); env.update({"VRT_SCHED": sp, "VRT_MODE": "uniform" if j % 2 else "pct", "VRT_DEPTH": 1 + j % 3, "VRT_LEN": comp.get("pct_len", 120)})
            rc, so, se = run_driver(exe, [seed, 1, tp, pf], env=env, timeout=comp.get("run_timeout", 30))
            ev = read_trace(tp) if os.path.exists(tp) else []
            div = [e for e in ev if e.get("op") == "replay_diverged"]
            reached += 1 if (div and div[0].get("agent") == "X:seeded") else 0
            envm = {k: v for k, v in env.items() if k != "VRT_SCHED"}
            if rc != 0:
                fails.append({"seed": seed, "tso": 1, "rc": rc, "stderr": se[-500:], "trace": tp, "env": envm, "scenario": sc["name"], "schedule": sched + ["X:seeded"]})
            else:
                runs.append((seed, ev)); os.unlink(tp)
            os.unlink(sp)
        conc.report_failures(ctx, comp, fails)
        before = ctx.traces
        conc.validate(ctx, comp, sc, 1, runs, wd, "tvd_%s_%s" % (sc["name"], tg["name"]))
        ctx.replays += ctx.traces - before
        ctx.extra.setdefault("directed_targets", {})["%s/%s" % (sc["name"], tg["name"])] = {"tlc_depth": r.depth, "schedule_steps": len(sched), "executions": nseeds, "prefix_followed_to_its_end": reached}
        log("  [dir] %s/%s: TLC path of %d steps forced onto the real code, %d/%d executions followed it to its end" % (sc["name"], tg["name"], len(sched), reached, nseeds))


def replay(ctx, comp, path):
    install()
    mp = os.path.join(path, "meta.json")
    if not os.path.exists(mp):       # design-level counterexample: model-check that scenario again
        m = re.search(r"MC_(\w+?)_mc\w*\.tla", open(os.path.join(path, "tlc.log"), errors="replace").read())
        if not m:
            raise RuntimeError("nothing to replay in " + path)
        model_check(ctx, comp, load_scenario(m.group(1)))
        log("replay of %s: %s" % (path, "violation reproduced" if ctx.violations else "no violation on the current tree"))
        return
    meta = json.load(open(mp))
    base = re.sub(r"_(chunk|mmap)$", "", meta["scenario"])
    if base != meta["scenario"]:      # allocator variant: the scenario file is the base one
        raise RuntimeError("replay of allocator variants: run the base scenario %s with \"mm\" set" % base)
    conc.replay(ctx, comp, path)
    if meta.get("level") == "history" and not ctx.violations:
        sc = load_scenario(meta["scenario"]); wd = os.path.join(ctx.outdir, "replay_work"); os.makedirs(wd, exist_ok=True)
        exe = conc.build_driver("d_lfht", comp["driver"], tag=ctx.pid + "_d_lfht")
        runs, fails, pf = conc.run_batch(ctx, comp, exe, sc, meta["tso"], [meta["seed"]], wd, env_extra=meta.get("env"))
        hist_validate(ctx, comp, sc, meta["tso"], runs, wd, "hv_replay")


def negative_controls(ctx, comp, pairs):
    """Seeded design errors (Lfht.Mut): TLC must find a counterexample for each; never a verdict on the library.  A negative control
    that finds nothing is a failure of the machinery (the monitors would be vacuous)."""
    if os.environ.get("VERIF_SCEN") or ctx.violations:
        return
    for scn, mut in pairs:
        sc = copy.deepcopy(load_scenario(scn)); sc["mut"] = [mut]; sc["name"] = scn + "_" + mut
        c = conc.consts_for(comp, sc, True, False)
        mod = gen_mc(sc, "neg" + ctx.pid.lower(), c, cfg_lines=["SPECIFICATION Spec"] + ["INVARIANT " + i for i in ALL_INV] + ["CONSTRAINT SBBound", "CHECK_DEADLOCK FALSE"])
        r = run_tlc(mod, timeout=1800, heap="8g")
        ctx.states += r.distinct; ctx.transitions += r.states
        log("  [neg] %s with Mut = {%s}: TLC finds %s (%d distinct states, %.0fs)" % (scn, mut, r.violation or r.error or "NOTHING", r.distinct, r.wall))
        ctx.extra.setdefault("negative_controls", []).append({"scenario": scn, "seeded_error": mut, "tlc": r.violation, "distinct_states": r.distinct})
        if not r.violation:
            raise RuntimeError("negative control %s/%s: TLC found no counterexample (%s)" % (scn, mut, r.error or "model checking completed"))
