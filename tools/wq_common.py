"""The Workqueue component (spec/Workqueue.tla <-> harness/d_workqueue.c: the real src/workqueue.c), used by
tools/props/wq_parts.py (C09 / C16 parts) and tools/wq_run.py."""
import os, json, re, shutil, copy
from vlib import *
import conc

OPS = ("create", "queue", "flush", "pause", "resume", "destroy", "join")


def norm_op(o):
    assert o["op"] in OPS, o
    return {"op": o["op"], "n": o.get("n", "-")}


def works_of(sc):
    ws = set()
    for ops in sc["threads"].values():
        ws |= {o["n"] for o in ops if o["op"] == "queue"}
    ws |= set(sc.get("re", {}).values())
    return sorted(ws)


def sanity(sc):
    """Scenario = a legal use of the API (unless marked misuse): every item queued at most once, completion names unique,
    destroy only by a thread that flushed after every other user of the queue finished (joined)."""
    seen = set(); comps = set()
    for t, ops in sc["threads"].items():
        for o in ops:
            if o["op"] == "queue":
                assert o["n"] not in seen, "work item %s queued twice" % o["n"]; seen.add(o["n"])
                assert re.match(r"w\d+$", o["n"]), o
            elif o["op"] == "flush":
                assert o["n"] not in comps and re.match(r"c\d+$", o["n"]), "flush needs a unique completion name c<k>: %s" % o; comps.add(o["n"])
            elif o["op"] == "join":
                assert o["n"] in sc["threads"] and o["n"] != t, o
    for a, b in sc.get("re", {}).items():
        assert b not in seen, "re-queued item %s is also queued directly" % b; seen.add(b)
    if not sc.get("pre", True):
        assert sum(1 for ops in sc["threads"].values() for o in ops if o["op"] == "create") >= 1


def consts(sc):
    sanity(sc)
    thr = {t: [norm_op(o) for o in ops] for t, ops in sc["threads"].items()}
    re_ = {n: sc.get("re", {}).get(n, "-") for n in works_of(sc)}
    return {"Threads": tla(set(thr)), "Prog": tla_fun(thr), "SBMax": str(sc.get("sbmax", 2)), "Flags": str(sc.get("flags", 0)),
            "Pre": tla(bool(sc.get("pre", True))), "Re": tla_fun(re_), "Spurious": str(sc.get("spurious", 0)),
            "Mut": tla(set(sc.get("mut", [])))}


def program(sc):
    out = ["cfg %d %d" % (sc.get("flags", 0), 1 if sc.get("pre", True) else 0)]
    for n, m in sc.get("re", {}).items():
        out.append("re %s %s" % (n, m))
    for t, ops in sc["threads"].items():
        out.append("thread %s" % t)
        for o in ops:
            o = norm_op(o)
            out.append("%s %s" % (o["op"], o["n"]))
    return "\n".join(out) + "\n"


# ------------------------------------------------------------------ projection of recorded executions
DROP_OPS = ("rmb", "wmb", "sigmask", "end", "blocked", "relax", "poll", "replay_diverged")
XA = {"st": "a", "flush": "a", "xchg": "a", "cas": "a", "inc": "a", "dec": "a", "add": "a", "or": "a", "and": "a", "addret": "a", "fwait": "a", "call": "a", "cb": "a"}
XB = {"cas": "b"}
XR = {"ld": "r", "xchg": "r", "cas": "r", "inc": "r", "dec": "r", "add": "r", "or": "r", "and": "r", "addret": "r", "fwait": "r", "fwoke": "r", "fwake": "r"}


def project(events):
    """Runtime events -> events of the Workqueue specification (uniform records t, op, var, xa, xb, xr).
    Dropped: runtime bookkeeping, busy-wait hints (poll / caa_cpu_relax), and every access to a location without a name
    (the worker's private temporary queue cbs_tmp_head / cbs_tmp_tail, stack variables)."""
    out = []
    for e in events:
        op = e.get("op")
        if op in DROP_OPS or e.get("var") == "?":
            continue
        n = {"t": e.get("t", "-"), "op": op, "var": e.get("var", "-"), "xa": "-", "xb": "-", "xr": "-"}
        if op in XA and XA[op] in e:
            n["xa"] = e[XA[op]]
        if op in XB and XB[op] in e:
            n["xb"] = e[XB[op]]
        if op in XR and XR[op] in e:
            n["xr"] = e[XR[op]]
        if op == "fail":
            n["what"] = e.get("what", "")
        out.append(n)
    return out


INVARIANTS = ["NoErr", "NoUseAfterFree", "AtMostOnce", "NoLoss", "QlenExact", "NoLeak", "FutexRange", "SleepSane"]


def component(variant=""):
    return {
        "name": "workqueue", "spec": "Workqueue", "driver": "d_workqueue.c", "trace": "WorkqueueTrace", "drvname": "d_workqueue", "variant": variant,
        "invariants": INVARIANTS, "mc_invariants": [], "constraints": [],
        "consts": consts, "program": program, "defines": [],
        "normalize": {"drop_ops": (), "extra_fields": ("xa", "xb", "xr")},
        "trace_consts": {"SBMax": "40"},
        "pct_len": 200, "env": {"VRT_BUDGET": 8000},
    }


def run_batch_projected(ctx, comp, exe, sc, tso, seeds, wd):
    env = {}
    if sc.get("spurious"):
        env = {"VRT_SPURIOUS": (sc["spurious"] + 1) // 2, "VRT_EINTR": sc["spurious"] // 2}
    runs, fails, pf = conc.run_batch(ctx, comp, exe, sc, tso, seeds, wd, env_extra=env)
    return [(seed, project(ev)) for seed, ev in runs], fails


# ------------------------------------------------------------------ model checking
def model_check(comp, sc, workers, timeout, props=(), mut=(), coverage=False, tso=True, tag=""):
    """TLC on the scenario.  Safety: the invariants + TLC's deadlock check on DSpec (termination is an explicit stuttering
    step, so a reported deadlock is a scenario thread that can never finish: a lost wake-up, a join that never returns).
    With `props`: liveness under FairSpec (weak fairness of every thread, the worker and the store-buffer flushers; no state
    constraint)."""
    sc = dict(sc)
    if mut:
        sc["mut"] = list(mut)
    c = conc.consts_for(comp, sc, tso, False)
    tag = tag + "".join(mut) + ("" if tso else "sc")
    if props:
        mod = gen_mc(sc, "live" + tag, c, cfg_lines=["SPECIFICATION FairSpec"] + ["PROPERTY " + p for p in props] + ["INVARIANT NoErr", "CHECK_DEADLOCK FALSE"])
    else:
        mod = gen_mc(sc, "mc" + tag, c, cfg_lines=["SPECIFICATION DSpec"] + ["INVARIANT " + i for i in comp["invariants"]] + ["CHECK_DEADLOCK TRUE"])
    for attempt in (1, 2):
        r = run_tlc(mod, coverage=coverage, timeout=timeout, heap="8g", workers=workers)
        if r.ok or r.violation or r.error:
            break           # (a TLC process killed from outside leaves none of the three: run it again once)
    if r.error == "timeout" and not r.distinct:     # no final summary: take the last progress report
        m = re.findall(r"Progress\(\d+\) at [^:]*:\d+:\d+: ([\d,]+) states generated .*?, ([\d,]+) distinct states found", r.out)
        if m:
            r.states = int(m[-1][0].replace(",", "")); r.distinct = int(m[-1][1].replace(",", ""))
    return mod, c, r


def describe(r):
    """what a TLC counterexample violates: the invariant / deadlock / temporal property, the errs ghost, the uaf ghost"""
    return ((r.violation or "") + " " + " ".join(re.findall(r'errs = \{(.*?)\}', r.out)[-1:]) + (" uaf" if re.search(r"/\\ uaf = TRUE", r.out) else "")).strip()


EQUIVALENT = object()


def mc_report(ctx, sc, mod, c, r, timeout, expect=None):
    """expect = None: the scenario must hold.  expect = substring: negative control, TLC must report a violation whose
    description contains it (the invariants have teeth); anything else is a failure of the check itself."""
    ctx.add_tlc(r, mod, {k: v for k, v in c.items() if len(v) < 200})
    log("  [TLC] %s: %d distinct states, %.0fs, %s%s" % (mod, r.distinct, r.wall, "ok" if r.ok else (describe(r) or r.error), " (mutant documented as unobservable)" if expect is EQUIVALENT else " (negative control)" if expect is not None else ""))
    if expect is EQUIVALENT:       # a mutant documented as not observable: it must model check clean (otherwise the documentation is wrong: machinery error)
        if not r.ok:
            raise RuntimeError("mutant configuration %s documented as unobservable did not model check clean: %s" % (mod, describe(r) or r.error))
        ctx.extra.setdefault("wq_unobservable_mutants", []).append({"config": mod, "distinct_states": r.distinct})
        return
    if expect is not None:
        what = describe(r)
        if not r.violation or expect not in what:
            raise RuntimeError("negative control %s did not produce the expected violation (%s): got %s" % (mod, expect, what or r.error or "no violation"))
        n = len(re.findall(r"^State \d+:", r.out, re.M))
        # not a claim: the run ended, as it must, at the expected counterexample (kept out of the `exhaustive` verdict of the claims)
        ctx.configs[-1].update({"complete": True, "negative_control": True, "expected_counterexample": what})
        ctx.extra.setdefault("wq_negative_controls", []).append({"config": mod, "expected": expect, "found": what, "counterexample_states": n})
        return
    if r.violation:
        d = ctx.viol_dir(); shutil.copy(r.log, os.path.join(d, "tlc.log"))
        json.dump({"kind": "tlc", "scenario": sc["name"], "module": mod, "driver": "d_workqueue.c", "component": "workqueue"}, open(os.path.join(d, "meta.json"), "w"))
        ctx.violation("TLC: %s violated in %s (design-level counterexample in tlc.log)" % (describe(r), mod), d)
    elif not r.ok:
        if r.error == "timeout":
            ctx.notes.append("%s: TLC timed out after %ds with %d distinct states (not exhaustive)" % (mod, timeout, r.distinct))
        else:
            raise RuntimeError("TLC failed on %s: %s\n%s" % (mod, r.error, r.out[-1500:]))
    if r.coverage:
        ctx.extra.setdefault("wq_actions_never_taken", {})[mod] = [k for k, v in r.coverage.items() if v[1] == 0 and k != "Terminating"]
        ctx.extra.setdefault("wq_actions_taken", set()).update(k for k, v in r.coverage.items() if v[1] > 0)


MUTANT_LABELS = {"wc_cfd", "wc_dst", "wm_dec", "wm_stop", "wm_top"}      # labels that only the negative-control mutants execute


def labels():
    txt = open(os.path.join(SPEC, "Workqueue.tla")).read()
    return sorted(set(re.findall(r"^(\w+)\(self\) == /\\ pc\[self\] = ", txt, re.M)))


# ------------------------------------------------------------------ spec -> code: TLC behaviours as schedules
SCHED_OPS = ("ld", "st", "xchg", "cas", "inc", "dec", "add", "or", "and", "addret", "mb", "fwait", "fwoke", "fwake", "join", "exit")


def conformance(ctx, comp, exe, sc, tsos, nseeds, wd, nsim=0, sim_tsos=(1,)):
    """Recorded executions of the real code (seeded PCT / uniform schedules, SC and software TSO; plus nsim behaviours of the
    specification generated by tlc -simulate and forced onto the code, see tools/wq_sched.py) are validated step by step against
    the specification, all invariants evaluated in every state of the matched behaviour."""
    import wq_sched
    for tso in tsos:
        if len(ctx.violations) >= conc.MAXV:
            return
        seeds = [ctx.seed * 100003 + i for i in range(nseeds)]
        runs, fails = run_batch_projected(ctx, comp, exe, sc, tso, seeds, wd)
        conc.report_failures(ctx, comp, fails)
        if runs:
            ctx.sample({"kind": "recorded execution of the real src/workqueue.c (first events)", "scenario": sc["name"], "tso": tso, "seed": runs[0][0],
                        "events": [{k: v for k, v in e.items() if v != "-"} for e in runs[0][1][:16]]})
        sims = []
        if nsim and tso in sim_tsos and not sc.get("spurious") and not COV and len(ctx.violations) < conc.MAXV:
            sims = wq_sched.behaviour_runs(ctx, comp, exe, sc, tso, nsim, wd)
        nv = len(ctx.violations)
        conc.validate(ctx, comp, sc, tso, runs + sims, wd, "tv_%s_%s_%d" % (ctx.pid.lower(), sc["name"], tso))
        if len(ctx.violations) == nv:
            ctx.replays += len(sims)
        for v in ctx.violations[nv:]:            # a rejected execution that came from a forced behaviour: keep its schedule for --replay
            mp = os.path.join(v["replay"], "meta.json")
            if os.path.exists(mp):
                meta = json.load(open(mp))
                k = (sc["name"], tso, meta.get("seed"))
                if k in wq_sched.SCHEDULES:
                    meta["schedule"] = wq_sched.SCHEDULES[k]; json.dump(meta, open(mp, "w"), indent=1)
        if not ctx.violations:
            shutil.rmtree(os.path.join(OUT, "tlc", "tv_%s_%s_%d" % (ctx.pid.lower(), sc["name"], tso)), ignore_errors=True)


def selftest(ctx, comp, exe, scn="wq_q1f"):
    """Validator sanity (GUIDE 5.2a): one recorded execution is accepted; the same execution with ONE corrupted field must be
    rejected.  A validator that accepts a corrupted trace is a machinery failure (exit 2), not a property violation."""
    sc = load_scenario(scn)
    wd = os.path.join(ctx.outdir, "work_wq_selftest"); shutil.rmtree(wd, ignore_errors=True); os.makedirs(wd)
    runs, fails = run_batch_projected(ctx, comp, exe, sc, 1, [ctx.seed * 100003 + 900 + k for k in range(3)], wd)
    conc.report_failures(ctx, comp, fails)
    c = conc.consts_for(comp, sc, 1, True); c["__spec__"] = comp["spec"]; c.update(comp.get("trace_consts", {}))
    mod = gen_trace_module(comp["trace"], comp["spec"], "TV_%s_%s_selftest" % (scn, ctx.pid.lower()), c, invariants=comp["invariants"])
    done = 0
    for seed, ev in runs[:1]:
        n = normalize(ev, **comp["normalize"])
        tp = os.path.join(wd, "selftest.ndjson"); write_ndjson(tp, n)
        v = validate_trace_file(mod, tp, tag="tv_wq_selftest_%s_ok" % ctx.pid)
        if not v.accepted:
            raise RuntimeError("wq selftest: an unmodified recorded execution (seed %d) was not accepted: %s" % (seed, v.violation or v.error))
        picks = []
        for want in (lambda e: e["op"] == "addret" and str(e["var"]).endswith(".barrier_count"), lambda e: e["op"] == "ld" and e["var"] == "wq.futex",
                     lambda e: e["op"] == "xchg" and e["var"] == "wq.cbs_tail", lambda e: e["op"] == "cb"):
            ks = [k for k, e in enumerate(n) if want(e)]
            if ks:
                picks.append(ks[0])
        for k in picks:
            m = copy.deepcopy(n)
            if m[k]["op"] == "cb":
                m[k]["var"] = "w9"
            elif m[k]["op"] == "xchg":
                m[k]["xr"] = "w9"
            else:
                m[k]["xr"] = m[k]["xr"] + 1
            write_ndjson(tp, m)
            v = validate_trace_file(mod, tp, tag="tv_wq_selftest_%s_bad" % ctx.pid)
            if v.accepted:
                raise RuntimeError("wq selftest: the trace validator accepted a corrupted execution (event #%d %s)" % (k + 1, json.dumps(m[k])))
            done += 1
    ctx.extra["wq_validator_selftest"] = "%d corrupted traces rejected" % done
    shutil.rmtree(wd, ignore_errors=True)
    for t in ("ok", "bad"):
        shutil.rmtree(os.path.join(OUT, "tlc", "tv_wq_selftest_%s_%s" % (ctx.pid, t)), ignore_errors=True)


def run_property(ctx, scenarios, negatives, live, nseeds, sc_tsos=None, mc_workers=3, mc_timeout=3000, coverage=False, conf_only=(), do_selftest=False, sc_also=(), pool_size=1, equivalents=(), nsim=0, sim_tsos=(1,), directed=()):
    """scenarios: names model checked (background TLC) and executed / validated (foreground); negatives: [(scenario, mutants,
    expected)] model-level negative controls; live: [(scenario, properties, tso)] liveness configurations; sc_also: scenarios
    additionally model checked as the SC instance."""
    import concurrent.futures as cf
    comp = component()
    wd = os.path.join(ctx.outdir, "work_wq"); shutil.rmtree(wd, ignore_errors=True); os.makedirs(wd)
    only = os.environ.get("VERIF_SCEN")
    scs = [load_scenario(s) for s in scenarios if not only or s in only.split(",")]
    exe = build_driver(comp["drvname"], comp["driver"], defines=comp["defines"], tag=ctx.pid + "_" + comp["drvname"])
    tag = ctx.pid.lower()
    with cf.ThreadPoolExecutor(pool_size) as pool:      # pool_size background TLCs (mc_workers each) + the foreground trace validator (1 worker)
        jobs = []
        if not COV:
            jobs = [(sc, None, pool.submit(model_check, comp, sc, mc_workers, mc_timeout, (), (), coverage, True, tag)) for sc in scs if sc["name"] not in conf_only]
            if not only:
                jobs += [(load_scenario(s), None, pool.submit(model_check, comp, load_scenario(s), mc_workers, mc_timeout, (), (), False, False, tag)) for s in sc_also]
                jobs += [(load_scenario(s), exp, pool.submit(model_check, comp, load_scenario(s), mc_workers, mc_timeout, (), tuple(m), False, t_, tag)) for s, m, exp, t_ in negatives]
                jobs += [(load_scenario(s), None, pool.submit(model_check, comp, load_scenario(s), mc_workers, mc_timeout, tuple(props), (), False, t_, tag)) for s, props, t_ in live]
                jobs += [(load_scenario(s), EQUIVALENT, pool.submit(model_check, comp, load_scenario(s), mc_workers, mc_timeout, (), tuple(m), False, t_, tag)) for s, m, t_ in equivalents]
        for sc in scs:
            conformance(ctx, comp, exe, sc, (sc_tsos or {}).get(sc["name"], (0, 1)), nseeds, wd, nsim=nsim, sim_tsos=sim_tsos)
            log("  [conf] %s: traces validated so far %d, events %d, violations %d" % (sc["name"], ctx.traces, ctx.events, len(ctx.violations)))
        if not COV and not only:
            import wq_sched
            for scn, expect_fail in directed:      # TLC counterexamples of misuse scenarios forced onto the real, unmodified code
                wq_sched.directed_negative(ctx, comp, exe, scn, expect_fail, wd)
                log("  [directed] %s: the real code follows the TLC counterexample and fails with %s" % (scn, expect_fail))
        if do_selftest and not COV and not ctx.violations:
            selftest(ctx, comp, exe)
        for sc, exp, j in jobs:
            mod, c, r = j.result()
            mc_report(ctx, sc, mod, c, r, mc_timeout, expect=exp)
    shutil.rmtree(wd, ignore_errors=True)
    if "wq_actions_taken" in ctx.extra:
        taken = ctx.extra.pop("wq_actions_taken")
        ctx.extra["wq_labels_total"] = len(labels())
        ctx.extra["wq_labels_not_taken_in_any_configuration"] = sorted(set(labels()) - taken - MUTANT_LABELS)
        ctx.extra["wq_labels_of_mutants_only"] = sorted(MUTANT_LABELS)
        ctx.extra.pop("wq_actions_never_taken", None)


def replay(ctx, path):
    """Re-run one recorded violation on the current tree: a TLC configuration or a recorded execution (same scenario, seed,
    scheduler mode)."""
    meta = json.load(open(os.path.join(path, "meta.json")))
    comp = component()
    sc = load_scenario(meta["scenario"])
    if meta.get("kind") == "tlc":
        m = re.match(r"MC_.*_(mc|live)(\w*)$", meta["module"])
        live = bool(m and m.group(1) == "live")
        mod, c, r = model_check(comp, sc, 4, 3000, ("Termination", "EventuallyExecuted") if live else (), tso=not meta["module"].endswith("sc"), tag="replay")
        mc_report(ctx, sc, mod, c, r, 3000)
    else:
        wd = os.path.join(ctx.outdir, "replay_work"); shutil.rmtree(wd, ignore_errors=True); os.makedirs(wd)
        exe = build_driver(comp["drvname"], comp["driver"], defines=comp["defines"], tag=ctx.pid + "_" + comp["drvname"])
        env = dict(meta.get("env") or {})
        if meta.get("schedule"):          # a behaviour of the specification forced onto the code
            import wq_sched
            rc, se, ev, div = wq_sched.force(exe, comp, sc, meta["schedule"], meta["tso"], wd, name="replay")
            if rc != 0:
                m = re.search(r"VRT-FAIL (.*)", se)
                ctx.violation("the real code fails under a behaviour of Workqueue (scenario %s, tso=%d): %s" % (sc["name"], meta["tso"], m.group(1) if m else se[-200:]), path)
            else:
                conc.validate(ctx, comp, sc, meta["tso"], [(meta["seed"], project(ev))], wd, "tv_replay")
        else:
            runs, fails, pf = conc.run_batch(ctx, comp, exe, sc, meta["tso"], [meta["seed"]], wd, env_extra={k: v for k, v in env.items() if k.startswith("VRT_")})
            conc.report_failures(ctx, comp, fails)
            conc.validate(ctx, comp, sc, meta["tso"], [(s, project(ev)) for s, ev in runs], wd, "tv_replay")
    log("replay of %s: %s" % (path, "violation reproduced" if ctx.violations else "no violation on the current tree"))
