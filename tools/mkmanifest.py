#!/usr/bin/env python3
"""Regenerate MANIFEST.json from the table below (single place to edit claims)."""
import json, os
V = os.path.dirname(os.path.dirname(os.path.abspath(__file__)))
ALL = ["C%02d" % i for i in range(1, 21)]
MC = ("TLC model checking of the PlusCal/TLA+ specification (one action per shared-memory access, x86-TSO store buffers) over bounded scenarios; "
      "bound to the code by trace validation of executions of the real sources under a serialising scheduler (code->spec) and by replay of TLC behaviours into the real code (spec->code)")
CLAIMS = {
 "C10": dict(text="Exhaustive TLC exploration of all interleavings and store-buffer delays of the wfcqueue algorithm for 4 bounded scenarios (linearizability monitor over FIFO queues, node conservation, deadlock freedom); "
             "every recorded execution of the real wfcqueue.h (SC and software-TSO, seeded PCT/uniform schedules) must be a behaviour of that specification with all invariants evaluated at each step, and TLC-generated behaviours must be followable by the real code.",
             design="DESIGN.md 4 (C10)", note="Trusted: TLC, x86-TSO model, the VSCHED runtime (serialisation, software store buffers), gcc honouring volatile/asm barriers. Bounds: <= 3 threads, <= 3 nodes, 2 queues, store buffers <= 2 in TLC.",
             technique="TLA+/PlusCal spec Wfcq + LinMon checked by TLC; trace validation (WfcqTrace) and schedule replay against the real code"),
}
NOT_YET = "check not built yet in this revision (planned in DESIGN.md section 4); no claim is made"
def main():
    checks = []
    for pid, c in CLAIMS.items():
        checks.append({"property_id": pid, "quick_cmd": "./check %s --tier quick" % pid, "thorough_cmd": "./check %s --tier thorough" % pid,
                       "evidence_file": "evidence/%s.json" % pid, "replay_cmd_template": "./check %s --replay {path}" % pid, "engine": "tla-vsched",
                       "level_claimed": {"category": c.get("category", "model_checking"), "text": c["text"], "design_ref": c["design"]},
                       "level_note": c["note"], "technique": c["technique"]})
    na = [{"property_id": p, "reason": NA.get(p, NOT_YET)} for p in ALL if p not in CLAIMS]
    m = {"version": 1, "setup_cmd": "./setup.sh",
         "hooks": {"guard": "URCU_VERIF", "enable": "drivers under /verif/harness #include the library sources from /repo and are compiled with -DURCU_VERIF (plus -DURCU_VERIF_<TUNABLE>=n overrides); /repo itself is never built with the guard",
                   "baseline_off_cmd": "cd /repo && make -k check", "source_commits": ["c4aecc3", "f2d27b6"], "add_only": True},
         "engines": [{"name": "tla-vsched", "path": "tools/check.py", "serves_properties": sorted(CLAIMS), "kind_free_text": "TLA+ specifications checked with TLC; conformance harness (VSCHED runtime + drivers including the real sources) for trace validation and schedule replay"}],
         "checks": checks, "not_applicable": na,
         "notes": "See DESIGN.md. `./check <id> --tier quick|thorough`; VERIF_SEED seeds schedulers and TLC simulation."}
    json.dump(m, open(os.path.join(V, "MANIFEST.json"), "w"), indent=1)
    print("claimed:", sorted(CLAIMS), "not_applicable:", len(na))
NA = {}
if __name__ == "__main__":
    main()
