#!/bin/sh
# usage: tools/mkworktree.sh <name>  -> /tmp/mut_<name>: a built scratch git worktree of /repo HEAD (for seeded-mutation experiments)
set -e
d=/tmp/${MUTPREFIX:-mut}_$1
git -C /repo worktree add -q --detach "$d" HEAD
cd "$d" && ./bootstrap >/dev/null 2>&1 && ./configure -q >/dev/null 2>&1 && make -j8 >/dev/null 2>&1
mkdir -p "$d/OUT"
echo "$d ready"
