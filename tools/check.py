#!/usr/bin/env python3
"""./check <property-id> [--tier quick|thorough] [--replay <path>]

Exit 0: property held on everything explored (KNOWN-FINDING lines may be printed).
Exit 1: `VIOLATION property=<id> replay=<path>` printed for a violation not listed in known_findings.jsonl.
Exit 2: the machinery itself failed (build error, TLC crash) -- never reported as a violation.
"""
import sys, os, time, json, argparse, traceback, importlib, shutil
sys.path.insert(0, os.path.dirname(os.path.abspath(__file__)))
from vlib import *


class Ctx:
    def __init__(self, pid, tier, seed):
        self.pid = pid; self.tier = tier; self.seed = seed
        self.states = 0; self.transitions = 0; self.traces = 0; self.events = 0; self.replays = 0
        self.samples = []; self.violations = []; self.known = []; self.assumptions = []; self.configs = []
        self.notes = []; self.t0 = time.time(); self.extra = {}
        self.outdir = os.path.join(OUT, pid)
        os.makedirs(self.outdir, exist_ok=True)
        self.nviol = 0
        self.findings = [f for f in load_known_findings() if f.get("property") == pid and f.get("status") == "known"]

    def quick(self):
        return self.tier == "quick"

    def sample(self, s):
        if len(self.samples) < 6:
            self.samples.append(s)

    def viol_dir(self):
        self.nviol += 1
        d = os.path.join(self.outdir, "viol-%d" % self.nviol)
        shutil.rmtree(d, ignore_errors=True)
        os.makedirs(d)
        return d

    def violation(self, what, replay, key=None):
        """Record a violation; if it matches a known finding (by key substring), report it as such."""
        if COV:         # anchor coverage pass: verdicts of the perturbed builds are not used (and must not stop the run early)
            return
        for f in self.findings:
            if key and f.get("key") and f["key"] == key:
                if f not in self.known:
                    self.known.append(f)
                    log("KNOWN-FINDING: property=%s %s" % (self.pid, f.get("what", key)))
                return
        self.violations.append({"what": what, "replay": replay})
        log("VIOLATION property=%s replay=%s" % (self.pid, replay))
        log("  detail: " + what)

    def add_tlc(self, r, name, consts=None):
        self.states += r.distinct; self.transitions += r.states
        self.configs.append({"config": name, "distinct_states": r.distinct, "states_generated": r.states, "depth": r.depth,
                             "wall_s": round(r.wall, 1), "complete": bool(r.ok), "constants": consts or {}})


def main():
    ap = argparse.ArgumentParser()
    ap.add_argument("pid")
    ap.add_argument("--tier", default=os.environ.get("VERIF_TIER", "quick"))
    ap.add_argument("--replay")
    a = ap.parse_args()
    seed = int(os.environ.get("VERIF_SEED", "1"))
    pid = a.pid.upper()
    mod = importlib.import_module("props." + pid.lower())
    ctx = Ctx(pid, a.tier, seed)
    try:
        if a.replay:
            mod.replay(ctx, a.replay)
        else:
            mod.run(ctx)
    except Exception as ex:
        traceback.print_exc()
        log("CHECK-ERROR property=%s %s" % (pid, ex))
        sys.exit(2)
    if not a.replay and ctx.tier == "thorough" and not ctx.violations and os.environ.get("VERIF_COV") != "1" and os.environ.get("VERIF_NOCOV") != "1":
        # anchor coverage pass (DESIGN 2.7): the quick tier once more on coverage builds of the drivers, in its own work directory
        try:
            import subprocess, anchorcov
            cw = os.path.join(ctx.outdir, "cov"); shutil.rmtree(cw, ignore_errors=True)
            e = dict(os.environ); e.update({"VERIF_COV": "1", "VERIF_WORK": cw})
            p = subprocess.run([sys.executable, os.path.abspath(__file__), pid, "--tier", "quick"], env=e, capture_output=True, text=True, timeout=3600)
            rep = anchorcov.report(pid, os.path.join(cw, "build"))
            rep["coverage_pass_exit_status"] = p.returncode
            ctx.extra["anchor_coverage"] = rep
            log("  [cov] anchors: %d of %d executable anchor lines executed by this check's drivers" % (rep["executed_anchor_lines"], rep["executable_anchor_lines"]))
            shutil.rmtree(cw, ignore_errors=True)
        except Exception as ex:
            ctx.notes.append("anchor coverage pass failed: %s" % ex)
    wall = time.time() - ctx.t0
    if not a.replay:
        level = getattr(mod, "LEVEL", "model_checking")
        cov = {"states": ctx.states, "transitions": ctx.transitions, "traces_validated_against_impl": ctx.traces,
               "samples": ctx.samples or ["(none)"], "trace_events_validated": ctx.events, "spec_behaviours_replayed_into_impl": ctx.replays,
               "tlc_configs": ctx.configs, "exhaustive": all(c["complete"] for c in ctx.configs) if ctx.configs else False,
               "known_findings_reported": [f.get("key") for f in ctx.known], "notes": ctx.notes}
        cov.update(ctx.extra)
        if level != "model_checking" or ctx.states == 0:
            cov.setdefault("evaluations", max(1, ctx.traces + ctx.replays)); cov.setdefault("distinct_nontrivial", max(2, ctx.traces))
            cov.setdefault("rule", "see notes")
        write_evidence(pid, ctx.tier, seed, level, cov, ctx.assumptions + getattr(mod, "ASSUMPTIONS", []), wall, len(ctx.violations))
    log("%s property=%s tier=%s states=%d traces=%d events=%d replays=%d wall=%.1fs" % (
        "FAIL" if ctx.violations else "PASS", pid, ctx.tier, ctx.states, ctx.traces, ctx.events, ctx.replays, wall))
    sys.exit(1 if ctx.violations else 0)


if __name__ == "__main__":
    main()
