/*
 * C17 driver wrapper: harness/d_wfs.c unchanged, with the progress class of __cds_wfs_pop_all corrected for solo mode.
 * d_wfs.c brackets "popall" (= __cds_wfs_pop_all + the traversal of the popped list) as ONE operation of class VP_BLOCKING, which is right
 * for the traversal (cds_wfs_next_blocking waits for pushes in flight) but hides the documented wait-free part (wfstack.h: "Wait-free
 * operations: cds_wfs_push, __cds_wfs_pop_all, cds_wfs_empty").  Here the call of __cds_wfs_pop_all made by d_wfs.c becomes its own
 * wait-free segment "wfs_pop_all_wf"; the traversal that follows stays blocking ("wfs_traverse").  No library code is copied: the macro
 * only re-brackets the call of the real ___cds_wfs_pop_all.
 */
#define _LGPL_SOURCE
#include "vrt_redirect.h"
#include <urcu/wfstack.h>

static inline struct cds_wfs_head *c17_wfs_pop_all(cds_wfs_stack_ptr_t u_stack)
{
	struct cds_wfs_head *h;

	vrt_op_end();					/* closes the "wfs_pop_all" bracket opened by d_wfs.c (no access yet) */
	vrt_op_begin("wfs_pop_all_wf", VP_WAITFREE);
	h = ___cds_wfs_pop_all(u_stack);
	vrt_op_end();
	vrt_op_begin("wfs_traverse", VP_BLOCKING);	/* closed by d_wfs.c's vrt_op_end() after the traversal */
	return h;
}
#undef __cds_wfs_pop_all
#define __cds_wfs_pop_all(s) c17_wfs_pop_all(s)

#include "d_wfs.c"
