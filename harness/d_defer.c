/*
 * Driver for C13: the real src/urcu-defer-impl.h (unit-included through src/urcu.c, mb flavor: build with -DRCU_MB).
 *
 * Protocol mode:  d_defer <seed> <tso> <trace> <program-file>
 *   runs the thread programs of a scenario under VSCHED.  The reclaimer thread (thr_defer) is created by the library
 *   through the redirected pthread_create and becomes daemon model thread h1 (h2, ... after re-registration).
 *   program file: "thread <name>" followed by
 *     reg | unreg | barrier | barrier_thread | defer <fct> <arg> | rlock | runlock | waitcb
 *   waitcb blocks (scheduler-level predicate, no library call) until every call this thread queued has been invoked:
 *   with a lost wake-up of the reclaimer the run ends in the runtime's DEADLOCK oracle.
 *   After vrt_run the "callback never ran at quiescence" oracle checks that nothing is left queued.
 *
 * Codec mode:     d_defer codec <out.ndjson> <cases-file>
 *   sequential, outside the scheduler (the reclaimer thread is created but never scheduled): replays TLC-generated
 *   sequences of defer_rcu(fct, arg) / rcu_defer_barrier_thread() calls and records, after every call, the invoked
 *   (fct, arg) pairs and the ring image (head & MASK, head - tail, last_fct_in, last_fct_out, live slots).
 *   cases file: "case <id>" followed by "d <fct> <arg>" | "b" lines.
 *
 * Value representatives: functions fA, fB (ordinary C functions, aligned), gO (a stub emitted at an ODD address in an
 * executable page, jumping to a C function), MARK (= DQ_FCT_MARK, not callable), NULL (not callable);
 * arguments a1..a9 (aligned objects), o1..o9 (object address + 1: low bit set), MARK, NULL.
 * A call whose function is MARK or NULL can be queued but never decoded by this driver (it would jump to an unmapped
 * address): the case is abandoned (queue reset by hand) before the first decode that would reach it; for those
 * classes only the encoder's ring image is compared.
 */
#include "vrt_redirect.h"
#include <setjmp.h>

/* the library terminates its reclaimer with pthread_exit(): unwind to the thread function's caller instead, so that
 * the runtime's trampoline sees a normal return of the model thread */
static __thread jmp_buf *d_exit_jb;
struct d_start { void *(*fn)(void *); void *arg; };
static void *d_thread_wrap(void *p)
{
	struct d_start s = *(struct d_start *) p; jmp_buf jb;
	free(p);
	if (setjmp(jb)) return NULL;
	d_exit_jb = &jb;
	return s.fn(s.arg);
}
static int d_pthread_create(pthread_t *tid, const pthread_attr_t *attr, void *(*fn)(void *), void *arg)
{
	struct d_start *s = malloc(sizeof *s); s->fn = fn; s->arg = arg;
	return vrt_pthread_create(tid, attr, d_thread_wrap, s);
}
static void d_thread_exit(void *r) { (void) r; if (!d_exit_jb) abort(); longjmp(*d_exit_jb, 1); }
#undef pthread_create
#define pthread_create d_pthread_create
#define pthread_exit d_thread_exit

#include REPO_SRC(urcu.c)
#include REPO_SRC(compat_futex.c)	/* fallback of futex_noasync() on ENOSYS (VRT_FUTEX_ENOSYS=1) */

#define NS __attribute__((no_sanitize_thread))
#define QSZ DEFER_QUEUE_SIZE
#define MAXT 8
#define MAXOPS 48
#define MAXQD 64

/* ------------------------------------------------------------------ value alphabet */
static long argobj[10][2];
static unsigned char *stubpage;
typedef void (*fct_t)(void *);
static fct_t F_gO;
static NS void record_call(const char *f, void *p);
#define FALIGN __attribute__((aligned(16), noinline))
static FALIGN NS void fA(void *p) { record_call("fA", p); }
static FALIGN NS void fB(void *p) { record_call("fB", p); }
static FALIGN NS void gO_target(void *p) { record_call("gO", p); }

static void make_stub(void)
{
	stubpage = mmap(NULL, 4096, PROT_READ | PROT_WRITE | PROT_EXEC, MAP_PRIVATE | MAP_ANONYMOUS, -1, 0);
	if (stubpage == MAP_FAILED) { perror("mmap"); _exit(2); }
	unsigned char *s = stubpage + 65;	/* odd address */
	unsigned long t = (unsigned long) gO_target;
	s[0] = 0x48; s[1] = 0xb8; memcpy(s + 2, &t, 8); s[10] = 0xff; s[11] = 0xe0;	/* movabs $t,%rax ; jmp *%rax */
	F_gO = (fct_t) s;
}
static fct_t fct_of(const char *n)
{
	if (!strcmp(n, "fA")) return fA;
	if (!strcmp(n, "fB")) return fB;
	if (!strcmp(n, "gO")) return F_gO;
	if (!strcmp(n, "MARK")) return (fct_t) DQ_FCT_MARK;
	if (!strcmp(n, "NULL")) return NULL;
	fprintf(stderr, "bad function %s\n", n); _exit(2);
}
static void *arg_of(const char *n)
{
	if (n[0] == 'a' && n[1] >= '1' && n[1] <= '9') return &argobj[n[1] - '0'][0];
	if (n[0] == 'o' && n[1] >= '1' && n[1] <= '9') return (char *) &argobj[n[1] - '0'][1] + 1;
	if (!strcmp(n, "MARK")) return DQ_FCT_MARK;
	if (!strcmp(n, "NULL")) return NULL;
	fprintf(stderr, "bad argument %s\n", n); _exit(2);
}
static int callable(const char *f) { return strcmp(f, "MARK") && strcmp(f, "NULL"); }
static void name_values(void)
{
	make_stub();
	vrt_name_val(NULL, "NULL"); vrt_name_val(DQ_FCT_MARK, "MARK"); vrt_name_val((void *) 1UL, "NULL|1");
	vrt_name_val((void *) fA, "fA"); vrt_name_val((void *) ((unsigned long) fA | 1), "fA|1");
	vrt_name_val((void *) fB, "fB"); vrt_name_val((void *) ((unsigned long) fB | 1), "fB|1");
	vrt_name_val((void *) F_gO, "gO");
	if (!DQ_IS_FCT_BIT(F_gO) || DQ_IS_FCT_BIT(fA) || DQ_IS_FCT_BIT(fB)) { fprintf(stderr, "representatives have the wrong alignment\n"); _exit(2); }
	for (int k = 1; k <= 9; k++) { vrt_name_val(&argobj[k][0], "a%d", k); vrt_name_val((char *) &argobj[k][1] + 1, "o%d", k); }
}

/* ------------------------------------------------------------------ protocol mode */
struct op { char kind[16], f[8], p[8]; };
struct prog { char name[16]; int nops; struct op ops[MAXOPS]; };
static struct prog P[MAXT]; static int np;
struct qd { const char *f; void *p; unsigned long snap[MAXT]; };
static struct qd expq[MAXT][MAXQD]; static int exph[MAXT], expt[MAXT];	/* per queuing thread: calls queued, not yet invoked */
static unsigned long cs_cur[MAXT], cs_next = 1;				/* open read-side section of each scenario thread */
static int codec_mode; static FILE *cout; static int cfirst;

static NS void record_call(const char *f, void *p)
{
	if (codec_mode) { fprintf(cout, "%s[\"%s\",\"%s\"]", cfirst ? "" : ",", f, vrt_sym(p)); cfirst = 0; return; }
	vrt_log("\"op\":\"cb\",\"f\":\"%s\",\"p\":\"%s\"", f, vrt_sym(p));
	int k;
	for (k = 0; k < np; k++) if (exph[k] != expt[k] && !strcmp(expq[k][exph[k]].f, f) && expq[k][exph[k]].p == p) break;
	if (k == np) vrt_fail("ORACLE invoked (%s,%s) is not the oldest pending call of any thread (lost, duplicated, reordered or corrupted)", f, vrt_sym(p));
	struct qd *d = &expq[k][exph[k]];
	for (int i = 0; i < np; i++) if (d->snap[i] && cs_cur[i] == d->snap[i])
		vrt_fail("ORACLE (%s,%s) invoked while the read-side critical section of %s open at queue time is still open", f, vrt_sym(p), P[i].name);
	exph[k]++;
}
static NS int all_invoked(void *arg) { int k = (int)(long) arg; return exph[k] == expt[k]; }

static void name_queue(const char *t, int on)
{
	struct defer_queue *q = &URCU_TLS(defer_queue);
	for (int k = 0; k < QSZ; k++) { if (on) vrt_name(&q->q[k], VK_PTR, "%s.q%d", t, k); else vrt_unname(&q->q[k]); }
}

static void *runner(void *arg)
{
	int me = (int)(long) arg; struct prog *p = &P[me]; int registered = 0;
	rcu_register_thread();
	vrt_name(&URCU_TLS(defer_queue).head, VK_INT, "%s.head", p->name);
	vrt_name(&URCU_TLS(defer_queue).tail, VK_INT, "%s.tail", p->name);
	for (int k = 0; k < p->nops; k++) {
		struct op *o = &p->ops[k];
		if (!strcmp(o->kind, "rlock")) {
			rcu_read_lock();
			cs_cur[me] = cs_next++;
			vrt_log("\"op\":\"rlock\"");
			continue;
		}
		if (!strcmp(o->kind, "runlock")) {
			vrt_log("\"op\":\"runlock\"");
			cs_cur[me] = 0;
			rcu_read_unlock();
			continue;
		}
		if (!strcmp(o->kind, "defer")) {
			struct qd *d = &expq[me][expt[me]];
			if (expt[me] == MAXQD - 1) vrt_fail("RUNTIME too many defer ops");
			d->f = o->f; d->p = arg_of(o->p); for (int i = 0; i < np; i++) d->snap[i] = cs_cur[i];
			expt[me]++;
			vrt_log("\"op\":\"call\",\"api\":\"defer\",\"f\":\"%s\",\"p\":\"%s\"", o->f, o->p);
			vrt_op_begin("defer_rcu", VP_BLOCKING);
			defer_rcu(fct_of(o->f), d->p);
			vrt_op_end();
		} else if (!strcmp(o->kind, "reg")) {
			vrt_log("\"op\":\"call\",\"api\":\"reg\"");
			vrt_op_begin("rcu_defer_register_thread", VP_BLOCKING);
			int r = rcu_defer_register_thread();
			vrt_op_end();
			if (r) vrt_fail("ORACLE rcu_defer_register_thread failed");
			name_queue(p->name, 1); registered = 1;
		} else if (!strcmp(o->kind, "unreg")) {
			vrt_log("\"op\":\"call\",\"api\":\"unreg\"");
			void **oldq = URCU_TLS(defer_queue).q;
			vrt_op_begin("rcu_defer_unregister_thread", VP_BLOCKING);
			rcu_defer_unregister_thread();
			vrt_op_end();
			for (int j = 0; j < QSZ; j++) vrt_unname(&oldq[j]);
			registered = 0;
			if (exph[me] != expt[me]) vrt_fail("ORACLE rcu_defer_unregister_thread returned with %d queued calls not invoked", expt[me] - exph[me]);
		} else if (!strcmp(o->kind, "barrier")) {
			vrt_log("\"op\":\"call\",\"api\":\"barrier\"");
			vrt_op_begin("rcu_defer_barrier", VP_BLOCKING);
			rcu_defer_barrier();
			vrt_op_end();
			if (exph[me] != expt[me]) vrt_fail("ORACLE rcu_defer_barrier returned with %d own queued calls not invoked", expt[me] - exph[me]);
		} else if (!strcmp(o->kind, "barrier_thread")) {
			vrt_log("\"op\":\"call\",\"api\":\"barrier_thread\"");
			vrt_op_begin("rcu_defer_barrier_thread", VP_BLOCKING);
			rcu_defer_barrier_thread();
			vrt_op_end();
			if (exph[me] != expt[me]) vrt_fail("ORACLE rcu_defer_barrier_thread returned with %d own queued calls not invoked", expt[me] - exph[me]);
		} else if (!strcmp(o->kind, "waitcb")) {
			vrt_log("\"op\":\"call\",\"api\":\"waitcb\"");
			vrt_wait_until(all_invoked, (void *)(long) me);
		} else vrt_fail("RUNTIME unknown op %s", o->kind);
		vrt_log("\"op\":\"ret\"");
	}
	(void) registered;
	rcu_unregister_thread();
	return NULL;
}

static int protocol_main(int argc, char **argv)
{
	struct vrt_opts o; vrt_parse_args(argc, argv, &o);
	FILE *f = fopen(argc > 4 ? argv[4] : "/dev/null", "r"); char line[128]; struct prog *cur = NULL;
	if (!f) { perror("program"); return 2; }
	while (fgets(line, sizeof line, f)) {
		char a[16], b[16], c[16];
		if (sscanf(line, "thread %15s", a) == 1) { if (np == MAXT) return 2; cur = &P[np++]; snprintf(cur->name, sizeof cur->name, "%s", a); continue; }
		if (!cur || cur->nops == MAXOPS) continue;
		struct op *op = &cur->ops[cur->nops];
		int n = sscanf(line, "%15s %7s %7s", a, b, c);
		if (n < 1) continue;
		snprintf(op->kind, sizeof op->kind, "%s", a);
		if (!strcmp(a, "defer")) { if (n != 3) return 2; snprintf(op->f, sizeof op->f, "%s", b); snprintf(op->p, sizeof op->p, "%s", c);
			if (!callable(b)) { fprintf(stderr, "function %s cannot be decoded by the driver\n", b); return 2; } }
		cur->nops++;
	}
	fclose(f);
	name_values();
	vrt_name(&defer_thread_futex, VK_INT, "futex"); vrt_name(&defer_thread_stop, VK_INT, "stop");
	vrt_name_mutex(&rcu_defer_mutex, "rcu_defer_mutex"); vrt_name_mutex(&defer_thread_mutex, "defer_thread_mutex");
	vrt_name_mutex(&rcu_gp_lock, "rcu_gp_lock"); vrt_name_mutex(&rcu_registry_lock, "rcu_registry_lock");
	for (int k = 0; k < np; k++) vrt_spawn(P[k].name, runner, (void *)(long) k);
	vrt_run(&o);
	/* quiescence: every scenario thread finished, the reclaimer is parked (or gone) */
	for (int k = 0; k < np; k++) if (exph[k] != expt[k]) {
		fprintf(stderr, "VRT-FAIL ORACLE %d call(s) queued by %s never ran at quiescence (reclaimer parked)\n", expt[k] - exph[k], P[k].name);
		if (o.trace) { FILE *t = fopen(o.trace, "a"); if (t) { fprintf(t, "{\"t\":\"main\",\"op\":\"fail\",\"what\":\"NEVER_RAN\"}\n"); fclose(t); } }
		_exit(3);
	}
	_exit(0);
}

/* ------------------------------------------------------------------ codec mode */
static void image(void)
{
	struct defer_queue *q = &URCU_TLS(defer_queue);
	fprintf(cout, "\"hm\":%lu,\"n\":%lu,\"lfi\":\"%s\"", q->head & DEFER_QUEUE_MASK, q->head - q->tail, vrt_sym(q->last_fct_in));
	fprintf(cout, ",\"lfo\":\"%s\",\"live\":[", vrt_sym(q->last_fct_out));
	for (unsigned long i = q->tail; i != q->head; i++) fprintf(cout, "%s\"%s\"", i == q->tail ? "" : ",", vrt_sym(q->q[i & DEFER_QUEUE_MASK]));
	fprintf(cout, "]");
}
static int codec_main(int argc, char **argv)
{
	if (argc < 4) return 2;
	cout = fopen(argv[2], "w"); FILE *f = fopen(argv[3], "r"); char line[128];
	if (!cout || !f) { perror("codec files"); return 2; }
	codec_mode = 1;
	name_values();
	rcu_register_thread();
	if (rcu_defer_register_thread()) return 2;
	struct defer_queue *q = &URCU_TLS(defer_queue);
	int active = 0, pending_uncallable = 0, skip = 0; long id = 0, nid;
	while (fgets(line, sizeof line, f)) {
		char a[16], b[16], c[16]; unsigned long h0 = 0; int n;
		if ((n = sscanf(line, "case %ld %lu", &nid, &h0)) >= 1) {
			if (active) {	/* leave the queue empty for the next case */
				if (pending_uncallable) { q->tail = q->head; q->last_fct_out = q->last_fct_in; }
				else { fprintf(cout, "{\"op\":\"end\",\"id\":%ld,\"cb\":[", id); cfirst = 1; rcu_defer_barrier_thread(); fprintf(cout, "]}\n"); }
			}
			if (q->head != q->tail) { fprintf(stderr, "queue not empty between cases\n"); return 3; }
			/* every case starts from the state of a fresh registration, at ring offset h0 (also used to start just
			 * below the wrap of the unsigned long counters) */
			q->head = q->tail = (n == 2) ? h0 : 0; q->last_fct_in = q->last_fct_out = NULL;
			active = 1; pending_uncallable = 0; skip = 0; id = nid;
			fprintf(cout, "{\"op\":\"case\",\"id\":%ld,", id); image(); fprintf(cout, "}\n");
			continue;
		}
		if (!active || skip) continue;
		n = sscanf(line, "%15s %15s %15s", a, b, c);
		if (n < 1) continue;
		int will_decode = !strcmp(a, "b") ? (q->head != q->tail) : (q->head - q->tail >= DEFER_QUEUE_SIZE - 2);
		if (pending_uncallable && will_decode) { fprintf(cout, "{\"op\":\"abandon\",\"id\":%ld}\n", id); skip = 1; continue; }
		if (!strcmp(a, "d") && n == 3) {
			fprintf(cout, "{\"op\":\"d\",\"id\":%ld,\"f\":\"%s\",\"p\":\"%s\",\"cb\":[", id, b, c); cfirst = 1;
			defer_rcu(fct_of(b), arg_of(c));
			fprintf(cout, "],"); image(); fprintf(cout, "}\n");
			if (!callable(b)) pending_uncallable = 1;
		} else if (!strcmp(a, "b")) {
			fprintf(cout, "{\"op\":\"b\",\"id\":%ld,\"cb\":[", id); cfirst = 1;
			rcu_defer_barrier_thread();
			fprintf(cout, "],"); image(); fprintf(cout, "}\n");
		}
	}
	if (active && pending_uncallable) { q->tail = q->head; q->last_fct_out = q->last_fct_in; }
	/* the final unregister flushes what the last case left queued */
	fprintf(cout, "{\"op\":\"end\",\"id\":%ld,\"cb\":[", id); cfirst = 1;
	rcu_defer_unregister_thread();
	fprintf(cout, "]}\n");
	fclose(cout);
	_exit(0);
}

int main(int argc, char **argv)
{
	if (argc > 1 && !strcmp(argv[1], "codec")) return codec_main(argc, argv);
	return protocol_main(argc, argv);
}
