/* Adversarial placement of test objects: an array of n elements of size esz whose element 1 starts exactly at `boundary` (a multiple of
 * 4 GiB: the low 32 address bits of that object are zero), so that results derived from a truncated pointer differ from the pointer
 * test.  Falls back to the heap when the address range is taken. */
#ifndef VERIF_PLACE_H
#define VERIF_PLACE_H
#include <sys/mman.h>
#include <stdlib.h>
#ifndef MAP_FIXED_NOREPLACE
#define MAP_FIXED_NOREPLACE 0x100000
#endif
static void *place_at_boundary(size_t esz, int n, unsigned long boundary)
{
	void *r = mmap((void *) (boundary - 4096), 8192, PROT_READ | PROT_WRITE, MAP_PRIVATE | MAP_ANONYMOUS | MAP_FIXED_NOREPLACE, -1, 0);
	if (r == (void *) (boundary - 4096) && esz * (size_t) n < 4096) return (void *) (boundary - esz);
	if (r != MAP_FAILED) munmap(r, 8192);
	return calloc((size_t) n, esz);
}
#endif
