/*
 * C09 driver: the REAL src/rculfhash.c + src/workqueue.c (unit-included; rculfhash-mm-*.c linked as separate units)
 * under VSCHED with the abstract RCU flavor of absrcu.h.  Scenario threads execute the program generated from the
 * same scenario file as the TLC configuration of spec/LfhtResize.tla.
 *
 *   usage: d_lfht_resize <seed> <tso> <trace> <program-file>
 *
 * program file:
 *   cfg <max_nr_buckets> <init_size> <auto> <acct> <ncpus> <shift> <mm>    mm: order | chunk | mmap
 *   pre <key>...                 resident keys, added sequentially before the run (never removed by the scenario)
 *   prex <key>...                keys added before the run that the scenario removes
 *   counters <count> <add0> <del0> [<add1> <del1> ...]     preset ht->count and the split counters (see below)
 *   thread <name> <cpu>
 *   resize <n|BIG>  |  add <key>  |  del <key>  |  lookup <key>  |  destroy
 *
 * Environment of the library (not library code):
 *   - RCU flavor = absrcu.h (grace period: scheduler-level blocking step); register/unregister_thread are logged
 *     ("reg"/"unreg": first/last statement of the work-queue callbacks).
 *   - CPU topology: the cached statics nr_cpus_mask / split_count_mask / split_count_order of rculfhash.c are preset
 *     from <ncpus> (they are otherwise computed once from sysfs); sched_getcpu() is the model CPU of the thread.
 *   - Counters: ht->count and ht->split_count[] are preset to the values given by the scenario (the values a longer
 *     history of additions/removals would have left) so that counter-driven lazy resizes trigger on tiny tables.
 *   - Memory: recording cds_lfht_mm_type wrapper (logs balloc/bfree with the order, delegates to the real backend) and
 *     recording struct cds_lfht_alloc: released memory is quarantined, never reused (any later access by library code
 *     is a UAF oracle failure).
 * Oracles: BUDGET (a call that does not return within the event budget), UAF, DEADLOCK, assertion/crash (runtime);
 *   resident key not found by a lookup, bucket table released while ht->size still covers it, structure of the table at
 *   quiescence (every bucket below size linked, resident keys present) (driver).
 */
#define _LGPL_SOURCE
#include "vrt_redirect.h"
#include <stdarg.h>
#include <stdbool.h>
#include "absrcu.h"
#include <urcu/arch.h>
/* pthread_create() is a system call (clone): a full fence for the caller.  The runtime's vrt_pthread_create() does not
 * drain the software store buffer, so the fence is made explicit here (hooked cmm_smp_mb: scheduling point + drain). */
static int drv_pthread_create(pthread_t *tid, const pthread_attr_t *attr, void *(*fn)(void *), void *arg)
{
	cmm_smp_mb();
	return vrt_pthread_create(tid, attr, fn, arg);
}
#undef pthread_create
#define pthread_create drv_pthread_create
#include REPO_SRC(workqueue.c)
#include REPO_SRC(rculfhash.c)

/* the unit-included sources reference the compat futex fallbacks (only used when futex() returns ENOSYS) */
int compat_futex_noasync(int32_t *uaddr, int op, int32_t val, const struct timespec *timeout, int32_t *uaddr2, int32_t val3)
{ (void) uaddr; (void) op; (void) val; (void) timeout; (void) uaddr2; (void) val3; errno = ENOSYS; return -1; }
int compat_futex_async(int32_t *uaddr, int op, int32_t val, const struct timespec *timeout, int32_t *uaddr2, int32_t val3)
{ (void) uaddr; (void) op; (void) val; (void) timeout; (void) uaddr2; (void) val3; errno = ENOSYS; return -1; }

#define NS __attribute__((no_sanitize_thread))
#define BIGV 1000000L

/* ------------------------------------------------------------------ flavor */
/* LR_QSBR=1 (scenario flag "qsbr", spec constant Qsbr): the abstract flavor behaves like QSBR.  A thread is ONLINE from
 * register_thread() / thread_online() to unregister_thread() / thread_offline(): one long read-side section (abs_cs[t] keeps one id) in
 * which read_lock / read_unlock only count nesting; synchronize_rcu() takes an online caller offline while it waits (urcu-qsbr.c does).
 * Scenario threads are offline between operations (their read_lock opens an ordinary section).  Otherwise (default): the abstract flavor
 * of absrcu.h, register / online are logged no-ops. */
static int qsbr_mode, q_online[ABS_MAXT];
static NS void q_go_online(int t) { if (qsbr_mode && t >= 0 && !q_online[t]) { q_online[t] = 1; if (!abs_nest[t]) abs_cs[t] = abs_cs_next++; } }
static NS void q_go_offline(int t) { if (qsbr_mode && t >= 0 && q_online[t]) { q_online[t] = 0; if (!abs_nest[t]) abs_cs[t] = 0; } }
static NS void fl_reg(void) { if (vrt_self() >= 0) { q_go_online(vrt_self()); vrt_log("\"op\":\"reg\""); } }
static NS void fl_unreg(void) { if (vrt_self() >= 0) { q_go_offline(vrt_self()); vrt_log("\"op\":\"unreg\""); } }
static NS void fl_atfork(struct urcu_atfork *a) { (void) a; }
/* QSBR-style bracket of a library-internal read-side section (cds_lfht_is_empty(): if (!read_ongoing()) { thread_online(); read_lock(); } ...):
 * logged so that the specification sees the bracket */
static NS void fl_online(void) { if (vrt_self() >= 0) { q_go_online(vrt_self()); vrt_log("\"op\":\"online\""); } }
static NS void fl_offline(void) { if (vrt_self() >= 0) { q_go_offline(vrt_self()); vrt_log("\"op\":\"offline\""); } }
static NS void fl_read_lock(void)
{
	int t = vrt_self();
	if (t >= 0 && q_online[t]) { if (abs_nest[t]++ == 0) vrt_log("\"op\":\"rlock\",\"cs\":%lu", abs_cs[t]); }
	else abs_read_lock();
}
static NS void fl_read_unlock(void)
{
	int t = vrt_self();
	if (t >= 0 && q_online[t]) {
		if (abs_nest[t] <= 0) vrt_fail("ORACLE rcu_read_unlock without matching lock");
		if (--abs_nest[t] == 0) vrt_log("\"op\":\"runlock\",\"cs\":%lu", abs_cs[t]);
	} else abs_read_unlock();
}
static NS int fl_read_ongoing(void) { int t = vrt_self(); return t >= 0 && (q_online[t] || abs_nest[t] > 0); }
static NS void fl_synchronize_rcu(void)
{
	int t = vrt_self(), was = t >= 0 && q_online[t];
	if (was) { if (abs_nest[t] > 0) vrt_fail("ORACLE synchronize_rcu called inside a read-side critical section"); q_go_offline(t); }
	abs_synchronize_rcu();
	if (was) q_go_online(t);
}
static const struct rcu_flavor_struct drv_flavor = {
	.read_lock = fl_read_lock, .read_unlock = fl_read_unlock, .read_ongoing = fl_read_ongoing,
	.read_quiescent_state = abs_noop, .update_call_rcu = abs_call_rcu, .update_synchronize_rcu = fl_synchronize_rcu,
	.update_defer_rcu = NULL, .thread_offline = fl_offline, .thread_online = fl_online,
	.register_thread = fl_reg, .unregister_thread = fl_unreg, .barrier = abs_barrier,
	.register_rculfhash_atfork = fl_atfork, .unregister_rculfhash_atfork = fl_atfork,
};

/* ------------------------------------------------------------------ recording memory management */
enum { K_HT = 1, K_BT, K_SC, K_RW, K_PW };
struct arec { char *p; size_t len; int kind, order, live; };
#define MAXA 256
static struct arec A[MAXA]; static int na;
static int cur_kind, cur_order = -1, in_new, destroying_now;
static struct cds_lfht *ht;
static const struct cds_lfht_mm_type *real_mm;
static struct cds_lfht_mm_type rec_mm;

static NS void *rec_new(void *p, size_t len, int kind)
{
	if (!p) vrt_fail("RUNTIME out of memory");
	if (na == MAXA) vrt_fail("RUNTIME allocation table overflow");
	A[na].p = p; A[na].len = len; A[na].kind = kind; A[na].order = cur_order; A[na].live = 1; na++;
	return p;
}
static NS void *rec_malloc(void *st, size_t size)
{
	(void) st;
	void *p = rec_new(calloc(1, size), size, K_RW);		/* the only malloc: struct resize_work */
	vrt_name_val(p, "rw");
	vrt_log("\"op\":\"walloc\",\"var\":\"rw\"");
	return p;
}
static NS void *rec_calloc(void *st, size_t n, size_t sz)
{
	(void) st;
	int kind = cur_kind ? cur_kind : in_new ? K_SC : K_PW;
	return rec_new(calloc(n, sz), n * sz, kind);
}
static NS void *rec_realloc(void *st, void *p, size_t sz) { (void) st; (void) p; (void) sz; vrt_fail("ORACLE unexpected realloc through cds_lfht_alloc"); }
static NS void *rec_aligned(void *st, size_t al, size_t sz) { (void) st; (void) al; (void) sz; vrt_fail("ORACLE unexpected aligned_alloc through cds_lfht_alloc"); }
static NS void rec_free(void *st, void *p)
{
	(void) st;
	if (!p) return;
	for (int i = 0; i < na; i++) {
		if (!A[i].live || A[i].p != (char *) p) continue;
		A[i].live = 0;
		switch (A[i].kind) {
		case K_PW: free(p); A[i] = A[--na]; return;
		case K_RW: vrt_log("\"op\":\"wfree\",\"var\":\"rw\""); vrt_unname_val(p); vrt_quarantine(p, A[i].len, "resize_work"); return;
		case K_SC: vrt_log("\"op\":\"scfree\""); vrt_quarantine(p, A[i].len, "split_count"); return;
		case K_HT: vrt_log("\"op\":\"htfree\""); vrt_quarantine(p, A[i].len, "struct cds_lfht"); return;
		case K_BT: { char w[32]; snprintf(w, sizeof w, "bucket table order %d", A[i].order); vrt_quarantine(p, A[i].len, w); return; }
		}
	}
	vrt_fail("ORACLE free of a pointer that is not a live allocation of the table");
}
static const struct cds_lfht_alloc rec_alloc = { .malloc = rec_malloc, .calloc = rec_calloc, .realloc = rec_realloc,
	.aligned_alloc = rec_aligned, .free = rec_free, .state = NULL };

static NS void rec_alloc_bucket_table(struct cds_lfht *h, unsigned long order)
{
	if (vrt_self() >= 0) vrt_log("\"op\":\"balloc\",\"a\":%lu", order);
	cur_kind = K_BT; cur_order = (int) order;
	real_mm->alloc_bucket_table(h, order);
	cur_kind = 0; cur_order = -1;
}
static NS void rec_free_bucket_table(struct cds_lfht *h, unsigned long order)
{
	if (vrt_self() >= 0) vrt_log("\"op\":\"bfree\",\"a\":%lu", order);
	if (!destroying_now && order > 0) {
		/* the value every other thread can see: committed memory (the caller's own buffer is drained by the grace period) */
		unsigned long sz = *(volatile unsigned long *) &h->size;
		if (sz > (1UL << (order - 1))) vrt_fail("ORACLE bucket table of order %lu released while ht->size is %lu", order, sz);
	}
	real_mm->free_bucket_table(h, order);
}
static NS struct cds_lfht *rec_alloc_cds_lfht(unsigned long min_nr_alloc_buckets, unsigned long max_nr_buckets, const struct cds_lfht_alloc *alloc)
{
	cur_kind = K_HT;
	struct cds_lfht *h = real_mm->alloc_cds_lfht(min_nr_alloc_buckets, max_nr_buckets, alloc);
	cur_kind = 0;
	h->mm = &rec_mm;		/* same bucket_at, recording alloc/free_bucket_table */
	return h;
}

/* ------------------------------------------------------------------ scenario */
#define MAXOPS 12
#define MAXK 32
struct op { char kind[8]; long n; };
struct prog { char name[16]; int cpu; int nops; struct op ops[MAXOPS]; int fin; };
static struct prog P[8]; static int np;
struct mynode { struct cds_lfht_node node; int key; };
static struct mynode N[MAXK];
static int resident[MAXK], preadd[MAXK], nres;
static unsigned long c_max = 8, c_init = 1; static int c_auto, c_acct, c_ncpus = 1, c_shift = 4; static char c_mm[8] = "order";
static long c_count; static long c_sc[8][2]; static int have_counters;

static NS unsigned long hash_of(int key) { return (unsigned long) key << c_shift; }
static int match(struct cds_lfht_node *n, const void *key) { return caa_container_of(n, struct mynode, node)->key == *(const int *) key; }
static NS int others_done(void *arg) { struct prog *me = arg; for (int k = 0; k < np; k++) if (&P[k] != me && !P[k].fin) return 0; return 1; }

static void do_lookup(int key)
{
	struct cds_lfht_iter it; int found;
	drv_flavor.read_lock();
	vrt_op_begin("lfht_lookup", VP_WAITFREE);
	cds_lfht_lookup(ht, hash_of(key), match, &key, &it);
	found = cds_lfht_iter_get_node(&it) != NULL;
	vrt_op_end();
	drv_flavor.read_unlock();
	if (!found && resident[key]) vrt_fail("ORACLE resident key %d not found by a lookup running concurrently with a resize", key);
}

static void *runner(void *arg)
{
	struct prog *p = arg;
	q_go_online(vrt_self());	/* LR_QSBR: scenario threads are registered QSBR readers, online until they finish */
	vrt_set_cpu(p->cpu);
	for (int k = 0; k < p->nops; k++) {
		struct op *o = &p->ops[k]; long r = 0;
		if (!strcmp(o->kind, "resize")) {
			vrt_log("\"op\":\"call\",\"api\":\"resize\",\"n\":%ld", o->n);
			vrt_op_begin("lfht_resize", VP_BLOCKING);
			cds_lfht_resize(ht, o->n == BIGV ? ~0UL : (unsigned long) o->n);
			vrt_op_end();
		} else if (!strcmp(o->kind, "add")) {
			vrt_log("\"op\":\"call\",\"api\":\"add\",\"n\":0");
			N[o->n].key = (int) o->n; cds_lfht_node_init(&N[o->n].node);
			drv_flavor.read_lock();
			vrt_op_begin("lfht_add", VP_LOCKFREE);
			cds_lfht_add(ht, hash_of((int) o->n), &N[o->n].node);
			vrt_op_end();
			drv_flavor.read_unlock();
		} else if (!strcmp(o->kind, "del")) {
			vrt_log("\"op\":\"call\",\"api\":\"del\",\"n\":0");
			drv_flavor.read_lock();
			vrt_op_begin("lfht_del", VP_LOCKFREE);
			int ret = cds_lfht_del(ht, &N[o->n].node);
			vrt_op_end();
			drv_flavor.read_unlock();
			if (ret) vrt_fail("ORACLE del of key %ld failed (%d): scenario error or lost node", o->n, ret);
		} else if (!strcmp(o->kind, "lookup")) {
			vrt_log("\"op\":\"call\",\"api\":\"lookup\",\"n\":0");
			do_lookup((int) o->n);
		} else {
			vrt_log("\"op\":\"call\",\"api\":\"destroy\",\"n\":0");
			vrt_wait_until(others_done, p);
			destroying_now = 1;
			vrt_op_begin("lfht_destroy", VP_BLOCKING);
			int ret = cds_lfht_destroy(ht, NULL);
			vrt_op_end();
			if (ret) destroying_now = 0;
			r = ret ? -1 : 0;
		}
		vrt_log("\"op\":\"ret\",\"api\":\"%s\",\"r\":%ld", o->kind, r);
	}
	p->fin = 1;
	q_go_offline(vrt_self());
	vrt_log("\"op\":\"fin\"");
	return NULL;
}

/* at quiescence: the table (if it still exists) is well formed */
static NS void final_check(void)
{
	for (int i = 0; i < na; i++) if (A[i].kind == K_HT && !A[i].live) return;	/* destroyed */
	unsigned long size = ht->size, nb = 0, nn = 0, steps = 0;
	if (!size || (size & (size - 1)) || size > c_max) vrt_fail("ORACLE final size %lu is not a power of two within [1, %lu]", size, c_max);
	struct cds_lfht_node *n = ht->bucket_at(ht, 0);
	unsigned char seen[64] = { 0 };
	for (;;) {		/* flags in X->next describe X itself */
		if (++steps > 4096) vrt_fail("ORACLE list does not end");
		n = clear_flag(n->next);
		if (!n) break;
		if ((unsigned long) n->next & REMOVED_FLAG) vrt_fail("ORACLE logically removed node still linked at quiescence");
		if ((unsigned long) n->next & BUCKET_FLAG) {
			unsigned long idx = bit_reverse_ulong(n->reverse_hash);
			if (idx < 64) seen[idx]++;
			nb++;
		} else nn++;
	}
	for (unsigned long j = 1; j < size; j++) {
		if (seen[j] != 1) vrt_fail("ORACLE bucket %lu linked %d times at quiescence (size %lu)", j, seen[j], size);
		if (clear_flag(ht->bucket_at(ht, j)) == NULL) vrt_fail("ORACLE bucket_at(%lu) is NULL", j);
	}
	for (unsigned long j = size; j < 64; j++) if (seen[j]) vrt_fail("ORACLE bucket %lu still linked although size is %lu", j, size);
	for (int k = 0; k < MAXK; k++) if (resident[k]) {
		struct cds_lfht_iter it; cds_lfht_lookup(ht, hash_of(k), match, &k, &it);
		if (!cds_lfht_iter_get_node(&it)) vrt_fail("ORACLE resident key %d missing at quiescence", k);
	}
}

int main(int argc, char **argv)
{
	struct vrt_opts o; vrt_parse_args(argc, argv, &o);
	qsbr_mode = getenv("LR_QSBR") && atoi(getenv("LR_QSBR"));
	FILE *f = fopen(argc > 4 ? argv[4] : "/dev/null", "r"); char line[256]; struct prog *cur = NULL;
	if (!f) { perror("program"); return 2; }
	while (fgets(line, sizeof line, f)) {
		char a[32]; long x; int c;
		if (!strncmp(line, "cfg ", 4)) { sscanf(line, "cfg %lu %lu %d %d %d %d %7s", &c_max, &c_init, &c_auto, &c_acct, &c_ncpus, &c_shift, c_mm); continue; }
		if (!strncmp(line, "prex", 4)) { char *s = line + 4; int k, nch; while (sscanf(s, "%d%n", &k, &nch) == 1) { preadd[k] = 1; s += nch; } continue; }
		if (!strncmp(line, "pre", 3)) { char *s = line + 3; int k, nch; while (sscanf(s, "%d%n", &k, &nch) == 1) { preadd[k] = 1; resident[k] = 1; nres++; s += nch; } continue; }
		if (!strncmp(line, "counters ", 9)) { char *s = line + 9; int nch, i = 0; long v; have_counters = 1;
			if (sscanf(s, "%ld%n", &c_count, &nch) == 1) { s += nch; while (sscanf(s, "%ld%n", &v, &nch) == 1 && i < 16) { c_sc[i / 2][i % 2] = v; i++; s += nch; } } continue; }
		if (sscanf(line, "thread %15s %d", a, &c) == 2) { cur = &P[np++]; snprintf(cur->name, sizeof cur->name, "%s", a); cur->cpu = c; continue; }
		if (!cur || cur->nops == MAXOPS) continue;
		struct op *op = &cur->ops[cur->nops];
		if (!strncmp(line, "resize BIG", 10)) { strcpy(op->kind, "resize"); op->n = BIGV; cur->nops++; }
		else if (sscanf(line, "resize %ld", &x) == 1) { strcpy(op->kind, "resize"); op->n = x; cur->nops++; }
		else if (sscanf(line, "add %ld", &x) == 1) { strcpy(op->kind, "add"); op->n = x; cur->nops++; }
		else if (sscanf(line, "del %ld", &x) == 1) { strcpy(op->kind, "del"); op->n = x; cur->nops++; }
		else if (sscanf(line, "lookup %ld", &x) == 1) { strcpy(op->kind, "lookup"); op->n = x; cur->nops++; }
		else if (!strncmp(line, "destroy", 7)) { strcpy(op->kind, "destroy"); cur->nops++; }
	}
	fclose(f);
	/* CPU topology (environment input): what ht_init_nr_cpus_mask() would have cached */
	if (c_ncpus > 0) { int ord = cds_lfht_get_count_order_ulong(c_ncpus); nr_cpus_mask = (1L << ord) - 1; split_count_mask = nr_cpus_mask; }
	else { nr_cpus_mask = NR_CPUS_MASK_INIT_FAILED; split_count_mask = DEFAULT_SPLIT_COUNT_MASK; }
	split_count_order = cds_lfht_get_count_order_ulong(split_count_mask + 1);
	real_mm = !strcmp(c_mm, "chunk") ? &cds_lfht_mm_chunk : !strcmp(c_mm, "mmap") ? &cds_lfht_mm_mmap : &cds_lfht_mm_order;
	rec_mm = *real_mm; rec_mm.alloc_cds_lfht = rec_alloc_cds_lfht; rec_mm.alloc_bucket_table = rec_alloc_bucket_table; rec_mm.free_bucket_table = rec_free_bucket_table;
	in_new = 1;
	ht = _cds_lfht_new_with_alloc(c_init, 1, c_max, (c_auto ? CDS_LFHT_AUTO_RESIZE : 0) | (c_acct ? CDS_LFHT_ACCOUNTING : 0), &rec_mm, &drv_flavor, &rec_alloc, NULL);
	in_new = 0;
	if (!ht) { fprintf(stderr, "cds_lfht_new failed\n"); return 2; }
	for (int k = 0; k < MAXK; k++) if (preadd[k]) {		/* sequential setup (hooks are inert outside model threads) */
		N[k].key = k; cds_lfht_node_init(&N[k].node);
		cds_lfht_add(ht, hash_of(k), &N[k].node);
	}
	if (ht->resize_target != c_init || ht->size != c_init || ht->resize_initiated)
		{ fprintf(stderr, "scenario error: the resident keys triggered a lazy resize during setup\n"); return 2; }
	if (have_counters) {
		ht->count = c_count;
		if (ht->split_count) for (long i = 0; i <= split_count_mask && i < 8; i++) { ht->split_count[i].add = c_sc[i][0]; ht->split_count[i].del = c_sc[i][1]; }
	}
	vrt_name_val(NULL, "NULL");
	vrt_name(&ht->size, VK_INT, "size"); vrt_name(&ht->resize_target, VK_INT, "resize_target");
	vrt_name(&ht->resize_initiated, VK_INT, "resize_initiated"); vrt_name(&ht->in_progress_destroy, VK_INT, "in_progress_destroy");
	vrt_name(&ht->count, VK_INT, "count");
	if (ht->split_count) for (long i = 0; i <= split_count_mask && i < 8; i++) {
		vrt_name(&ht->split_count[i].add, VK_INT, "sc%ld.add", i); vrt_name(&ht->split_count[i].del, VK_INT, "sc%ld.del", i); }
	vrt_name_mutex(&ht->resize_mutex, "resize_mutex");
	vrt_name_val(&ht->destroy_work, "dw");
	if (cds_lfht_workqueue) {
		vrt_name(&cds_lfht_workqueue->cbs_tail.p, VK_PTR, "wq.tail"); vrt_name_val(&cds_lfht_workqueue->cbs_head.node, "wqH");
		vrt_name(&cds_lfht_workqueue->futex, VK_INT, "wq.futex");
	}
	for (int k = 0; k < np; k++) vrt_spawn(P[k].name, runner, &P[k]);
	vrt_run(&o);
	final_check();
	_exit(0);
}
