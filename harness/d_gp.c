/*
 * Driver: the real grace-period implementations under VSCHED.
 *   -DFLAVOR_MB    : src/urcu.c with RCU_MB
 *   -DFLAVOR_MEMB  : src/urcu.c with RCU_MEMBARRIER (sys_membarrier availability from VRT_MEMBARRIER=1|0)
 *   -DFLAVOR_QSBR  : src/urcu-qsbr.c
 *   -DFLAVOR_BP    : src/urcu-bp.c
 *   -DGP_GENERIC_FUTEX (mb/memb): futex_async()/futex_noasync() are compat_futex_async()/compat_futex_noasync(), i.e. the
 *                     generic branch of include/urcu/futex.h (lines 222-236, platforms without a futex system call);
 *                     with VRT_FUTEX_ENOSYS=1 and no define the Linux ENOSYS fallback (both -> compat_futex_async) runs instead
 *   usage: d_gp <seed> <tso> <trace> <program-file>
 * program: "thread <name>" then ops: reg unreg lock unlock deref use pub <k> sync free qs offline online
 *          optional "sighandler" line: a signal handler doing lock; deref; use; unlock (C19)
 */
#include "vrt_redirect.h"
#ifdef GP_GENERIC_FUTEX
#include <urcu/futex.h>
#define futex_noasync compat_futex_noasync
#define futex_async compat_futex_async
#endif
#if defined(FLAVOR_MB)
#define RCU_MB
#include REPO_SRC(urcu.c)
#define GPVAR urcu_mb_gp
#elif defined(FLAVOR_MEMB)
#define RCU_MEMBARRIER
#include REPO_SRC(urcu.c)
#define GPVAR urcu_memb_gp
#elif defined(FLAVOR_QSBR)
#include REPO_SRC(urcu-qsbr.c)
#define GPVAR urcu_qsbr_gp
#elif defined(FLAVOR_BP)
#include REPO_SRC(urcu-bp.c)
#define GPVAR urcu_bp_gp
#else
#error "select a flavor"
#endif
#include REPO_SRC(compat_futex.c)

#if defined(FLAVOR_BP)
#define URCU_GP_CTR_NEST_MASK_ALL URCU_BP_GP_CTR_NEST_MASK
#elif defined(FLAVOR_QSBR)
#define URCU_GP_CTR_NEST_MASK_ALL (~0UL)
#else
#define URCU_GP_CTR_NEST_MASK_ALL URCU_GP_CTR_NEST_MASK
#endif
#define MAXOPS 32
#define NOBJ 8
struct op { char kind[12]; int k; };
struct prog { char name[16]; int nops; struct op ops[MAXOPS]; int idx; };
static struct prog P[12]; static int np;
static int use_sighandler;

struct obj { int val; };
static struct obj objs[NOBJ];
static struct obj *gptr;
static int freed[NOBJ];
/* driver-level ghosts (spec independent oracle) */
static unsigned long open_cs[12], cs_next = 1;
static __thread struct prog *me;
static __thread int nest, sig_nest_save;
static __thread struct obj *held, *old;

static void name_unknown(const char *var, unsigned long v)
{
	/* stack wait node of synchronize_rcu pushed on gp_waiters: name it after the pushing thread */
	if (!strcmp(var, "waiters") || strstr(var, ".next")) {
		struct urcu_wait_node *w = caa_container_of((struct cds_wfs_node *) v, struct urcu_wait_node, node);
		vrt_name_val((void *) v, "wn.%s", vrt_self_name());
		vrt_name(&w->node.next, VK_PTR, "wn.%s.next", vrt_self_name());
		vrt_name(&w->state, VK_INT, "wn.%s.state", vrt_self_name());
	}
}

#if defined(FLAVOR_MB) || defined(FLAVOR_MEMB)
/* C15: projection of the registry membership.  The three reader lists (registry, and the grace-period leader's cur_snap_readers /
 * qsreaders on its stack) are plain data under rcu_registry_lock; list surgery never spans a scheduling point, so at any point
 * where driver code runs every ring is consistent.  A reader is a member when its node is reachable from the registry head or
 * from the node of a reader whose `registered` flag is set. */
#define GP_PROJ 1
static struct urcu_reader *readers[12];
static int reader_of_node(struct cds_list_head *n)
{
	for (int i = 0; i < np; i++) if (readers[i] && &readers[i]->node == n) return i;
	return -1;
}
static void log_members(void)
{
	int in[12] = { 0 }; char buf[200]; size_t o = 0;
	for (int s = -1; s < np; s++) {
		struct cds_list_head *start = s < 0 ? &registry : (readers[s] && readers[s]->registered) ? &readers[s]->node : NULL, *p;
		int steps = 0;
		if (!start || !start->next) continue;
		for (p = start->next; p && p != start && steps < 64; p = p->next, steps++) {
			int k = reader_of_node(p);
			if (k >= 0) in[k] = 1;
			if (p->next && p->next->prev != p) vrt_fail("ORACLE registry list corrupted: next/prev mismatch after the node of %s", k >= 0 ? P[k].name : "a list head");
		}
		if (!p || steps == 64) vrt_fail("ORACLE registry list corrupted: walk from %s does not return", s < 0 ? "the registry head" : P[s].name);
		if (s >= 0) in[s] = 1;
	}
	buf[0] = 0;
	for (int i = 0; i < np; i++) if (in[i]) o += snprintf(buf + o, sizeof buf - o, "%s\"%s\"", o ? "," : "", P[i].name);
	vrt_log("\"op\":\"proj\",\"m\":[%s]", buf);
}
#endif

/* signals are delivered only to the threads the component names (env GP_SIG_THREADS="r1,u1"; unset: every registered thread) */
static int sig_allowed(const char *name)
{
	const char *l = getenv("GP_SIG_THREADS"); size_t n = strlen(name);
	if (!l) return 1;
	for (const char *p = l; *p; ) {
		const char *e = strchr(p, ','); size_t len = e ? (size_t)(e - p) : strlen(p);
		if (len == n && !strncmp(p, name, n)) return 1;
		p += len + (e ? 1 : 0);
	}
	return 0;
}

static void check_use(const char *where)
{
	if (held) {
		int k = (int)(held - objs);
		if (freed[k]) vrt_fail("ORACLE use-after-free: %s touches obj%d after it was reclaimed", where, k);
	}
}

static void do_lock(void)
{
	rcu_read_lock();
	if (nest++ == 0) open_cs[me->idx] = cs_next++;
}
static void do_unlock(void)
{
	if (--nest == 0) open_cs[me->idx] = 0;
	rcu_read_unlock();
}

static void sig_handler(void)
{
	/* C19: read-side critical section inside a signal handler; must leave the reader state unchanged */
	unsigned long before = URCU_TLS(rcu_reader)
#ifdef FLAVOR_BP
		->ctr;
#else
		.ctr;
#endif
	int ongoing_before = rcu_read_ongoing();
	struct obj *p;
	unsigned long saved_cs = open_cs[me->idx];
	vrt_log("\"op\":\"call\",\"api\":\"sig\"");
	rcu_read_lock();
	if (!saved_cs) open_cs[me->idx] = cs_next++;
	p = rcu_dereference(gptr);
	if (p && freed[p - objs]) vrt_fail("ORACLE use-after-free in signal handler: obj%d", (int)(p - objs));
	if (!saved_cs) open_cs[me->idx] = 0;
	rcu_read_unlock();
	unsigned long after = URCU_TLS(rcu_reader)
#ifdef FLAVOR_BP
		->ctr;
#else
		.ctr;
#endif
	/* nesting and rcu_read_ongoing() must be exactly as before; inside a section the whole word (its phase) too */
	if ((after & URCU_GP_CTR_NEST_MASK_ALL) != (before & URCU_GP_CTR_NEST_MASK_ALL) || rcu_read_ongoing() != ongoing_before
	    || ((before & URCU_GP_CTR_NEST_MASK_ALL) && after != before))
		vrt_fail("ORACLE signal handler changed the interrupted thread's reader state (ctr %lx -> %lx)", before, after);
	if (!!ongoing_before != !!(before & URCU_GP_CTR_NEST_MASK_ALL))
		vrt_fail("ORACLE rcu_read_ongoing() = %d disagrees with the reader's nesting count (ctr %lx)", ongoing_before, before);
	vrt_log("\"op\":\"ret\",\"r\":\"sig\"");
}

static void *runner(void *arg)
{
	struct prog *p = arg; me = p;
#ifdef GP_PROJ
	readers[p->idx] = &URCU_TLS(rcu_reader);
#endif
#ifdef FLAVOR_BP
	/* bp registers lazily: name the reader word once it exists */
#endif
	for (int k = 0; k < p->nops; k++) {
		struct op *o = &p->ops[k]; char res[64] = "-";
		vrt_log("\"op\":\"call\",\"api\":\"%s\",\"k\":%d", o->kind, o->k);
		if (!strcmp(o->kind, "reg")) {
			vrt_op_begin("rcu_register_thread", VP_BLOCKING);
#ifdef FLAVOR_BP
			urcu_bp_register_thread();
			vrt_name(&URCU_TLS(rcu_reader)->ctr, VK_GPCTR, "rctr.%s", p->name);
#else
			vrt_name(&URCU_TLS(rcu_reader).ctr, VK_GPCTR, "rctr.%s", p->name);
#ifdef GP_PROJ
			vrt_unquarantine(&URCU_TLS(rcu_reader));
#endif
#ifdef FLAVOR_QSBR
			vrt_name(&URCU_TLS(rcu_reader).ctr, VK_INT, "rctr.%s", p->name);
			vrt_name(&URCU_TLS(rcu_reader).waiting, VK_INT, "rwait.%s", p->name);
#endif
			rcu_register_thread();
#endif
			vrt_op_end();
#ifdef GP_PROJ
			log_members();
#endif
			if (sig_allowed(p->name)) vrt_sig_allow(1);
#ifdef FLAVOR_QSBR
			open_cs[p->idx] = cs_next++;	/* qsbr: registered + online = inside an implicit section */
#endif
		} else if (!strcmp(o->kind, "unreg")) {
#ifdef FLAVOR_QSBR
			open_cs[p->idx] = 0;
#endif
			vrt_sig_allow(0);
			vrt_op_begin("rcu_unregister_thread", VP_BLOCKING);
			rcu_unregister_thread();
			vrt_op_end();
#ifdef GP_PROJ
			/* C15: the thread has left; its reader state (TLS) may disappear with it: any later access by a grace period is a UAF */
			vrt_quarantine(&URCU_TLS(rcu_reader), sizeof(struct urcu_reader), "departed-reader-state");
			log_members();
#endif
		} else if (!strcmp(o->kind, "lock")) {
			vrt_op_begin("rcu_read_lock", VP_WAITFREE); do_lock(); vrt_op_end();
		} else if (!strcmp(o->kind, "unlock")) {
			check_use("reader before rcu_read_unlock");
			if (nest == 1) held = NULL;
			vrt_op_begin("rcu_read_unlock", VP_WAITFREE); do_unlock(); vrt_op_end();
		} else if (!strcmp(o->kind, "deref")) {
			vrt_op_begin("rcu_dereference", VP_WAITFREE);
			held = rcu_dereference(gptr);
			vrt_op_end();
			check_use("reader after rcu_dereference");
			snprintf(res, sizeof res, "%s", vrt_sym(held));
		} else if (!strcmp(o->kind, "use")) {
			check_use("reader inside its critical section");
#ifdef FLAVOR_QSBR
		} else if (!strcmp(o->kind, "qs")) {
			held = NULL; open_cs[p->idx] = 0;
			vrt_op_begin("rcu_quiescent_state", VP_WAITFREE); rcu_quiescent_state(); vrt_op_end();
			open_cs[p->idx] = cs_next++;
		} else if (!strcmp(o->kind, "offline")) {
			held = NULL; open_cs[p->idx] = 0;
			vrt_op_begin("rcu_thread_offline", VP_WAITFREE); rcu_thread_offline(); vrt_op_end();
		} else if (!strcmp(o->kind, "online")) {
			vrt_op_begin("rcu_thread_online", VP_WAITFREE); rcu_thread_online(); vrt_op_end();
			open_cs[p->idx] = cs_next++;
#endif
		} else if (!strcmp(o->kind, "pub")) {
			vrt_op_begin("rcu_xchg_pointer", VP_WAITFREE);
			old = rcu_xchg_pointer(&gptr, &objs[o->k]);
			vrt_op_end();
			snprintf(res, sizeof res, "%s", vrt_sym(old));
		} else if (!strcmp(o->kind, "sync")) {
			unsigned long snap[12]; memcpy(snap, open_cs, sizeof snap);
#ifdef FLAVOR_QSBR
			snap[p->idx] = 0;	/* the caller's own implicit section is excluded (it goes offline) */
#endif
			vrt_op_begin("synchronize_rcu", VP_BLOCKING);
			synchronize_rcu();
			vrt_op_end();
			for (int i = 0; i < np; i++)
				if (snap[i] && open_cs[i] == snap[i])
					vrt_fail("ORACLE grace period too short: synchronize_rcu() by %s returned while the critical section of %s that began before the call is still open", p->name, P[i].name);
#ifdef GP_PROJ
			log_members();	/* C15: the lists put back together at the end of the grace period (splice of qsreaders) hold exactly the registered readers */
#endif
		} else if (!strcmp(o->kind, "free")) {
			if (old) { freed[old - objs] = 1; snprintf(res, sizeof res, "%s", vrt_sym(old)); old = NULL; }
		}
		vrt_log("\"op\":\"ret\",\"r\":\"%s\"", res);
	}
	return NULL;
}

int main(int argc, char **argv)
{
	struct vrt_opts o; vrt_parse_args(argc, argv, &o);
	FILE *f = fopen(argc > 4 ? argv[4] : "/dev/null", "r"); char line[128]; struct prog *cur = NULL;
	if (!f) { perror("program"); return 2; }
	while (fgets(line, sizeof line, f)) {
		char a[16]; int x = 0;
		if (sscanf(line, "thread %15s", a) == 1) { cur = &P[np]; cur->idx = np++; snprintf(cur->name, sizeof cur->name, "%s", a); continue; }
		if (!strncmp(line, "sighandler", 10)) { use_sighandler = 1; continue; }
		if (!cur) continue;
		if (sscanf(line, "%11s %d", a, &x) >= 1) { struct op *op = &cur->ops[cur->nops++]; snprintf(op->kind, sizeof op->kind, "%s", a); op->k = x; }
	}
	fclose(f);
	vrt_name_val(NULL, "NULL"); vrt_name_val((void *) 0x1UL, "END");
	for (int k = 0; k < NOBJ; k++) vrt_name_val(&objs[k], "obj%d", k);
	gptr = &objs[0];
	vrt_name(&gptr, VK_PTR, "gptr");
#ifdef FLAVOR_QSBR
	vrt_name(&GPVAR.ctr, VK_INT, "gp_ctr");
#else
	vrt_name(&GPVAR.ctr, VK_GPCTR, "gp_ctr");
#endif
	vrt_name(&GPVAR.futex, VK_INT, "gp_futex");
#ifndef FLAVOR_BP
	vrt_name(&gp_waiters.stack.head, VK_PTR, "waiters");
	vrt_name_mutex(&gp_waiters.stack.lock, "waiters_lock");
#endif
	vrt_name_mutex(&rcu_gp_lock, "gp_lock"); vrt_name_mutex(&rcu_registry_lock, "registry_lock");
	vrt_name_mutex(&__urcu_compat_futex_lock, "compat_lock");
	vrt_set_unknown_ptr_hook(name_unknown);
#ifdef FLAVOR_MEMB
	/* the constructor ran before main (outside the model); re-evaluate availability from the environment */
	init_done = 1;
	urcu_memb_has_sys_membarrier = urcu_memb_has_sys_membarrier_private_expedited = getenv("VRT_MEMBARRIER") ? atoi(getenv("VRT_MEMBARRIER")) : 1;
#endif
	if (use_sighandler) vrt_set_sighandler(sig_handler);
	for (int k = 0; k < np; k++) vrt_spawn(P[k].name, runner, &P[k]);
	vrt_run(&o);
	_exit(0);
}
