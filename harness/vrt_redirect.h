/*
 * L-C: libc redirection for LIBRARY sources included by a driver.  Include after "vrt.h" (which pulls in the
 * system headers first, so that their declarations are not renamed) and before the library sources.
 */
#ifndef VRT_REDIRECT_H
#define VRT_REDIRECT_H
#include "vrt.h"
#include <errno.h>
#include <string.h>
#include <time.h>
#include <sys/time.h>
#include <assert.h>
#include <limits.h>
#define pthread_mutex_lock vrt_mutex_lock
#define pthread_mutex_trylock vrt_mutex_trylock
#define pthread_mutex_unlock vrt_mutex_unlock
#define pthread_cond_wait vrt_cond_wait
#define pthread_cond_broadcast vrt_cond_broadcast
#define pthread_cond_signal vrt_cond_signal
#define pthread_create vrt_pthread_create
#define pthread_join vrt_pthread_join
#define pthread_sigmask vrt_pthread_sigmask
#define poll vrt_poll
#define syscall vrt_syscall
#define sched_getcpu vrt_sched_getcpu
#define usleep vrt_usleep
#define sleep vrt_sleep
#endif
