/*
 * C16 driver, hash-table unit: the REAL src/workqueue.c + src/rculfhash.c (unit-included so that the statics of the
 * resize worker -- cds_lfht_workqueue, cds_lfht_fork_mutex, cds_lfht_workqueue_atfork_nesting, cds_lfht_exit() -- can be
 * named / read / called by harness/d_fork.c).  Linked with d_fork.c (real flavor translation unit) and the
 * rculfhash-mm-*.c units.  Nothing of the library is copied or changed; see d_fork.c for the description of the driver.
 */
#define _LGPL_SOURCE
#include "vrt_redirect.h"
#include <stdarg.h>
#include <stdbool.h>
/* the worker thread is created by workqueue.c: d_fork.c's wrapper names the new thread's reader counter word */
int dfh_pthread_create(pthread_t *tid, const pthread_attr_t *attr, void *(*fn)(void *), void *arg);
#undef pthread_create
#define pthread_create dfh_pthread_create
#include REPO_SRC(workqueue.c)
#include REPO_SRC(rculfhash.c)
#undef pthread_create
#define pthread_create vrt_pthread_create

#define NS __attribute__((no_sanitize_thread))

/* recording allocator: the only malloc made through cds_lfht_alloc while the scenario runs is struct resize_work */
static int dfh_nwork;
static NS void *rec_malloc(void *st, size_t size)
{
	(void) st;
	void *p = calloc(1, size);
	if (!p) vrt_fail("RUNTIME out of memory");
	if (size == sizeof(struct resize_work)) {
		struct resize_work *w = p; dfh_nwork++;
		vrt_name_val(&w->work.next, "rw%d", dfh_nwork);
		vrt_name(&w->work.next.next, VK_PTR, "rw%d.next", dfh_nwork);
		if (vrt_in_model()) vrt_log("\"op\":\"walloc\",\"var\":\"rw%d\"", dfh_nwork);
	}
	return p;
}
static NS void *rec_calloc(void *st, size_t n, size_t sz) { (void) st; void *p = calloc(n, sz); if (!p) vrt_fail("RUNTIME out of memory"); return p; }
static NS void *rec_realloc(void *st, void *p, size_t sz) { (void) st; return realloc(p, sz); }
static NS void *rec_aligned(void *st, size_t al, size_t sz) { (void) st; void *p = NULL; if (posix_memalign(&p, al, sz)) return NULL; return p; }
static NS void rec_free(void *st, void *p) { (void) st; (void) p; /* never reused: names of work items stay unique */ }
static const struct cds_lfht_alloc rec_alloc = { .malloc = rec_malloc, .calloc = rec_calloc, .realloc = rec_realloc,
	.aligned_alloc = rec_aligned, .free = rec_free, .state = NULL };

static struct cds_lfht *the_ht;
struct dfh_node { struct cds_lfht_node node; int key; };
static struct dfh_node HN[32];

/* all keys in the last bucket, ordered by key, after every bucket (dummy) node: populating new buckets never walks them */
static NS unsigned long dfh_hash(int key) { return bit_reverse_ulong(~0UL - 64 + (unsigned long) key); }
static int dfh_match(struct cds_lfht_node *n, const void *key) { return caa_container_of(n, struct dfh_node, node)->key == *(const int *) key; }

/* called from main() before the run: one table (init size 1, max `max` buckets, automatic resize) of `flavor`; the work-queue
 * worker thread is created here by the library (daemon model thread, parked until the run starts) */
NS void dfh_new(const struct rcu_flavor_struct *flavor, unsigned long max)
{
	/* CPU topology is an environment input: one possible CPU (no partition threads, one split counter) */
	nr_cpus_mask = 0; split_count_mask = 0; split_count_order = 0;
	the_ht = _cds_lfht_new_with_alloc(1, 1, max, CDS_LFHT_AUTO_RESIZE, &cds_lfht_mm_order, flavor, &rec_alloc, NULL);
	if (!the_ht) { fprintf(stderr, "cds_lfht_new failed\n"); _exit(2); }
	vrt_name(&the_ht->size, VK_INT, "ht.size"); vrt_name(&the_ht->resize_target, VK_INT, "ht.target");
	vrt_name(&the_ht->resize_initiated, VK_INT, "ht.init");
	vrt_name_mutex(&the_ht->resize_mutex, "resize_mutex");
	vrt_name_mutex(&cds_lfht_fork_mutex, "lfht.fork_mutex");
	struct urcu_workqueue *wq = cds_lfht_workqueue;
	if (!wq) { fprintf(stderr, "no work queue\n"); _exit(2); }
	vrt_name(&wq->flags, VK_INT, "wq.flags"); vrt_name(&wq->futex, VK_INT, "wq.futex"); vrt_name(&wq->qlen, VK_INT, "wq.qlen");
	vrt_name(&wq->cbs_tail.p, VK_PTR, "wq.tail"); vrt_name(&wq->cbs_head.node.next, VK_PTR, "Hwq.next"); vrt_name_val(&wq->cbs_head.node, "Hwq");
}
/* a second table on a SECOND flavor: cds_lfht_new registers the rculfhash atfork handlers with that flavor too (nesting counter).  The
 * second flavor is a copy of the first whose register_rculfhash_atfork records the handler set; dfh_before2 / dfh_after2 are that flavor's
 * call_rcu_before_fork / call_rcu_after_fork_{parent,child} as far as the hash table is concerned: they invoke the registered handlers. */
static struct rcu_flavor_struct flv2; static struct urcu_atfork *flv2_atfork;
static NS void flv2_register(struct urcu_atfork *a) { flv2_atfork = a; }
static NS void flv2_unregister(struct urcu_atfork *a) { (void) a; flv2_atfork = NULL; }
void dfh_new2(const struct rcu_flavor_struct *flavor)
{
	flv2 = *flavor; flv2.register_rculfhash_atfork = flv2_register; flv2.unregister_rculfhash_atfork = flv2_unregister;
	struct cds_lfht *h = _cds_lfht_new_with_alloc(1, 1, 2, CDS_LFHT_AUTO_RESIZE, &cds_lfht_mm_order, &flv2, &rec_alloc, NULL);
	if (!h || !flv2_atfork) { fprintf(stderr, "second table / atfork registration failed\n"); _exit(2); }
}
void dfh_before2(void) { flv2_atfork->before_fork(flv2_atfork->priv); }
void dfh_after2(int child) { if (child) flv2_atfork->after_fork_child(flv2_atfork->priv); else flv2_atfork->after_fork_parent(flv2_atfork->priv); }
void dfh_add(int key)
{
	struct dfh_node *n = &HN[key & 31];
	n->key = key; cds_lfht_node_init(&n->node);
	the_ht->flavor->read_lock();
	cds_lfht_add(the_ht, dfh_hash(key), &n->node);	/* reverse_hash = ~0 - 64 + key: the keys share the LAST bucket at every size, are
										 * traversed in key order, so adding key k walks a chain of k - 1 nodes and
										 * check_resize() launches lazy grows */
	the_ht->flavor->read_unlock();
}
int dfh_lookup(int key)
{
	struct cds_lfht_iter it; int found;
	the_ht->flavor->read_lock();
	cds_lfht_lookup(the_ht, dfh_hash(key), dfh_match, &key, &it);
	found = cds_lfht_iter_get_node(&it) != NULL;
	the_ht->flavor->read_unlock();
	return found;
}
/* side-effect-free predicate for vrt_wait_until: no work is queued or running (qlen is decremented after the callbacks of a batch).
 * Deliberately NOT "size == resize_target": no listed property promises that a lazy resize eventually happens (DESIGN observation
 * O2: __cds_lfht_resize_lazy_launch stores resize_initiated = 1 after queueing the work; a stale flag turns later launches into no-ops). */
NS int dfh_resize_done(void *arg)
{
	(void) arg;
	struct urcu_workqueue *wq = cds_lfht_workqueue;
	return wq->cbs_tail.p == &wq->cbs_head.node && wq->qlen == 0;
}
void dfh_resize(unsigned long n) { cds_lfht_resize(the_ht, n); }
NS unsigned long dfh_size(void) { return the_ht->size; }
NS unsigned long dfh_target(void) { return the_ht->resize_target; }
NS int dfh_nesting(void) { return cds_lfht_workqueue_atfork_nesting; }
NS long dfh_wq_futex(void) { return cds_lfht_workqueue ? cds_lfht_workqueue->futex : 0; }
NS unsigned long dfh_wq_flags(void) { return cds_lfht_workqueue ? cds_lfht_workqueue->flags : 0; }
/* the library's own exit path (its destructor): flush the queued work, stop and join the worker */
void dfh_exit(void) { cds_lfht_exit(); }
