/*
 * Driver for the Workqueue component (C09 / C16 parts): the REAL src/workqueue.c (unit-included; with include/urcu/ref.h and
 * the wfcqueue primitives it uses) under VSCHED.  Scenario threads execute the program generated from the same scenario
 * file as the TLC configuration of spec/Workqueue.tla.
 *
 *   usage: d_workqueue <seed> <tso> <trace> <program-file>
 * program file:  "cfg <flags> <pre>"   flags passed to urcu_workqueue_create (0, 1 = URCU_WORKQUEUE_RT); pre = 1: the work
 *                                      queue is created by the main thread before the scenario threads start
 *                "re w<a> w<b>"        the callback of item a passes item b to urcu_workqueue_queue_work()
 *                "thread <name>" followed by "<op> <n>" lines, ops:
 *                create | queue w<k> | flush c<k> | pause | resume | destroy | join <thread>
 *
 * The worker thread is created by the library's own pthread_create (redirected): daemon model thread h1 (h2 for a second
 * create); the library's pthread_join is redirected too.  The library's malloc / calloc / free are interposed: the work
 * queue is named "wq" (wq.flags, wq.futex, wq.qlen, wq.cbs_tail, wq.cbs_head.next; head node = "wq.cbs_head"), the
 * completion of a flush op "c<k>" is c<k> (c<k>.barrier_count / .futex / .ref) and its completion_work c<k>w (c<k>w.next);
 * freed objects are quarantined and never reused: any later access by library code is a UAF oracle failure.
 *
 * Oracles (independent of the specification): callback invoked twice / with the wrong function / for an item that was never
 * queued; urcu_workqueue_flush_queued_work() returning before an item whose queue_work() had returned when it was called has
 * finished; at quiescence (scenario threads done, worker parked or gone) every queued item executed exactly once, qlen == 0,
 * every completion / completion_work released exactly once; urcu_workqueue_destroy(): worker exited (finalize callback ran)
 * and qlen == 0 when the work queue is released; double free; UAF / DEADLOCK / BUDGET / assertion (runtime).
 */
#include "vrt_redirect.h"
#include <stdarg.h>

#define NS __attribute__((no_sanitize_thread))
static void *d_malloc(size_t sz);
static void *d_calloc(size_t n, size_t sz);
static void d_free(void *p);

#define malloc d_malloc
#define calloc d_calloc
#define free d_free
#include REPO_SRC(workqueue.c)
#undef malloc
#undef calloc
#undef free
/* the included sources reference the compat futex fallback (only used when futex() returns ENOSYS) */
int compat_futex_noasync(int32_t *uaddr, int op, int32_t val, const struct timespec *timeout, int32_t *uaddr2, int32_t val3)
{ (void) uaddr; (void) op; (void) val; (void) timeout; (void) uaddr2; (void) val3; vrt_fail("RUNTIME compat futex fallback reached"); }
int compat_futex_async(int32_t *uaddr, int op, int32_t val, const struct timespec *timeout, int32_t *uaddr2, int32_t val3)
{ (void) uaddr; (void) op; (void) val; (void) timeout; (void) uaddr2; (void) val3; vrt_fail("RUNTIME compat futex fallback reached"); }

/* ------------------------------------------------------------------ scenario program */
#define MAXOPS 16
#define MAXTHR 8
#define MAXW 16
struct op { char kind[12]; char n[16]; };
struct prog { char name[16]; int nops; struct op ops[MAXOPS]; pthread_t tid; int tid_ok; };
static struct prog P[MAXTHR]; static int np;
static __thread struct prog *me; static __thread int cur_op;

struct item { struct urcu_work work; int id; };
static struct item items[MAXW];
static int re_of[MAXW];			/* callback of item k queues item re_of[k] (0: none) */
static int cnt[MAXW], fin[MAXW], queued[MAXW], entered[MAXW];
static unsigned long cfg_flags; static int cfg_pre = 1;
static struct urcu_workqueue *wq; static int wq_ready, wq_destroyed;
static int workers_started, workers_finished;

/* ------------------------------------------------------------------ recording allocator for the library */
enum { K_WQ = 1, K_COMP, K_CWORK };
struct arec { void *p; size_t sz; int kind, freed; char name[24]; };
static struct arec A[64]; static int na;
static NS struct arec *arec_of(void *p) { for (int i = 0; i < na; i++) if (A[i].p == p) return &A[i]; return NULL; }
static NS struct arec *arec_new(void *p, size_t sz, int kind)
{
	if (na == 64) vrt_fail("RUNTIME too many library allocations");
	A[na] = (struct arec){ p, sz, kind, 0, "" }; return &A[na++];
}
static NS const char *cur_comp(void)
{
	if (!me || strcmp(me->ops[cur_op].kind, "flush")) vrt_fail("ORACLE completion allocated outside urcu_workqueue_flush_queued_work");
	return me->ops[cur_op].n;
}
static NS void *d_malloc(size_t sz)
{
	void *p = (malloc)(sz);
	if (!p) return p;
	if (sz == sizeof(struct urcu_workqueue)) {
		struct urcu_workqueue *w = p; struct arec *a = arec_new(p, sz, K_WQ);
		snprintf(a->name, sizeof a->name, "wq");
		vrt_name_val(&w->cbs_head.node, "wq.cbs_head");
		vrt_name(&w->cbs_tail.p, VK_PTR, "wq.cbs_tail"); vrt_name(&w->cbs_head.node.next, VK_PTR, "wq.cbs_head.next");
		vrt_name(&w->flags, VK_INT, "wq.flags"); vrt_name(&w->futex, VK_INT, "wq.futex"); vrt_name(&w->qlen, VK_INT, "wq.qlen");
	}
	return p;
}
static NS void *d_calloc(size_t n, size_t sz)
{
	void *p = (calloc)(n, sz);
	if (!p) return p;
	if (n * sz == sizeof(struct urcu_workqueue_completion)) {
		struct urcu_workqueue_completion *k = p; struct arec *a = arec_new(p, n * sz, K_COMP);
		snprintf(a->name, sizeof a->name, "%s", cur_comp());
		vrt_name_val(k, "%s", a->name);
		vrt_name(&k->barrier_count, VK_INT, "%s.barrier_count", a->name); vrt_name(&k->futex, VK_INT, "%s.futex", a->name);
		vrt_name(&k->ref.refcount, VK_INT, "%s.ref", a->name);
	} else if (n * sz == sizeof(struct urcu_workqueue_completion_work)) {
		struct urcu_workqueue_completion_work *w = p; struct arec *a = arec_new(p, n * sz, K_CWORK);
		snprintf(a->name, sizeof a->name, "%sw", cur_comp());
		vrt_name_val(&w->work.next, "%s", a->name);
		vrt_name(&w->work.next.next, VK_PTR, "%s.next", a->name);
	}
	return p;
}
static NS void d_free(void *p)
{
	struct arec *a = p ? arec_of(p) : NULL;
	if (!a) { (free)(p); return; }
	if (a->freed) vrt_fail("ORACLE double free of %s", a->name);
	a->freed = 1;
	if (a->kind == K_WQ) {
		struct urcu_workqueue *w = p;
		if (workers_finished != workers_started) vrt_fail("ORACLE work queue released while its worker thread has not exited");
		if (w->qlen != 0) vrt_fail("ORACLE work queue released with qlen = %ld", (long) w->qlen);
		vrt_unname(&w->cbs_tail.p); vrt_unname(&w->cbs_head.node.next); vrt_unname(&w->flags); vrt_unname(&w->futex); vrt_unname(&w->qlen);
		vrt_unname_val(&w->cbs_head.node);
	}
	vrt_log("\"op\":\"free\",\"var\":\"%s\"", a->name);
	vrt_quarantine(p, a->sz, a->name);	/* never handed back to the allocator: any later access is a UAF failure */
}

/* ------------------------------------------------------------------ worker hooks (driver bookkeeping only) */
static NS void worker_init(struct urcu_workqueue *w, void *priv) { (void) w; (void) priv; workers_started++; }
static NS void worker_fini(struct urcu_workqueue *w, void *priv) { (void) w; (void) priv; workers_finished++; }

/* ------------------------------------------------------------------ callbacks */
static NS int item_of(struct urcu_work *w, const char *fname)
{
	struct item *o = caa_container_of(w, struct item, work); int k = (int)(o - items);
	if (k < 0 || k >= MAXW || &items[k].work != w) vrt_fail("ORACLE callback invoked with a pointer that is not a work item of the scenario");
	vrt_log("\"op\":\"cb\",\"var\":\"w%d\",\"a\":\"%s\"", k, fname);
	if (!entered[k]) vrt_fail("ORACLE callback of w%d invoked although it was never queued", k);
	if (cnt[k]++) vrt_fail("ORACLE callback of w%d invoked twice", k);
	if (strcmp(fname, re_of[k] ? "re" : "cb")) vrt_fail("ORACLE w%d invoked with function %s, queued with %s", k, fname, re_of[k] ? "re" : "cb");
	return k;
}
static NS void do_queue(int k);
static NS void cb_plain(struct urcu_work *w)
{
	int k = item_of(w, "cb");
	fin[k] = 1;
	vrt_log("\"op\":\"cbend\",\"var\":\"w%d\"", k);
}
static NS void cb_re(struct urcu_work *w)
{
	int k = item_of(w, "re");
	do_queue(re_of[k]);
	fin[k] = 1;
	vrt_log("\"op\":\"cbend\",\"var\":\"w%d\"", k);
}
static NS void do_queue(int k)
{
	if (entered[k]) vrt_fail("SCENARIO work item w%d queued twice", k);
	entered[k] = 1;
	vrt_log("\"op\":\"call\",\"var\":\"w%d\",\"a\":\"queue\"", k);
	urcu_workqueue_queue_work(wq, &items[k].work, re_of[k] ? cb_re : cb_plain);
	queued[k] = 1;
	vrt_log("\"op\":\"ret\"");
}

/* ------------------------------------------------------------------ scenario threads */
static NS int pred_ready(void *a) { (void) a; return wq_ready; }
static NS int pred_tid(void *a) { return ((struct prog *) a)->tid_ok; }
static NS struct urcu_workqueue *do_create(void)
{
	return urcu_workqueue_create(cfg_flags, -1, NULL, NULL, worker_init, worker_fini, NULL, NULL, NULL, NULL);
}

static NS void *runner(void *arg)
{
	struct prog *p = arg; me = p;
	p->tid = pthread_self(); p->tid_ok = 1;
	for (int i = 0; i < p->nops; i++) {
		struct op *o = &p->ops[i]; cur_op = i;
		if (!strcmp(o->kind, "join")) {			/* application-level pthread_join of another scenario thread */
			struct prog *t = NULL;
			for (int k = 0; k < np; k++) if (!strcmp(P[k].name, o->n)) t = &P[k];
			if (!t || t == p) vrt_fail("SCENARIO join of unknown thread %s", o->n);
			vrt_wait_until(pred_tid, t);	/* the target has started (always one scheduling point, see tools/wq_sched.py) */
			vrt_pthread_join(t->tid, NULL);
			continue;
		}
		/* application-level hand-off of the work queue pointer: one scheduling point per operation in scenarios that create the
		 * work queue themselves, none when it exists from the start (see tools/wq_sched.py) */
		if (!cfg_pre && strcmp(o->kind, "create")) vrt_wait_until(pred_ready, NULL);
		if (strcmp(o->kind, "create") && wq_destroyed) vrt_fail("SCENARIO %s after urcu_workqueue_destroy", o->kind);
		if (!strcmp(o->kind, "queue")) {
			int k = atoi(o->n + 1);
			if (k < 1 || k >= MAXW) vrt_fail("SCENARIO bad work item %s", o->n);
			vrt_op_begin("urcu_workqueue_queue_work", VP_BLOCKING);
			do_queue(k);
			vrt_op_end();
			continue;
		}
		vrt_log("\"op\":\"call\",\"var\":\"%s\",\"a\":\"%s\"", o->n, o->kind);
		vrt_op_begin(o->kind, VP_BLOCKING);
		if (!strcmp(o->kind, "flush")) {
			int before[MAXW]; memcpy(before, queued, sizeof before);
			urcu_workqueue_flush_queued_work(wq);
			for (int k = 0; k < MAXW; k++) if (before[k] && !fin[k])
				vrt_fail("ORACLE urcu_workqueue_flush_queued_work returned before w%d, queued before the call, has finished", k);
		} else if (!strcmp(o->kind, "pause")) urcu_workqueue_pause_worker(wq);
		else if (!strcmp(o->kind, "resume")) urcu_workqueue_resume_worker(wq);
		else if (!strcmp(o->kind, "create")) {
			if (wq && !wq_destroyed) vrt_fail("SCENARIO second work queue");
			wq_destroyed = 0;
			wq = do_create();
		} else if (!strcmp(o->kind, "destroy")) {
			urcu_workqueue_destroy(wq);
			wq_destroyed = 1;
			if (workers_finished != workers_started) vrt_fail("ORACLE urcu_workqueue_destroy returned although the worker thread has not exited");
		} else vrt_fail("RUNTIME unknown op %s", o->kind);
		vrt_op_end();
		if (!strcmp(o->kind, "create")) wq_ready = 1;
		vrt_log("\"op\":\"ret\"");
	}
	return NULL;
}

static NS void end_fail(const struct vrt_opts *o, const char *fmt, ...)
{
	char msg[160]; va_list ap; va_start(ap, fmt); vsnprintf(msg, sizeof msg, fmt, ap); va_end(ap);
	fprintf(stderr, "VRT-FAIL ORACLE %s\n", msg);
	if (o->trace) { FILE *t = fopen(o->trace, "a"); if (t) { fprintf(t, "{\"t\":\"main\",\"op\":\"fail\",\"what\":\"%s\"}\n", msg); fclose(t); } }
	_exit(3);
}

int main(int argc, char **argv)
{
	struct vrt_opts o; vrt_parse_args(argc, argv, &o);
	FILE *f = fopen(argc > 4 ? argv[4] : "/dev/null", "r"); char line[128]; struct prog *cur = NULL;
	if (!f) { perror("program"); return 2; }
	while (fgets(line, sizeof line, f)) {
		char a[16], b[16]; int x, y;
		if (sscanf(line, "cfg %d %d", &x, &y) == 2) { cfg_flags = (unsigned long) x; cfg_pre = y; continue; }
		if (sscanf(line, "re w%d w%d", &x, &y) == 2) { if (x < 1 || x >= MAXW || y < 1 || y >= MAXW) return 2; re_of[x] = y; continue; }
		if (sscanf(line, "thread %15s", a) == 1) { if (np == MAXTHR) return 2; cur = &P[np++]; snprintf(cur->name, sizeof cur->name, "%s", a); continue; }
		if (!cur) continue;
		if (sscanf(line, "%11s %15s", a, b) == 2) {
			if (cur->nops == MAXOPS) return 2;
			struct op *op = &cur->ops[cur->nops++];
			snprintf(op->kind, sizeof op->kind, "%s", a); snprintf(op->n, sizeof op->n, "%s", b);
		}
	}
	fclose(f);
	if (!np) { fprintf(stderr, "no scenario threads\n"); return 2; }
	vrt_name_val(NULL, "NULL");
	for (int k = 0; k < MAXW; k++) { items[k].id = k; vrt_name_val(&items[k].work.next, "w%d", k); vrt_name(&items[k].work.next.next, VK_PTR, "w%d.next", k); }
	if (cfg_pre) { wq = do_create(); wq_ready = 1; }
	for (int k = 0; k < np; k++) vrt_spawn(P[k].name, runner, &P[k]);
	vrt_run(&o);
	/* quiescence: every scenario thread has finished, the worker is parked (or gone) */
	for (int k = 0; k < MAXW; k++) if (queued[k] && (cnt[k] != 1 || !fin[k]))
		end_fail(&o, "NEVER_RAN w%d: queued but not executed at quiescence (worker parked)", k);
	for (int i = 0; i < na; i++) if (A[i].kind != K_WQ && !A[i].freed)
		end_fail(&o, "LEAK %s never released", A[i].name);
	if (wq && !wq_destroyed && !(wq->flags & URCU_WORKQUEUE_PAUSE) && wq->qlen != 0)
		end_fail(&o, "QLEN qlen = %ld at quiescence", (long) wq->qlen);
	_exit(0);
}
