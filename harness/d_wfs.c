/*
 * Driver (C11): real include/urcu/static/wfstack.h (inline, _LGPL_SOURCE) under VSCHED, executing the thread programs
 * of a scenario (same scenario file the TLC configuration of spec/Wfs.tla is generated from).
 *   usage: d_wfs <seed> <tso> <trace> <program-file>
 * program file: lines "thread <name>" followed by "push n<k>", "pop <blk> <lck> <ws>", "popall <blk> <lck>", "empty".
 *   pop     lck=1: blk ? cds_wfs_pop(_with_state)_blocking : pop_lock + __cds_wfs_pop(_with_state)_nonblocking + pop_unlock
 *           lck=0: __cds_wfs_pop(_with_state)_{blocking,nonblocking}     (single consumer)      ws=0: variant without state
 *   popall  lck ? cds_wfs_pop_all_blocking : __cds_wfs_pop_all, then the popped list is walked with
 *           cds_wfs_for_each_blocking (blk=1) or cds_wfs_first / cds_wfs_next_nonblocking retried on WOULDBLOCK (blk=0)
 * Oracles: a node returned twice (pop / pop_all), a returned pointer that is not a pushed node, a traversal that does
 * not end, and at the end of the run every pushed node is either still on the stack (once) or was returned (once).
 */
#define _LGPL_SOURCE
#include "vrt_redirect.h"
#include <urcu/wfstack.h>

#define MAXOPS 16
#define MAXN 16
struct op { char kind[8]; int n, blk, lck, ws; };
struct prog { char name[16]; int nops; struct op ops[MAXOPS]; };
static struct prog P[8]; static int np;
static struct cds_wfs_stack stk;
#include "place.h"
static struct cds_wfs_node *nodes;	/* node n1 starts exactly at a 4 GiB boundary (place.h) */
static int pushed[MAXN], popped[MAXN];

static int node_id(struct cds_wfs_node *n, const char *what)
{
	long id = n - nodes;
	if ((void *) n < (void *) nodes || id >= MAXN || &nodes[id] != n || !pushed[id])
		vrt_fail("ORACLE %s returned a pointer that is not a pushed node (%s)", what, vrt_sym(n));
	return (int) id;
}
static void take(struct cds_wfs_node *n, const char *what)
{
	int id = node_id(n, what);
	if (popped[id]++) vrt_fail("ORACLE node n%d returned twice (%s)", id, what);
}

static void *runner(void *arg)
{
	struct prog *p = arg;
	for (int k = 0; k < p->nops; k++) {
		struct op *o = &p->ops[k]; char res[160];
		if (!strcmp(o->kind, "push")) {
			pushed[o->n] = 1;
			vrt_log("\"op\":\"call\",\"api\":\"push\",\"n\":\"n%d\"", o->n);
			vrt_op_begin("wfs_push", VP_WAITFREE);
			int r = cds_wfs_push(&stk, &nodes[o->n]);
			vrt_op_end();
			snprintf(res, sizeof res, "%s", r ? "nonEmpty" : "wasEmpty");
		} else if (!strcmp(o->kind, "pop")) {
			int state = 0; struct cds_wfs_node *n;
			vrt_log("\"op\":\"call\",\"api\":\"pop\",\"blk\":%d,\"lck\":%d,\"ws\":%d", o->blk, o->lck, o->ws);
			vrt_op_begin(o->blk ? "wfs_pop_blocking" : "wfs_pop_nonblocking", o->blk || o->lck ? VP_BLOCKING : VP_LOCKFREE);
			if (o->lck && o->blk)
				n = o->ws ? cds_wfs_pop_with_state_blocking(&stk, &state) : cds_wfs_pop_blocking(&stk);
			else if (o->lck) {
				cds_wfs_pop_lock(&stk);
				n = o->ws ? __cds_wfs_pop_with_state_nonblocking(&stk, &state) : __cds_wfs_pop_nonblocking(&stk);
				cds_wfs_pop_unlock(&stk);
			} else if (o->blk)
				n = o->ws ? __cds_wfs_pop_with_state_blocking(&stk, &state) : __cds_wfs_pop_blocking(&stk);
			else
				n = o->ws ? __cds_wfs_pop_with_state_nonblocking(&stk, &state) : __cds_wfs_pop_nonblocking(&stk);
			vrt_op_end();
			if (n == CDS_WFS_WOULDBLOCK) snprintf(res, sizeof res, "WOULDBLOCK");
			else if (!n) snprintf(res, sizeof res, "NULL");
			else {
				take(n, "pop");
				snprintf(res, sizeof res, "%s%s", vrt_sym(n), (state & CDS_WFS_STATE_LAST) ? "/LAST" : "");
			}
		} else if (!strcmp(o->kind, "popall")) {
			struct cds_wfs_head *h; struct cds_wfs_node *n, *got[MAXN + 1]; int ng = 0; size_t len = 0;
			vrt_log("\"op\":\"call\",\"api\":\"popall\",\"blk\":%d,\"lck\":%d", o->blk, o->lck);
			vrt_op_begin("wfs_pop_all", VP_BLOCKING);
			h = o->lck ? cds_wfs_pop_all_blocking(&stk) : __cds_wfs_pop_all(&stk);
			if (o->blk) {
				cds_wfs_for_each_blocking(h, n) {
					if (ng == MAXN) vrt_fail("ORACLE traversal of the popped list does not end");
					got[ng++] = n;
				}
			} else {
				for (n = cds_wfs_first(h); n != NULL; ) {
					struct cds_wfs_node *nx;
					if (ng == MAXN) vrt_fail("ORACLE traversal of the popped list does not end");
					got[ng++] = n;
					while ((nx = cds_wfs_next_nonblocking(n)) == CDS_WFS_WOULDBLOCK)
						caa_cpu_relax();
					n = nx;
				}
			}
			vrt_op_end();
			res[0] = 0;
			for (int j = 0; j < ng; j++) {
				take(got[j], "pop_all");
				len += snprintf(res + len, sizeof res - len, "%s%s", j ? "," : "", vrt_sym(got[j]));
			}
		} else {
			vrt_log("\"op\":\"call\",\"api\":\"empty\"");
			vrt_op_begin("wfs_empty", VP_WAITFREE);
			bool r = cds_wfs_empty(&stk);
			vrt_op_end();
			snprintf(res, sizeof res, "%s", r ? "TRUE" : "FALSE");
		}
		vrt_log("\"op\":\"ret\",\"r\":\"%s\"", res);
	}
	return NULL;
}

int main(int argc, char **argv)
{
	struct vrt_opts o; vrt_parse_args(argc, argv, &o);
	FILE *f = fopen(argc > 4 ? argv[4] : "/dev/null", "r"); char line[128]; struct prog *cur = NULL;
	if (!f) { perror("program"); return 2; }
	while (fgets(line, sizeof line, f)) {
		char a[16]; int x, y, z;
		if (sscanf(line, "thread %15s", a) == 1) { cur = &P[np++]; snprintf(cur->name, sizeof cur->name, "%s", a); continue; }
		if (!cur || cur->nops == MAXOPS) continue;
		struct op *op = &cur->ops[cur->nops];
		if (sscanf(line, "push n%d", &x) == 1 && x >= 0 && x < MAXN) { strcpy(op->kind, "push"); op->n = x; cur->nops++; }
		else if (sscanf(line, "popall %d %d", &x, &y) == 2) { strcpy(op->kind, "popall"); op->blk = x; op->lck = y; cur->nops++; }
		else if (sscanf(line, "pop %d %d %d", &x, &y, &z) == 3) { strcpy(op->kind, "pop"); op->blk = x; op->lck = y; op->ws = z; cur->nops++; }
		else if (!strncmp(line, "empty", 5)) { strcpy(op->kind, "empty"); cur->nops++; }
	}
	fclose(f);
	vrt_name_val(NULL, "NULL"); vrt_name_val(CDS_WFS_END, "END");
	cds_wfs_init(&stk);
	vrt_name(&stk.head, VK_PTR, "s1.head"); vrt_name_mutex(&stk.lock, "s1.lock");
	nodes = place_at_boundary(sizeof *nodes, MAXN, 0x300000000UL);
	for (int k = 0; k < MAXN; k++) { cds_wfs_node_init(&nodes[k]); vrt_name(&nodes[k].next, VK_PTR, "n%d.next", k); vrt_name_val(&nodes[k], "n%d", k); }
	for (int k = 0; k < np; k++) vrt_spawn(P[k].name, runner, &P[k]);
	vrt_run(&o);
	/* quiescent state: lost-node / duplicate oracle over the final stack */
	int on[MAXN] = { 0 }, steps = 0;
	for (struct cds_wfs_head *h = stk.head; h != CDS_WFS_END; h = (struct cds_wfs_head *) h->node.next) {
		if (!h || ++steps > MAXN) vrt_fail("ORACLE final stack is not a list ending in CDS_WFS_END");
		int id = node_id(&h->node, "final stack");
		if (on[id]++) vrt_fail("ORACLE node n%d linked twice in the final stack", id);
		if (popped[id]) vrt_fail("ORACLE node n%d was returned by a pop but is still on the stack", id);
	}
	for (int k = 0; k < MAXN; k++)
		if (pushed[k] && !popped[k] && !on[k]) vrt_fail("ORACLE node n%d lost: pushed, never returned, not on the final stack", k);
	_exit(0);
}
