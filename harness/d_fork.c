/*
 * Driver for C16 (fork() bracketed by the documented handlers): a REAL flavor translation unit
 *     default / -DFORK_MB : src/urcu.c with RCU_MB          -DFORK_MEMB : src/urcu.c with RCU_MEMBARRIER
 *     -DFORK_QSBR         : src/urcu-qsbr.c                 -DFORK_BP   : src/urcu-bp.c
 * (each includes src/urcu-call-rcu-impl.h: call_rcu helpers and the call_rcu_before_fork / after_fork_parent /
 * after_fork_child handlers) runs under VSCHED; with -DFORK_HT the unit harness/d_fork_ht.c (real src/rculfhash.c +
 * src/workqueue.c: the resize worker and its atfork handlers, reached through the flavor's registered_rculfhash_atfork) is
 * linked in and main() creates one automatically resizing table on the flavor before the run.
 *
 * A model thread calls the handlers and vrt_fork() where its program says so.  The child (only the forking thread survives;
 * mutexes owned by the other threads stay owned, helper threads are gone) continues the SAME program, serialised on its own,
 * and writes <trace>.child; the parent waits for it at the end of the forking thread's program (vrt_wait_child) and turns a
 * non-zero exit status into an oracle failure of its own.
 *
 *   usage: d_fork <seed> <tso> <trace> <program-file>
 * program file:  "ht <max>"                    (FORK_HT) create the table before the run
 *                "thread <name> <cpu>" followed by one operation per line, "<op> [arg] [arg] [@p|@c]":
 *   call <n>          call_rcu(&N[n].head, cb)              sync       synchronize_rcu()
 *   barrier           rcu_barrier()                         rl / ru    rcu_read_lock() / rcu_read_unlock()
 *   reg / unreg       rcu_register_thread() / rcu_unregister_thread()   (bp: reg only, registration is lazy otherwise)
 *   offline / online  (qsbr) rcu_thread_offline() / rcu_thread_online()
 *   create <x>        slot[x] = create_call_rcu_data(0, -1) setthr <x> set_thread_call_rcu_data(slot[x])  (x = -1: NULL)
 *   setcpu <c> <x>    set_cpu_call_rcu_data(c, slot[x])     cpu <c>    the thread now runs on model CPU c
 *   before / after    call_rcu_before_fork() / call_rcu_after_fork_parent() or _child() (whichever process this is)
 *   bpbefore/bpafter  (bp) urcu_bp_before_fork() / urcu_bp_after_fork_parent() or _child()
 *   fork              vrt_fork()
 *   waitf             block (scheduler level) until some thread of this process has forked
 *   post <n> / wait <n>   set flag n / block (scheduler level) until flag n is set (n = 1..3): ordering between scenario threads
 *   waitb             block until some thread has returned from call_rcu_before_fork() (helpers are paused from then on)
 *   add <k>           (ht) cds_lfht_add of key k (every key hashes to bucket 0: long chains launch lazy grows)
 *   htwait            (ht) block until the work queue is drained and idle; every key added so far must then be found
 *   resize <n>        (ht) cds_lfht_resize(ht, n); the table must have at least n buckets when it returns (scenarios only grow)
 *   htexit            (ht) the library's exit path for the worker (cds_lfht_exit: flush, stop, join)
 *   a trailing @p / @c restricts an operation that follows the fork to the parent / the child.
 *
 * Naming: the K-th call_rcu_data allocated by the library (in this process history) is cK (cK.flags cK.futex cK.qlen
 * cK.tail HcK.next), its helper thread is the next daemon thread hJ; rcu_heads n<i>; rcu_barrier completions k<B>.count and
 * their work items w<J>; resize work items rw<J>; default_call_rcu_data "dflt"; gp_waiters "gpw"; mutexes call_rcu.mutex
 * gp.lock registry.lock lfht.fork_mutex resize_mutex; work queue wq.flags wq.futex wq.qlen wq.tail Hwq.next; table ht.size
 * ht.target ht.init.
 *
 * Oracles, in BOTH processes (independent of the specification): a callback invoked twice in one process; a callback
 * whose call_rcu() returned (in this process or, before the fork, in its parent) not invoked once when the process ends its
 * program (the forking thread waits for them at scheduler level: a lost callback ends as DEADLOCK / BUDGET); operations that
 * do not return (BUDGET / DEADLOCK of the runtime); pthread_join on a thread that does not exist in the child (JOIN_GONE);
 * access to a freed call_rcu_data (UAF); (bp) child registry different from {forking thread} after the child handler;
 * (ht) a key added earlier not found after htwait, explicit resize not effective, atfork nesting counter not back to 0 after the
 * handlers;
 * the parent reports a failing child (exit status 3 = an oracle failed in the child).
 */
#include "vrt_redirect.h"
#include <stdarg.h>

#define NS __attribute__((no_sanitize_thread))
static void *d_malloc(size_t sz);
static void *d_calloc(size_t n, size_t sz);
static void d_free(void *p);
static int d_pthread_create(pthread_t *tid, const pthread_attr_t *attr, void *(*fn)(void *), void *arg);

#define malloc d_malloc
#define calloc d_calloc
#define free d_free
#undef pthread_create
#define pthread_create d_pthread_create
#if defined(FORK_BP)
#include REPO_SRC(urcu-bp.c)
#define FLAVOR_NAME "bp"
#elif defined(FORK_QSBR)
#include REPO_SRC(urcu-qsbr.c)
#define FLAVOR_NAME "qsbr"
#elif defined(FORK_MEMB)
#define RCU_MEMBARRIER
#include REPO_SRC(urcu.c)
#define FLAVOR_NAME "memb"
#else
#define RCU_MB
#include REPO_SRC(urcu.c)
#define FLAVOR_NAME "mb"
#endif
#undef malloc
#undef calloc
#undef free
#undef pthread_create
#define pthread_create vrt_pthread_create

/* the included sources reference the compat futex fallback (only used when futex() returns ENOSYS) */
int compat_futex_noasync(int32_t *uaddr, int op, int32_t val, const struct timespec *timeout, int32_t *uaddr2, int32_t val3)
{ (void) uaddr; (void) op; (void) val; (void) timeout; (void) uaddr2; (void) val3; vrt_fail("RUNTIME compat futex fallback reached"); }
int compat_futex_async(int32_t *uaddr, int op, int32_t val, const struct timespec *timeout, int32_t *uaddr2, int32_t val3)
{ (void) uaddr; (void) op; (void) val; (void) timeout; (void) uaddr2; (void) val3; vrt_fail("RUNTIME compat futex fallback reached"); }

#ifdef FORK_HT
int dfh_pthread_create(pthread_t *tid, const pthread_attr_t *attr, void *(*fn)(void *), void *arg) { return d_pthread_create(tid, attr, fn, arg); }
void dfh_new(const struct rcu_flavor_struct *flavor, unsigned long max);
void dfh_add(int key);
int dfh_lookup(int key);
int dfh_resize_done(void *arg);
unsigned long dfh_size(void);
unsigned long dfh_target(void);
int dfh_nesting(void);
void dfh_exit(void);
void dfh_resize(unsigned long n);
void dfh_new2(const struct rcu_flavor_struct *flavor);
void dfh_before2(void);
void dfh_after2(int child);
#endif

/* ------------------------------------------------------------------ allocation interposition: naming, quarantine */
#define MAXC 16
static struct call_rcu_data *CR[MAXC]; static int ncr;		/* call_rcu_data structures in allocation order (never reused) */
static int nwork, ncomp;
static const char *cur_kind[32];		/* operation each model thread is executing */
static NS int crd_index(const void *p) { for (int k = 0; k < ncr; k++) if (CR[k] == p) return k + 1; return 0; }

static NS void *d_malloc(size_t sz)
{
	void *p = malloc(sz);
	/* set_cpu_call_rcu_data() allocates the per-CPU pointer array, whose size can coincide with sizeof(struct call_rcu_data) */
	int in_setcpu = vrt_self() >= 0 && vrt_self() < 32 && cur_kind[vrt_self()] && !strcmp(cur_kind[vrt_self()], "setcpu");
	if (p && sz == sizeof(struct call_rcu_data) && !in_setcpu) {
		if (ncr == MAXC) vrt_fail("RUNTIME too many call_rcu_data structures");
		struct call_rcu_data *c = p; CR[ncr++] = c; int k = ncr;
		vrt_name_val(c, "c%d", k); vrt_name_val(&c->cbs_head.node, "Hc%d", k);
		vrt_name(&c->flags, VK_INT, "c%d.flags", k); vrt_name(&c->futex, VK_INT, "c%d.futex", k); vrt_name(&c->qlen, VK_INT, "c%d.qlen", k);
		vrt_name(&c->cbs_tail.p, VK_PTR, "c%d.tail", k); vrt_name(&c->cbs_head.node.next, VK_PTR, "Hc%d.next", k);
		if (vrt_in_model()) vrt_log("\"op\":\"alloc\",\"var\":\"c%d\"", k);
	}
	return p;
}
static NS void *d_calloc(size_t n, size_t sz)
{
	void *p = calloc(n, sz);
	if (!p) return p;
	if (n == 1 && sz == sizeof(struct call_rcu_completion)) {
		struct call_rcu_completion *c = p; ncomp++;
		vrt_name(&c->barrier_count, VK_INT, "k%d.count", ncomp);
	} else if (n == 1 && sz == sizeof(struct call_rcu_completion_work)) {
		struct call_rcu_completion_work *w = p; nwork++;
		vrt_name_val(&w->head.next, "w%d", nwork); vrt_name(&w->head.next.next, VK_PTR, "w%d.next", nwork);
	}
	return p;
}
static NS void d_free(void *p)
{
	int k = crd_index(p);
	if (k) {	/* a call_rcu_data: never reused, every later access by library code is a UAF oracle failure */
		struct call_rcu_data *c = p;
		if (vrt_in_model()) vrt_log("\"op\":\"free\",\"var\":\"c%d\"", k);
		/* names are kept (vrt_unname would move name-table entries that sleeping threads still point to); the quarantine reports any access */
		vrt_quarantine(c, sizeof *c, "call_rcu_data");
		return;
	}
	/* completions and work items are small and few: leaked on purpose so that their names stay unique */
}
/* threads created by the library: name the new thread's reader counter word (static TLS for mb / memb / qsbr) before its code runs */
struct d_start { void *(*fn)(void *); void *arg; };
static void *d_thread_start(void *a)
{
	struct d_start s = *(struct d_start *) a;
#if !defined(FORK_BP)
	vrt_name(&URCU_TLS(rcu_reader).ctr, VK_GPCTR, "rctr.%s", vrt_self_name());
#endif
	return s.fn(s.arg);
}
static NS int d_pthread_create(pthread_t *tid, const pthread_attr_t *attr, void *(*fn)(void *), void *arg)
{
	struct d_start *s = malloc(sizeof *s);		/* leaked on purpose (a few per run) */
	s->fn = fn; s->arg = arg;
	return vrt_pthread_create(tid, attr, d_thread_start, s);
}

/* ------------------------------------------------------------------ scenario */
#define MAXOPS 40
#define MAXN 16
#define MAXTHR 6
struct op { char kind[12]; long a, b; int who; /* 0 both, 1 parent only, 2 child only */ };
struct prog { char name[16]; int cpu; int nops; struct op ops[MAXOPS]; };
static struct prog P[MAXTHR]; static int np;
struct mynode { struct rcu_head head; int id; };
static struct mynode N[MAXN];
static int cnt[MAXN];			/* invocations of N[i]'s callback IN THIS PROCESS HISTORY (copied by fork) */
static int called[MAXN];		/* call_rcu(&N[i]) has been issued */
static struct call_rcu_data *slot[8];
static int forked, in_child, forker = -1; static pid_t child_pid;
static int c_ht, c_ht2; static unsigned long c_htmax = 8;
static int regd[32];			/* driver ghost: the model thread registered itself (explicitly) */

static void cb(struct rcu_head *h)
{
	struct mynode *n = caa_container_of(h, struct mynode, head);
	int i = n->id;
	if (n != &N[i]) vrt_fail("ORACLE callback invoked with a wrong rcu_head");
	cnt[i]++;
	vrt_log("\"op\":\"cb\",\"var\":\"n%d\"", i);
	if (cnt[i] > 1) vrt_fail("ORACLE callback n%d invoked %d times in the %s", i, cnt[i], in_child ? "child" : "parent");
	if (!called[i]) vrt_fail("ORACLE callback n%d invoked although call_rcu was never issued", i);
}
/* every callback whose call_rcu() has RETURNED in this process history (a call_rcu() that another thread was executing at fork time never
 * returns in the child: its callback may or may not have been queued) */
static NS int all_invoked(void *arg) { (void) arg; for (int i = 0; i < MAXN; i++) if (called[i] == 2 && cnt[i] < 1) return 0; return 1; }
static NS int has_forked(void *arg) { (void) arg; return forked; }
static int before_done; static int flag[4];
static NS int has_flag(void *arg) { return flag[(long) arg & 3]; }
static NS int has_before(void *arg) { (void) arg; return before_done; }

#if defined(FORK_BP)
static NS int bp_registry_count(int *self_in)
{
	struct registry_chunk *chunk; int n = 0; *self_in = 0;
	cds_list_for_each_entry(chunk, &registry_arena.chunk_list, node)
		for (size_t i = 0; i < chunk->capacity; i++) if (chunk->readers[i].alloc) { n++; if (pthread_equal(chunk->readers[i].tid, pthread_self())) *self_in = 1; }
	return n;
}
static NS int bp_list_count(void) { struct urcu_bp_reader *r; int n = 0; cds_list_for_each_entry(r, &registry, node) n++; return n; }
#endif

/* the reader's counter word: static TLS for mb / memb / qsbr, a registry slot (once registered) for bp */
static NS void name_reader_word(struct prog *p, int *named)
{
	if (*named) return;
#if defined(FORK_BP)
	if (!URCU_TLS(urcu_bp_reader)) return;
	vrt_name(&URCU_TLS(urcu_bp_reader)->ctr, VK_GPCTR, "rctr.%s", p->name);
#else
	vrt_name(&URCU_TLS(rcu_reader).ctr, VK_GPCTR, "rctr.%s", p->name);
#endif
	*named = 1;
}

static void *runner(void *arg)
{
	struct prog *p = arg; int me = vrt_self(); int rnamed = 0;
	vrt_set_cpu(p->cpu);
	name_reader_word(p, &rnamed);
	for (int k = 0; k < p->nops; k++) {
		struct op *o = &p->ops[k]; const char *K = o->kind;
		if (o->who == 1 && in_child) continue;
		if (o->who == 2 && !in_child) continue;
		if (!strcmp(K, "cpu")) { vrt_set_cpu((int) o->a); continue; }
		if (!strcmp(K, "waitf")) { vrt_wait_until(has_forked, NULL); vrt_log("\"op\":\"waitf\""); continue; }
		if (!strcmp(K, "post")) { flag[o->a & 3] = 1; vrt_log("\"op\":\"post\",\"n\":%ld", o->a); continue; }
		if (!strcmp(K, "wait")) { vrt_wait_until(has_flag, (void *) (long) o->a); vrt_log("\"op\":\"wait\",\"n\":%ld", o->a); continue; }
		if (!strcmp(K, "waitb")) { vrt_wait_until(has_before, NULL); vrt_log("\"op\":\"waitb\""); continue; }
		vrt_log("\"op\":\"call\",\"api\":\"%s\",\"n\":%ld", K, o->a);
		if (me >= 0 && me < 32) cur_kind[me] = K;
		vrt_op_begin(K, VP_BLOCKING);
		if (!strcmp(K, "call")) {
			if (called[o->a]) vrt_fail("SCENARIO rcu_head n%ld passed to call_rcu twice", o->a);
			called[o->a] = 1;
			call_rcu(&N[o->a].head, cb);
		} else if (!strcmp(K, "sync")) synchronize_rcu();
		else if (!strcmp(K, "barrier")) {
			int snap[MAXN];		/* callbacks whose call_rcu() had returned when rcu_barrier() was called */
			for (int i = 0; i < MAXN; i++) snap[i] = called[i] == 2;
			rcu_barrier();
			for (int i = 0; i < MAXN; i++) if (snap[i] && cnt[i] != 1)
				vrt_fail("ORACLE rcu_barrier returned in the %s before callback n%d (call_rcu had returned) was invoked", in_child ? "child" : "parent", i);
		}
		else if (!strcmp(K, "rl")) {
#if defined(FORK_BP)
			if (!rnamed) vrt_fail("SCENARIO bp: a thread must `reg` before its first rl / call (the reader word is named at registration)");
#endif
			rcu_read_lock();
		}
		else if (!strcmp(K, "ru")) rcu_read_unlock();
		else if (!strcmp(K, "reg")) { rcu_register_thread(); regd[me] = 1; name_reader_word(p, &rnamed); }
#if !defined(FORK_BP)
		else if (!strcmp(K, "unreg")) { rcu_unregister_thread(); regd[me] = 0; }
#endif
#if defined(FORK_QSBR)
		else if (!strcmp(K, "offline")) rcu_thread_offline();
		else if (!strcmp(K, "online")) rcu_thread_online();
		else if (!strcmp(K, "qs")) rcu_quiescent_state();
#endif
		else if (!strcmp(K, "create")) slot[o->a] = create_call_rcu_data(0, -1);
		else if (!strcmp(K, "setthr")) set_thread_call_rcu_data(o->a < 0 ? NULL : slot[o->a]);
		else if (!strcmp(K, "setcpu")) { if (set_cpu_call_rcu_data((int) o->a, o->b < 0 ? NULL : slot[o->b])) vrt_fail("SCENARIO set_cpu_call_rcu_data failed"); }
		else if (!strcmp(K, "before")) { call_rcu_before_fork(); before_done = 1; }
#ifdef FORK_HT
		else if (!strcmp(K, "before2")) dfh_before2();
		else if (!strcmp(K, "after2")) dfh_after2(in_child);
#endif
		else if (!strcmp(K, "after")) {
			if (in_child) {
				call_rcu_after_fork_child();
				if (get_thread_call_rcu_data() != NULL) vrt_fail("ORACLE child: thread_call_rcu_data not reset by call_rcu_after_fork_child");
			} else call_rcu_after_fork_parent();
#ifdef FORK_HT
			if (dfh_nesting() != 0) vrt_fail("ORACLE rculfhash atfork nesting counter is %d after the handlers (must be 0)", dfh_nesting());
#endif
		}
#if defined(FORK_BP)
		else if (!strcmp(K, "bpbefore")) urcu_bp_before_fork();
		else if (!strcmp(K, "bpafter")) {
			if (in_child) {
				urcu_bp_after_fork_child();
				int self_in, n = bp_registry_count(&self_in), l = bp_list_count();
				vrt_log("\"op\":\"proj\",\"var\":\"registry\",\"a\":%d,\"b\":%d", n, self_in);
				if (n != self_in || l != self_in)
					vrt_fail("ORACLE child registry holds %d allocated slots / %d list entries after urcu_bp_after_fork_child (the forking thread is %sregistered)", n, l, self_in ? "" : "not ");
			} else urcu_bp_after_fork_parent();
		}
#endif
		else if (!strcmp(K, "fork")) {
			pid_t pid = vrt_fork();
			if (pid < 0) vrt_fail("RUNTIME fork failed");
			forked = 1; forker = me;
			if (pid == 0) in_child = 1; else child_pid = pid;
		}
#ifdef FORK_HT
		else if (!strcmp(K, "add")) dfh_add((int) o->a);
		else if (!strcmp(K, "htwait")) {
			vrt_wait_until(dfh_resize_done, NULL);
			for (int i = 0; i < p->nops; i++) if (!strcmp(p->ops[i].kind, "add") && i < k && !(p->ops[i].who == 1 && in_child) && !(p->ops[i].who == 2 && !in_child))
				if (!dfh_lookup((int) p->ops[i].a)) vrt_fail("ORACLE key %ld missing from the table after the resize", p->ops[i].a);
		}
		else if (!strcmp(K, "resize")) {
			dfh_resize((unsigned long) o->a);
			if (dfh_size() < (unsigned long) o->a) vrt_fail("ORACLE cds_lfht_resize(%ld) returned with %lu buckets", o->a, dfh_size());
		}
		else if (!strcmp(K, "htexit")) dfh_exit();
#endif
		else vrt_fail("SCENARIO unknown operation %s", K);
		vrt_op_end();
		if (!strcmp(K, "call")) called[o->a] = 2;
		vrt_log("\"op\":\"ret\",\"api\":\"%s\",\"r\":%ld", K, !strcmp(K, "htwait") ?
#ifdef FORK_HT
			(long) dfh_size()
#else
			0L
#endif
			: 0L);
	}
	if (forker == me) {
		/* end of the forking thread's program: every callback whose call_rcu() was issued must be invoked in this process */
		vrt_wait_until(all_invoked, NULL);
		vrt_log("\"op\":\"allcb\"");
	}
#if defined(FORK_BP)
	/* a finished model thread still exists: keep glibc from running the bp key destructor (library code outside the model) when the
	 * underlying pthread returns */
	if (URCU_TLS(urcu_bp_reader)) pthread_setspecific(urcu_bp_key, NULL);
#endif
	if (forker == me && child_pid > 0 && !in_child) {
		int st = vrt_wait_child(child_pid);
		vrt_log("\"op\":\"child\",\"r\":%d", st);
		if (st != 0) vrt_fail("CHILD the forked child failed (exit status %d; 3 = an oracle failed in the child, see <trace>.child)", st);
	}
	return NULL;
}

int main(int argc, char **argv)
{
	struct vrt_opts o; vrt_parse_args(argc, argv, &o);
	FILE *f = fopen(argc > 4 ? argv[4] : "/dev/null", "r"); char line[128]; struct prog *cur = NULL;
	if (!f) { perror("program"); return 2; }
	while (fgets(line, sizeof line, f)) {
		char a[16], w[8]; long x, y; int c;
		if (!strncmp(line, "ht2", 3)) { c_ht2 = 1; continue; }
		if (sscanf(line, "ht %lu", &c_htmax) == 1) { c_ht = 1; continue; }
		if (sscanf(line, "thread %15s %d", a, &c) == 2) { if (np == MAXTHR) return 2; cur = &P[np++]; snprintf(cur->name, sizeof cur->name, "%s", a); cur->cpu = c; continue; }
		if (!cur || cur->nops == MAXOPS) continue;
		struct op *op = &cur->ops[cur->nops]; memset(op, 0, sizeof *op);
		char *at = strchr(line, '@');
		if (at) { op->who = at[1] == 'p' ? 1 : 2; *at = 0; }
		x = y = 0; w[0] = 0;
		int n = sscanf(line, "%11s %ld %ld", op->kind, &x, &y);
		if (n < 1) continue;
		op->a = x; op->b = y; cur->nops++;
	}
	fclose(f);
	for (int i = 0; i < MAXN; i++) { N[i].id = i; vrt_name_val(&N[i].head.next, "n%d", i); vrt_name(&N[i].head.next.next, VK_PTR, "n%d.next", i); }
	vrt_name_val(NULL, "NULL");
	vrt_name(&default_call_rcu_data, VK_PTR, "dflt");
	vrt_name_mutex(&call_rcu_mutex, "call_rcu.mutex");
	vrt_name_mutex(&rcu_gp_lock, "gp.lock"); vrt_name_mutex(&rcu_registry_lock, "registry.lock");
#if !defined(FORK_BP)
	vrt_name(&gp_waiters.stack.head, VK_PTR, "gpw");
#else
	vrt_name_mutex(&init_lock, "bp.init_lock");
#endif
#ifdef FORK_HT
	if (c_ht) dfh_new(&rcu_flavor, c_htmax);
#ifdef FORK_HT
	if (c_ht && c_ht2) dfh_new2(&rcu_flavor);
#endif
#endif
	for (int k = 0; k < np; k++) vrt_spawn(P[k].name, runner, &P[k]);
	vrt_run(&o);
	/* parent, at quiescence (every scenario thread finished, helpers idle) */
	for (int i = 0; i < MAXN; i++) if (called[i] == 2 && cnt[i] != 1) vrt_fail("ORACLE callback n%d invoked %d times in the parent at quiescence", i, cnt[i]);
	_exit(0);
}
