/*
 * C20 driver: the REAL uatomic macros of /repo/include/urcu/uatomic.h, compiled twice from this one source
 * (default x86 implementation; -DCONFIG_RCU_USE_ATOMIC_BUILTINS).  Not scheduler based: single instructions cannot be
 * interleaved by VSCHED, so the schedule dimension is a real multi-thread hammer.  Standalone (no vrt runtime).
 *
 *   d_uatomic vec    <vectors.txt> <log.ndjson>     execute the TLC-generated vectors (spec -> code), log one record
 *                                                   per vector (code -> spec, validated by UatomicTrace.tla);
 *                                                   exit 3 when a result differs from the spec-computed expectation
 *   d_uatomic hammer <seed> <log.ndjson> <scale>    8-thread hammer + store-buffering litmus, results logged for
 *                                                   UatomicHammer.tla (the deciding predicates are stated there)
 *
 * vector line (64 integers, written by tools/props/c20.py from the tuples TLC printed):
 *   op w off ts ow os imm  a[8] b[8] m0[16]  m1[16] hasret r[8]        (m1, r = expectation computed by the spec)
 */
#ifndef _GNU_SOURCE
#define _GNU_SOURCE
#endif
#include <stdio.h>
#include <stdlib.h>
#include <string.h>
#include <stdint.h>
#include <errno.h>
#include <pthread.h>
#include <sched.h>
#include <unistd.h>
#include <urcu/uatomic.h>

#ifdef CONFIG_RCU_USE_ATOMIC_BUILTINS
#define IMPL "builtins"
#else
#define IMPL "x86"
#endif

/* ------------------------------------------------------------------ typed instantiation of every macro */
struct out { uint64_t r; int rsz; int rsg; };
typedef void (*opfn)(void *p, uint64_t a, uint64_t b, int imm, struct out *o);

/* location types (index = 2 * log2(width) + signed) and operand types (same list) */
#define FOR_O(X, tn, T) \
	X(tn, T, u8, unsigned char) X(tn, T, s8, signed char) X(tn, T, u16, unsigned short) X(tn, T, s16, short) \
	X(tn, T, u32, unsigned int) X(tn, T, s32, int) X(tn, T, u64, unsigned long) X(tn, T, s64, long)
#define FOR_TO(X) \
	FOR_O(X, u8, unsigned char) FOR_O(X, s8, signed char) FOR_O(X, u16, unsigned short) FOR_O(X, s16, short) \
	FOR_O(X, u32, unsigned int) FOR_O(X, s32, int) FOR_O(X, u64, unsigned long) FOR_O(X, s64, long)
#define FOR_T(X) \
	X(u8, unsigned char) X(s8, signed char) X(u16, unsigned short) X(s16, short) \
	X(u32, unsigned int) X(s32, int) X(u64, unsigned long) X(s64, long)
#define ROW(pfx, tn) { pfx##tn##_u8, pfx##tn##_s8, pfx##tn##_u16, pfx##tn##_s16, pfx##tn##_u32, pfx##tn##_s32, pfx##tn##_u64, pfx##tn##_s64 }
#define TABLE(pfx) { ROW(pfx, u8), ROW(pfx, s8), ROW(pfx, u16), ROW(pfx, s16), ROW(pfx, u32), ROW(pfx, s32), ROW(pfx, u64), ROW(pfx, s64) }

/* literal operands (compile-time constants take the immediate-operand paths of the asm constraints).
 * Same table as Lits in spec/UatomicVec.tla: index, literal, index and literal of the cmpxchg `new' partner */
#define LITS(X, ...) \
	X(1, 0, 2, 1, __VA_ARGS__) X(2, 1, 3, -1, __VA_ARGS__) X(3, -1, 4, 0x7f, __VA_ARGS__) X(4, 0x7f, 5, 0x80, __VA_ARGS__) \
	X(5, 0x80, 6, 0xff, __VA_ARGS__) X(6, 0xff, 7, 0x7fffffff, __VA_ARGS__) X(7, 0x7fffffff, 8, (-0x7fffffff - 1), __VA_ARGS__) \
	X(8, (-0x7fffffff - 1), 1, 0, __VA_ARGS__) X(9, 0x80000000U, 9, 0x80000000U, __VA_ARGS__) \
	X(10, 0xffffffffUL, 10, 0xffffffffUL, __VA_ARGS__) X(11, 0x8000000000000000UL, 11, 0x8000000000000000UL, __VA_ARGS__) \
	X(12, -129L, 12, -129L, __VA_ARGS__)
#define NLITS 12
#define LITVAL(k, lit, k2, lit2, ...) [k] = (uint64_t)(lit),
#define LITSZ(k, lit, k2, lit2, ...) [k] = sizeof(lit),
#define LITSG(k, lit, k2, lit2, ...) [k] = ((__typeof__(lit))-1 < 0),
static const uint64_t lit_val[NLITS + 1] = { LITS(LITVAL, 0) };
static const int lit_sz[NLITS + 1] = { LITS(LITSZ, 0) };
static const int lit_sg[NLITS + 1] = { LITS(LITSG, 0) };

#define RET_META(e) do { o->rsz = (int) sizeof(e); o->rsg = ((__typeof__(e))-1 < 0); } while (0)

/* value-returning, one operand */
#define CASE_RET1(k, lit, k2, lit2, op, T) case k: o->r = (uint64_t) uatomic_##op((T *) p, lit); break;
#define DEF_RET1(op, tn, T, on, O) \
static void f_##op##_##tn##_##on(void *p, uint64_t a, uint64_t b, int imm, struct out *o) { \
	O va = (O) a; (void) b; (void) imm; \
	o->r = (uint64_t) uatomic_##op((T *) p, va); \
	RET_META(uatomic_##op((T *) p, va)); }
#define DEF_RET1_IMM(op, tn, T) \
static void i_##op##_##tn(void *p, uint64_t a, uint64_t b, int imm, struct out *o) { \
	(void) a; (void) b; \
	switch (imm) { LITS(CASE_RET1, op, T) default: abort(); } \
	RET_META(uatomic_##op((T *) p, 1)); }
/* void, one operand */
#define CASE_VOID1(k, lit, k2, lit2, op, T) case k: uatomic_##op((T *) p, lit); break;
#define DEF_VOID1(op, tn, T, on, O) \
static void f_##op##_##tn##_##on(void *p, uint64_t a, uint64_t b, int imm, struct out *o) { \
	O va = (O) a; (void) b; (void) imm; \
	uatomic_##op((T *) p, va); \
	o->r = 0; o->rsz = 0; o->rsg = 0; }
#define DEF_VOID1_IMM(op, tn, T) \
static void i_##op##_##tn(void *p, uint64_t a, uint64_t b, int imm, struct out *o) { \
	(void) a; (void) b; \
	switch (imm) { LITS(CASE_VOID1, op, T) default: abort(); } \
	o->r = 0; o->rsz = 0; o->rsg = 0; }
/* cmpxchg */
#define CASE_CAS(k, lit, k2, lit2, op, T) case k: o->r = (uint64_t) uatomic_cmpxchg((T *) p, lit, lit2); break;
#define DEF_CAS(tn, T, on, O) \
static void f_cmpxchg_##tn##_##on(void *p, uint64_t a, uint64_t b, int imm, struct out *o) { \
	O va = (O) a, vb = (O) b; (void) imm; \
	o->r = (uint64_t) uatomic_cmpxchg((T *) p, va, vb); \
	RET_META(uatomic_cmpxchg((T *) p, va, vb)); }
#define DEF_CAS_IMM(tn, T) \
static void i_cmpxchg_##tn(void *p, uint64_t a, uint64_t b, int imm, struct out *o) { \
	(void) a; (void) b; \
	switch (imm) { LITS(CASE_CAS, cmpxchg, T) default: abort(); } \
	RET_META(uatomic_cmpxchg((T *) p, 0, 1)); }
/* no operand */
#define DEF_NOARG(tn, T) \
static void n_read_##tn(void *p, uint64_t a, uint64_t b, int imm, struct out *o) { \
	(void) a; (void) b; (void) imm; o->r = (uint64_t) uatomic_read((T *) p); RET_META(uatomic_read((T *) p)); } \
static void n_inc_##tn(void *p, uint64_t a, uint64_t b, int imm, struct out *o) { \
	(void) a; (void) b; (void) imm; uatomic_inc((T *) p); o->r = 0; o->rsz = 0; o->rsg = 0; } \
static void n_dec_##tn(void *p, uint64_t a, uint64_t b, int imm, struct out *o) { \
	(void) a; (void) b; (void) imm; uatomic_dec((T *) p); o->r = 0; o->rsz = 0; o->rsg = 0; }

#define D_xchg(tn, T, on, O) DEF_RET1(xchg, tn, T, on, O)
#define D_add_return(tn, T, on, O) DEF_RET1(add_return, tn, T, on, O)
#define D_sub_return(tn, T, on, O) DEF_RET1(sub_return, tn, T, on, O)
#define D_set(tn, T, on, O) DEF_VOID1(set, tn, T, on, O)
#define D_add(tn, T, on, O) DEF_VOID1(add, tn, T, on, O)
#define D_sub(tn, T, on, O) DEF_VOID1(sub, tn, T, on, O)
#define D_and(tn, T, on, O) DEF_VOID1(and, tn, T, on, O)
#define D_or(tn, T, on, O) DEF_VOID1(or, tn, T, on, O)
FOR_TO(D_xchg) FOR_TO(D_add_return) FOR_TO(D_sub_return) FOR_TO(D_set) FOR_TO(D_add) FOR_TO(D_sub) FOR_TO(D_and) FOR_TO(D_or)
FOR_TO(DEF_CAS)
FOR_T(DEF_NOARG)
#define I_xchg(tn, T) DEF_RET1_IMM(xchg, tn, T)
#define I_add_return(tn, T) DEF_RET1_IMM(add_return, tn, T)
#define I_sub_return(tn, T) DEF_RET1_IMM(sub_return, tn, T)
#define I_set(tn, T) DEF_VOID1_IMM(set, tn, T)
#define I_add(tn, T) DEF_VOID1_IMM(add, tn, T)
#define I_sub(tn, T) DEF_VOID1_IMM(sub, tn, T)
#define I_and(tn, T) DEF_VOID1_IMM(and, tn, T)
#define I_or(tn, T) DEF_VOID1_IMM(or, tn, T)
FOR_T(I_xchg) FOR_T(I_add_return) FOR_T(I_sub_return) FOR_T(I_set) FOR_T(I_add) FOR_T(I_sub) FOR_T(I_and) FOR_T(I_or)
FOR_T(DEF_CAS_IMM)

#define IROW(pfx) { pfx##u8, pfx##s8, pfx##u16, pfx##s16, pfx##u32, pfx##s32, pfx##u64, pfx##s64 }

/* operation numbering = Uatomic!OpNames (1-based) */
enum { OP_SET = 1, OP_READ, OP_XCHG, OP_CMPXCHG, OP_ADD_RETURN, OP_SUB_RETURN, OP_ADD, OP_SUB, OP_INC, OP_DEC, OP_AND, OP_OR, NOPS = OP_OR };
static const char *opname[NOPS + 1] = { "?", "set", "read", "xchg", "cmpxchg", "add_return", "sub_return", "add", "sub", "inc", "dec", "and", "or" };

static opfn tab2[NOPS + 1][8][8] = {
	[OP_SET] = TABLE(f_set_), [OP_XCHG] = TABLE(f_xchg_), [OP_CMPXCHG] = TABLE(f_cmpxchg_),
	[OP_ADD_RETURN] = TABLE(f_add_return_), [OP_SUB_RETURN] = TABLE(f_sub_return_),
	[OP_ADD] = TABLE(f_add_), [OP_SUB] = TABLE(f_sub_), [OP_AND] = TABLE(f_and_), [OP_OR] = TABLE(f_or_),
};
static opfn tab1[NOPS + 1][8] = {
	[OP_READ] = IROW(n_read_), [OP_INC] = IROW(n_inc_), [OP_DEC] = IROW(n_dec_),
};
static opfn tabi[NOPS + 1][8] = {
	[OP_SET] = IROW(i_set_), [OP_XCHG] = IROW(i_xchg_), [OP_CMPXCHG] = IROW(i_cmpxchg_),
	[OP_ADD_RETURN] = IROW(i_add_return_), [OP_SUB_RETURN] = IROW(i_sub_return_),
	[OP_ADD] = IROW(i_add_), [OP_SUB] = IROW(i_sub_), [OP_AND] = IROW(i_and_), [OP_OR] = IROW(i_or_),
};

static int log2w(int w) { return w == 1 ? 0 : w == 2 ? 1 : w == 4 ? 2 : w == 8 ? 3 : -1; }

/* ------------------------------------------------------------------ helpers */
static void jbytes(FILE *f, const char *key, const unsigned char *b, int n)
{
	fprintf(f, "\"%s\":[", key);
	for (int i = 0; i < n; i++)
		fprintf(f, "%s%u", i ? "," : "", b[i]);
	fputc(']', f);
}
static void le64(uint64_t v, unsigned char *b) { for (int i = 0; i < 8; i++) b[i] = (unsigned char)(v >> (8 * i)); }
static uint64_t from_le(const unsigned char *b, int n) { uint64_t v = 0; for (int i = 0; i < n; i++) v |= (uint64_t) b[i] << (8 * i); return v; }
static void die(const char *m) { fprintf(stderr, "d_uatomic: %s\n", m); exit(2); }

#define GUARD 64
/* The 16-byte memory image of a vector is executed at two placements inside  [none | rw | none | rw | none]  pages:
 *   A: the last 16 bytes of a read-write page, followed by an inaccessible page (64 value-guard bytes before it);
 *   B: the first 16 bytes of a read-write page, preceded by an inaccessible page (64 value-guard bytes after it).
 * An operation that reads or writes bytes outside its operand ("touches neighbouring bytes", even with unchanged values) faults on
 * one of them when the operand is the last / first object of the image; the fault is reported as a mismatch of the vector. */
#include <sys/mman.h>
#include <setjmp.h>
#include <signal.h>
static unsigned char *imgA, *imgB;
static sigjmp_buf vjb; static volatile sig_atomic_t varmed;
static void on_vfault(int sig) { if (varmed) { varmed = 0; siglongjmp(vjb, sig); } signal(sig, SIG_DFL); raise(sig); }
static void place_init(void)
{
	long ps = sysconf(_SC_PAGESIZE);
	unsigned char *r = mmap(NULL, 5 * ps, PROT_NONE, MAP_PRIVATE | MAP_ANONYMOUS, -1, 0);
	if (r == MAP_FAILED || mprotect(r + ps, ps, PROT_READ | PROT_WRITE) || mprotect(r + 3 * ps, ps, PROT_READ | PROT_WRITE)) { perror("d_uatomic: guard pages"); exit(2); }
	imgA = r + 2 * ps - 16; imgB = r + 3 * ps;
	struct sigaction sa; memset(&sa, 0, sizeof sa); sa.sa_handler = on_vfault; sa.sa_flags = SA_NODEFER;
	sigaction(SIGSEGV, &sa, NULL); sigaction(SIGBUS, &sa, NULL);
}

/* ------------------------------------------------------------------ vector mode */
static int run_vectors(const char *vpath, const char *lpath)
{
	FILE *vf = fopen(vpath, "r"), *lf = fopen(lpath, "w");
	char *line = NULL; size_t cap = 0; long idx = 0, bad = 0;
	if (!vf || !lf) die("cannot open vector or log file");
	place_init();
	setvbuf(lf, NULL, _IOFBF, 1 << 20);
	while (getline(&line, &cap, vf) > 0) {
		long v[64]; int n = 0; char *s = line, *e;
		for (;;) { long x = strtol(s, &e, 10); if (e == s) break; if (n < 64) v[n] = x; n++; s = e; }
		if (n == 0) continue;
		if (n != 64) die("malformed vector line");
		idx++;
		int op = v[0], w = v[1], off = v[2], ts = v[3], ow = v[4], os = v[5], imm = v[6];
		unsigned char a[8], b[8], m0[16], em1[16], er[8], m1[16], rb[8];
		for (int i = 0; i < 8; i++) { a[i] = v[7 + i]; b[i] = v[15 + i]; er[i] = v[56 + i]; }
		for (int i = 0; i < 16; i++) { m0[i] = v[23 + i]; em1[i] = v[39 + i]; }
		int hasret = v[55];
		if (op < 1 || op > NOPS || log2w(w) < 0 || log2w(ow) < 0 || off < 0 || off + w > 16 || off % w || imm < 0 || imm > NLITS) die("vector out of range");
		opfn fn;
		int ti = 2 * log2w(w) + (ts ? 1 : 0), oi = 2 * log2w(ow) + (os ? 1 : 0);
		if (imm) {
			if (lit_val[imm] != (from_le(a, 8) | (ow < 8 && os && (a[ow - 1] & 0x80) ? ~0UL << (8 * ow) : 0)) || lit_sz[imm] != ow || lit_sg[imm] != os)
				die("literal table of the driver differs from Lits of UatomicVec.tla");
			fn = tabi[op][ti];
		} else
			fn = tab1[op][ti] ? tab1[op][ti] : tab2[op][ti][oi];
		if (!fn) die("no instantiation for vector");
		struct out o = { 0, 0, 0 }, o2 = { 0, 0, 0 };
		volatile int g = 1, fault = 0; unsigned char m2[16];
		/* placement A */
		memset(imgA - GUARD, 0xA5, GUARD); memcpy(imgA, m0, 16);
		__asm__ __volatile__("" ::: "memory");
		if (!sigsetjmp(vjb, 1)) { varmed = 1; fn(imgA + off, from_le(a, 8), from_le(b, 8), imm, &o); varmed = 0; } else { fault = 1; g = 0; }
		__asm__ __volatile__("" ::: "memory");
		memcpy(m1, imgA, 16);
		for (int i = 1; i <= GUARD; i++) if (imgA[-i] != 0xA5) g = 0;
		/* placement B: same vector, same expectation */
		memset(imgB + 16, 0x5A, GUARD); memcpy(imgB, m0, 16);
		__asm__ __volatile__("" ::: "memory");
		if (!sigsetjmp(vjb, 1)) { varmed = 1; fn(imgB + off, from_le(a, 8), from_le(b, 8), imm, &o2); varmed = 0; } else { fault = 2; g = 0; }
		__asm__ __volatile__("" ::: "memory");
		memcpy(m2, imgB, 16);
		for (int i = 0; i < GUARD; i++) if (imgB[16 + i] != 0x5A) g = 0;
		if (memcmp(m1, m2, 16) || o.r != o2.r || o.rsz != o2.rsz || o.rsg != o2.rsg) g = 0;	/* result depends on the placement */
		le64(o.r, rb);
		fprintf(lf, "{\"i\":%ld,\"op\":\"%s\",\"w\":%d,\"off\":%d,\"ts\":%d,\"ow\":%d,\"os\":%d,\"imm\":%d,", idx, opname[op], w, off, ts, ow, os, imm);
		jbytes(lf, "a", a, 8); fputc(',', lf); jbytes(lf, "b", b, 8); fputc(',', lf);
		jbytes(lf, "m0", m0, 16); fputc(',', lf); jbytes(lf, "m1", m1, 16); fputc(',', lf);
		jbytes(lf, "r", rb, 8);
		fprintf(lf, ",\"rsz\":%d,\"rsg\":%d,\"g\":%d}\n", o.rsz, o.rsg, g);
		/* spec -> code: compare with the expectation the specification computed */
		int ok = g && !memcmp(m1, em1, 16) && (!hasret || !memcmp(rb, er, 8)) && (hasret ? (o.rsz == w && o.rsg == ts) : o.rsz == 0);
		if (!ok) {
			if (bad++ < 20) {
				printf("MISMATCH impl=%s vector=%ld op=%s w=%d off=%d ts=%d ow=%d os=%d imm=%d a=%016lx b=%016lx old=%0*lx", IMPL, idx, opname[op], w, off, ts, ow, os, imm,
				       (unsigned long) from_le(a, 8), (unsigned long) from_le(b, 8), 2 * w, (unsigned long) from_le(m0 + off, w));
				if (fault) printf(" FAULT: the operation accessed memory outside its %d-byte operand (inaccessible page %s the image)", w, fault == 1 ? "after" : "before");
				printf(" got: new=%0*lx ret=%016lx rsz=%d rsg=%d guard=%d", 2 * w, (unsigned long) from_le(m1 + off, w), (unsigned long) o.r, o.rsz, o.rsg, g);
				printf(" expected: new=%0*lx ret=%016lx%s rsz=%d rsg=%d neighbours_%s\n", 2 * w, (unsigned long) from_le(em1 + off, w), (unsigned long) from_le(er, 8), hasret ? "" : "(void)", hasret ? w : 0, hasret ? ts : 0,
				       (!memcmp(m1, em1, off) && !memcmp(m1 + off + w, em1 + off + w, 16 - off - w)) ? "intact" : "CLOBBERED");
			}
		}
	}
	fclose(lf); fclose(vf);
	printf("VECTORS impl=%s executed=%ld mismatches=%ld\n", IMPL, idx, bad);
	return bad ? 3 : 0;
}

/* ------------------------------------------------------------------ hammer */
#define NTHR 8
static struct { unsigned char pad0[64]; unsigned char m[16]; unsigned char pad1[64]; } __attribute__((aligned(64))) hb;
struct lvar { volatile int v; char pad[60]; } __attribute__((aligned(64)));
static struct lvar bar_count, bar_sense;
static int ncpus_allowed, cpus_allowed[256];

/* sense-reversing spin barrier on compiler builtins (independent of the macros under test) */
static void bar_wait(int n, int *local_sense)
{
	int s = !*local_sense; *local_sense = s;
	if (__atomic_add_fetch(&bar_count.v, 1, __ATOMIC_SEQ_CST) == n) {
		__atomic_store_n(&bar_count.v, 0, __ATOMIC_SEQ_CST);
		__atomic_store_n(&bar_sense.v, s, __ATOMIC_SEQ_CST);
	} else {
		unsigned long spins = 0;
		while (__atomic_load_n(&bar_sense.v, __ATOMIC_SEQ_CST) != s)
			if (++spins > 2000) { sched_yield(); }
			else __asm__ __volatile__("pause");
	}
}
static void pin(int k)
{
	if (ncpus_allowed >= 2) {
		cpu_set_t s; CPU_ZERO(&s); CPU_SET(cpus_allowed[k % ncpus_allowed], &s);
		pthread_setaffinity_np(pthread_self(), sizeof s, &s);
	}
}

/* width-dispatched calls of the macros under test (unsigned for widths 1 and 4, signed for 2 and 8) */
static inline uint64_t h_add_return(void *p, int w, uint64_t d) {
	switch (w) { case 1: return (unsigned char) uatomic_add_return((unsigned char *) p, d); case 2: return (unsigned short) uatomic_add_return((short *) p, d);
	case 4: return uatomic_add_return((unsigned int *) p, d); default: return uatomic_add_return((long *) p, d); } }
static inline uint64_t h_sub_return(void *p, int w, uint64_t d) {
	switch (w) { case 1: return (unsigned char) uatomic_sub_return((unsigned char *) p, d); case 2: return (unsigned short) uatomic_sub_return((short *) p, d);
	case 4: return uatomic_sub_return((unsigned int *) p, d); default: return uatomic_sub_return((long *) p, d); } }
static inline uint64_t h_xchg(void *p, int w, uint64_t d) {
	switch (w) { case 1: return (unsigned char) uatomic_xchg((unsigned char *) p, d); case 2: return (unsigned short) uatomic_xchg((short *) p, d);
	case 4: return uatomic_xchg((unsigned int *) p, d); default: return uatomic_xchg((long *) p, d); } }
static inline uint64_t h_cmpxchg(void *p, int w, uint64_t o, uint64_t n) {
	switch (w) { case 1: return (unsigned char) uatomic_cmpxchg((unsigned char *) p, o, n); case 2: return (unsigned short) uatomic_cmpxchg((short *) p, o, n);
	case 4: return uatomic_cmpxchg((unsigned int *) p, o, n); default: return uatomic_cmpxchg((long *) p, o, n); } }
static inline uint64_t h_read(void *p, int w) {
	switch (w) { case 1: return uatomic_read((unsigned char *) p); case 2: return (unsigned short) uatomic_read((short *) p);
	case 4: return uatomic_read((unsigned int *) p); default: return uatomic_read((long *) p); } }
#define H_VOID1(op) static inline void h_##op(void *p, int w, uint64_t d) { \
	switch (w) { case 1: uatomic_##op((unsigned char *) p, d); break; case 2: uatomic_##op((short *) p, d); break; \
	case 4: uatomic_##op((unsigned int *) p, d); break; default: uatomic_##op((long *) p, d); break; } }
H_VOID1(add) H_VOID1(sub) H_VOID1(and) H_VOID1(or)
#define H_VOID0(op) static inline void h_##op(void *p, int w) { \
	switch (w) { case 1: uatomic_##op((unsigned char *) p); break; case 2: uatomic_##op((short *) p); break; \
	case 4: uatomic_##op((unsigned int *) p); break; default: uatomic_##op((long *) p); break; } }
H_VOID0(inc) H_VOID0(dec)

enum { K_ADDRET, K_SUBRET, K_CASINC, K_XCHG, K_ADD, K_SUB, K_INC, K_DEC, K_BITS, K_XTOK };
static const char *kname[] = { "add_return", "sub_return", "cmpxchg", "xchg", "add", "sub", "inc", "dec", "bits", "xchg" };

struct hjob {                 /* one thread's part of an experiment */
	int kind, w, off, iters, tidx, nthr_all;
	uint64_t d, mask, tok0;
	uint64_t *res;        /* iters results (returned values), or NULL */
	uint64_t fails, held;
};
static struct hjob jobs[NTHR];
static int h_nthr;

static void *hammer_thread(void *arg)
{
	struct hjob *j = arg; int sense = 0;
	void *p = hb.m + j->off; int w = j->w; uint64_t d = j->d, m = j->mask;
	pin(j->tidx);
	bar_wait(h_nthr + 1, &sense);          /* everybody (and main) ready */
	bar_wait(h_nthr + 1, &sense);          /* go */
	switch (j->kind) {
	case K_ADDRET: for (int i = 0; i < j->iters; i++) { uint64_t r = h_add_return(p, w, d); if (j->res) j->res[i] = r & m; } break;
	case K_SUBRET: for (int i = 0; i < j->iters; i++) { uint64_t r = h_sub_return(p, w, d); if (j->res) j->res[i] = r & m; } break;
	case K_CASINC:
		for (int i = 0; i < j->iters; i++) {
			uint64_t o, r;
			for (;;) {
				o = h_read(p, w) & m;
				r = h_cmpxchg(p, w, o, (o + d) & m) & m;
				if (r == o) break;
				j->fails++;
			}
			if (j->res) j->res[i] = r;
		}
		break;
	case K_XCHG:                            /* unique tokens put, previous content returned */
		for (int i = 0; i < j->iters; i++) { uint64_t r = h_xchg(p, w, (j->tok0 + i) & m); if (j->res) j->res[i] = r & m; }
		break;
	case K_XTOK:                            /* token passing: swap the held token with the location's */
		{ uint64_t held = j->tok0; for (int i = 0; i < j->iters; i++) held = h_xchg(p, w, held) & m; j->held = held; }
		break;
	case K_ADD: for (int i = 0; i < j->iters; i++) h_add(p, w, d); break;
	case K_SUB: for (int i = 0; i < j->iters; i++) h_sub(p, w, d); break;
	case K_INC: for (int i = 0; i < j->iters; i++) h_inc(p, w); break;
	case K_DEC: for (int i = 0; i < j->iters; i++) h_dec(p, w); break;
	case K_BITS:                            /* set / clear one's own bit; even threads end set, odd threads end cleared */
		for (int i = 0; i < j->iters; i++) { h_or(p, w, d); h_and(p, w, ~d); }
		if (!(j->tidx & 1)) h_or(p, w, d);
		break;
	}
	bar_wait(h_nthr + 1, &sense);          /* done */
	return NULL;
}

static uint64_t rng_state;
static uint64_t rnd(void) { rng_state = rng_state * 6364136223846793005ULL + 1442695040888963407ULL; return rng_state >> 24; }
static uint64_t wmask(int w) { return w == 8 ? ~0ULL : ((1ULL << (8 * w)) - 1); }

static void run_jobs(int n)
{
	pthread_t th[NTHR]; int sense = 0;
	h_nthr = n; bar_count.v = 0; bar_sense.v = 0;
	for (int i = 0; i < n; i++) if (pthread_create(&th[i], NULL, hammer_thread, &jobs[i])) die("pthread_create");
	bar_wait(n + 1, &sense); bar_wait(n + 1, &sense); bar_wait(n + 1, &sense);
	for (int i = 0; i < n; i++) pthread_join(th[i], NULL);
}

static void jval(FILE *f, const char *key, uint64_t v, int w) { unsigned char b[8]; le64(v, b); jbytes(f, key, b, w); }
static int cmp_u64(const void *a, const void *b) { uint64_t x = *(const uint64_t *) a, y = *(const uint64_t *) b; return x < y ? -1 : x > y; }

/* run-length summary of a sorted multiset: maximal runs of values v, v+1, ... (as w-byte unsigned) with equal multiplicity */
static void jruns(FILE *f, uint64_t *v, long n, int w)
{
	qsort(v, n, sizeof *v, cmp_u64);
	fprintf(f, "\"runs\":[");
	long i = 0; int first = 1, nruns = 0;
	uint64_t run_lo = 0, run_len = 0, run_mult = 0, prev = 0;
	while (i < n) {
		long k = i; while (k < n && v[k] == v[i]) k++;
		uint64_t mult = k - i;
		if (run_len && v[i] == prev + 1 && mult == run_mult) run_len++;
		else {
			if (run_len && nruns++ < 64) { fprintf(f, "%s{", first ? "" : ","); first = 0; jval(f, "lo", run_lo, w); fprintf(f, ",\"len\":%lu,\"mult\":%lu}", (unsigned long) run_len, (unsigned long) run_mult); }
			run_lo = v[i]; run_len = 1; run_mult = mult;
		}
		prev = v[i]; i = k;
	}
	if (run_len && nruns++ < 64) { fprintf(f, "%s{", first ? "" : ","); jval(f, "lo", run_lo, w); fprintf(f, ",\"len\":%lu,\"mult\":%lu}", (unsigned long) run_len, (unsigned long) run_mult); }
	fprintf(f, "],\"nruns\":%d", nruns);
}

/* One experiment: `nloc' adjacent locations of width w starting at off, threads split evenly over them.
 * detail = 1: every returned value is logged (small instance, decided exhaustively by TLC);
 * detail = 0: results summarised as sorted runs (big instance). */
static void experiment(FILE *lf, int kind, int w, int off, int nloc, int iters, int detail, const uint64_t *init, const uint64_t *dd)
{
	unsigned char m0[16], m1[16];
	int per = NTHR / nloc; uint64_t m = wmask(w);
	for (int i = 0; i < 16; i++) hb.m[i] = 1 + rnd() % 253;
	for (int l = 0; l < nloc; l++) { unsigned char b[8]; le64(init[l] & m, b); memcpy(hb.m + off + l * w, b, w); }
	memset(hb.pad0, 0xA5, 64); memset(hb.pad1, 0x5A, 64);
	memcpy(m0, hb.m, 16);
	int returns = kind == K_ADDRET || kind == K_SUBRET || kind == K_CASINC || kind == K_XCHG;
	for (int t = 0; t < NTHR; t++) {
		struct hjob *j = &jobs[t]; int l = t / per, ti = t % per;
		memset(j, 0, sizeof *j);
		j->kind = kind; j->w = w; j->off = off + l * w; j->iters = iters; j->tidx = t; j->mask = m;
		j->d = dd[l] & m;
		if (kind == K_BITS) j->d = 1ULL << ((ti * w * 8) / per + (int)(dd[l] % w));          /* one private bit per thread */
		if (kind == K_XCHG) j->tok0 = (init[l] + 1 + (uint64_t) ti * iters) & m;             /* unique tokens init+1 .. init+per*iters */
		if (kind == K_XTOK) j->tok0 = (init[l] + 1 + ti) & m;
		if (returns) { j->res = calloc(iters, sizeof(uint64_t)); if (!j->res) die("oom"); }
	}
	run_jobs(NTHR);
	memcpy(m1, hb.m, 16);
	int g = 1; for (int i = 0; i < 64; i++) if (hb.pad0[i] != 0xA5 || hb.pad1[i] != 0x5A) g = 0;
	fprintf(lf, "{\"k\":\"%s\",\"impl\":\"%s\",\"op\":\"%s\",\"w\":%d,\"iters\":%d,\"g\":%d,", kind == K_XTOK ? "tokens" : kind == K_BITS ? "bits" : !returns ? "void" : detail ? "rmw" : "big",
		IMPL, kname[kind], w, iters, g);
	jbytes(lf, "m0", m0, 16); fputc(',', lf); jbytes(lf, "m1", m1, 16);
	fprintf(lf, ",\"locs\":[");
	for (int l = 0; l < nloc; l++) {
		fprintf(lf, "%s{\"off\":%d,\"n\":%d,", l ? "," : "", off + l * w, per);
		jval(lf, "init", init[l] & m, w); fputc(',', lf); jval(lf, "d", jobs[l * per].d, w);
		if (kind == K_BITS) { fprintf(lf, ",\"bit\":["); for (int t = 0; t < per; t++) { fprintf(lf, "%s", t ? "," : ""); unsigned char b[8]; le64(jobs[l * per + t].d, b); fputc('[', lf); for (int i = 0; i < w; i++) fprintf(lf, "%s%u", i ? "," : "", b[i]); fputc(']', lf); } fprintf(lf, "]"); }
		if (kind == K_XTOK) {
			fprintf(lf, ",\"tok0\":["); for (int t = 0; t < per; t++) { unsigned char b[8]; le64(jobs[l * per + t].tok0, b); fprintf(lf, "%s[", t ? "," : ""); for (int i = 0; i < w; i++) fprintf(lf, "%s%u", i ? "," : "", b[i]); fputc(']', lf); }
			fprintf(lf, "],\"tok1\":["); for (int t = 0; t < per; t++) { unsigned char b[8]; le64(jobs[l * per + t].held, b); fprintf(lf, "%s[", t ? "," : ""); for (int i = 0; i < w; i++) fprintf(lf, "%s%u", i ? "," : "", b[i]); fputc(']', lf); }
			fprintf(lf, "]");
		}
		if (returns && detail) {
			fprintf(lf, ",\"res\":[");
			for (int t = 0; t < per; t++) {
				fprintf(lf, "%s[", t ? "," : "");
				for (int i = 0; i < iters; i++) { unsigned char b[8]; le64(jobs[l * per + t].res[i], b); fprintf(lf, "%s[", i ? "," : ""); for (int q = 0; q < w; q++) fprintf(lf, "%s%u", q ? "," : "", b[q]); fputc(']', lf); }
				fputc(']', lf);
			}
			fprintf(lf, "]");
			if (kind == K_XCHG) {
				fprintf(lf, ",\"put\":[");
				for (int t = 0; t < per; t++) {
					fprintf(lf, "%s[", t ? "," : "");
					for (int i = 0; i < iters; i++) { unsigned char b[8]; le64((jobs[l * per + t].tok0 + i) & m, b); fprintf(lf, "%s[", i ? "," : ""); for (int q = 0; q < w; q++) fprintf(lf, "%s%u", q ? "," : "", b[q]); fputc(']', lf); }
					fputc(']', lf);
				}
				fprintf(lf, "]");
			}
		} else if (returns) {
			long tot = (long) per * iters; uint64_t *all = malloc(tot * sizeof *all); if (!all) die("oom");
			for (int t = 0; t < per; t++) memcpy(all + (long) t * iters, jobs[l * per + t].res, iters * sizeof *all);
			fputc(',', lf); jruns(lf, all, tot, w); free(all);
		}
		uint64_t fails = 0; for (int t = 0; t < per; t++) fails += jobs[l * per + t].fails;
		fprintf(lf, ",\"fails\":%lu,", (unsigned long)(fails > 2000000000UL ? 2000000000UL : fails));
		jbytes(lf, "final", m1 + off + l * w, w);
		fputc('}', lf);
	}
	fprintf(lf, "]}\n");
	for (int t = 0; t < NTHR; t++) free(jobs[t].res);
}

/* ------------------------------------------------------------------ store-buffering litmus */
static struct lvar sb_x, sb_y, sb_z[2], sb_r[2];
static long sb_iters; static int sb_op;
enum { SB_NONE, SB_XCHG, SB_CMPXCHG, SB_ADDRET, SB_SUBRET, SB_NOPS, SB_ADDRET0 = SB_NOPS, SB_SUBRET0, SB_NOPS_ALL };
static const char *sbname[] = { "none", "xchg", "cmpxchg", "add_return", "sub_return", "add_return0", "sub_return0" };
static volatile int sb_zero;	/* run-time operand 0: add_return / sub_return must be full barriers for EVERY operand value */
static long sb_cnt[4];

static void *sb_thread(void *arg)
{
	int me = (int)(long) arg, sense = 0;
	volatile int *mine = me ? &sb_y.v : &sb_x.v, *other = me ? &sb_x.v : &sb_y.v;
	int *z = (int *) &sb_z[me].v;
	pin(me);
	for (long i = 0; i < sb_iters; i++) {
		int r;
		bar_wait(2, &sense);
		switch (sb_op) {          /* store mine; <op on a private location>; load other */
		case SB_NONE:    CMM_STORE_SHARED(*mine, 1); cmm_barrier(); r = CMM_LOAD_SHARED(*other); break;
		case SB_XCHG:    CMM_STORE_SHARED(*mine, 1); (void) uatomic_xchg(z, (int) i); r = CMM_LOAD_SHARED(*other); break;
		case SB_CMPXCHG: { int o = *z; CMM_STORE_SHARED(*mine, 1); if (uatomic_cmpxchg(z, o, o + 1) != o) abort(); r = CMM_LOAD_SHARED(*other); break; }
		case SB_ADDRET:  CMM_STORE_SHARED(*mine, 1); (void) uatomic_add_return(z, 3); r = CMM_LOAD_SHARED(*other); break;
		case SB_SUBRET:  CMM_STORE_SHARED(*mine, 1); (void) uatomic_sub_return(z, 5); r = CMM_LOAD_SHARED(*other); break;
		case SB_ADDRET0: { int zero = sb_zero; CMM_STORE_SHARED(*mine, 1); (void) uatomic_add_return(z, zero); r = CMM_LOAD_SHARED(*other); break; }
		default:         { int zero = sb_zero; CMM_STORE_SHARED(*mine, 1); (void) uatomic_sub_return(z, zero); r = CMM_LOAD_SHARED(*other); break; }
		}
		sb_r[me].v = r;
		bar_wait(2, &sense);
		if (me == 0) {
			sb_cnt[(sb_r[0].v ? 2 : 0) + (sb_r[1].v ? 1 : 0)]++;
			sb_x.v = 0; sb_y.v = 0;
		}
	}
	return NULL;
}

static void litmus(FILE *lf, int op, long iters)
{
	pthread_t th[2];
	sb_op = op; sb_iters = iters; memset(sb_cnt, 0, sizeof sb_cnt);
	sb_x.v = sb_y.v = 0; bar_count.v = 0; bar_sense.v = 0;
	for (long i = 0; i < 2; i++) if (pthread_create(&th[i], NULL, sb_thread, (void *) i)) die("pthread_create");
	for (int i = 0; i < 2; i++) pthread_join(th[i], NULL);
	fprintf(lf, "{\"k\":\"sb\",\"impl\":\"%s\",\"op\":\"%s\",\"iters\":%ld,\"n00\":%ld,\"n01\":%ld,\"n10\":%ld,\"n11\":%ld}\n",
		IMPL, sbname[op], iters, sb_cnt[0], sb_cnt[1], sb_cnt[2], sb_cnt[3]);
}

/* ------------------------------------------------------------------ compiler-barrier litmus
 * The fencing read-modify-writes must also order the CALLER'S PLAIN accesses (x86 asm: "memory" clobber; builtins: seq_cst).
 * A poller reads a plain counter inside a critical section of a lock built from the operation alone; no call, no volatile and
 * no other barrier is in its loop, so if the compiler may keep the plain load in a register across the operation the poller
 * never observes the final value and gives up after CB_MAXIT iterations (done = 0). */
#define CB_N 20000L
#define CB_MAXIT 60000000L
static int cb_lock __attribute__((aligned(64))); static long cb_counter __attribute__((aligned(64))); static int cb_op __attribute__((aligned(64)));
#define CB_SPIN() do { } while (0)	/* nothing that could act as a compiler barrier */
static inline __attribute__((always_inline)) void cb_acquire(int op)
{
	switch (op) {
	case SB_XCHG:    while (uatomic_xchg(&cb_lock, 1)) CB_SPIN(); break;
	case SB_CMPXCHG: while (uatomic_cmpxchg(&cb_lock, 0, 1) != 0) CB_SPIN(); break;
	case SB_ADDRET:  while (uatomic_add_return(&cb_lock, 1) != 1) { (void) uatomic_sub_return(&cb_lock, 1); CB_SPIN(); } break;
	default:         while (uatomic_sub_return(&cb_lock, 1) != -1) { (void) uatomic_add_return(&cb_lock, 1); CB_SPIN(); } break;
	}
}
static inline __attribute__((always_inline)) void cb_release(int op)
{
	switch (op) {
	case SB_XCHG:    (void) uatomic_xchg(&cb_lock, 0); break;
	case SB_CMPXCHG: (void) uatomic_cmpxchg(&cb_lock, 1, 0); break;
	case SB_ADDRET:  (void) uatomic_sub_return(&cb_lock, 1); break;
	default:         (void) uatomic_add_return(&cb_lock, 1); break;
	}
}
#define CB_WORKER(NAME, OP) static void *NAME(void *arg) { (void) arg; for (long i = 0; i < CB_N; i++) { cb_acquire(OP); cb_counter++; cb_release(OP); } return NULL; }
#define CB_POLLER(NAME, OP) static long NAME(void) { long it; for (it = 0; it < CB_MAXIT; it++) { long v; cb_acquire(OP); v = cb_counter; cb_release(OP); if (v == 2 * CB_N) return it; } return -1; }
CB_WORKER(cb_w_xchg, SB_XCHG) CB_WORKER(cb_w_cas, SB_CMPXCHG) CB_WORKER(cb_w_add, SB_ADDRET) CB_WORKER(cb_w_sub, SB_SUBRET)
CB_POLLER(cb_p_xchg, SB_XCHG) CB_POLLER(cb_p_cas, SB_CMPXCHG) CB_POLLER(cb_p_add, SB_ADDRET) CB_POLLER(cb_p_sub, SB_SUBRET)
static void cb_litmus(FILE *lf, int op)
{
	static void *(*const w[])(void *) = { NULL, cb_w_xchg, cb_w_cas, cb_w_add, cb_w_sub };
	static long (*const pl[])(void) = { NULL, cb_p_xchg, cb_p_cas, cb_p_add, cb_p_sub };
	pthread_t th[2]; long it;
	cb_lock = 0; cb_counter = 0; cb_op = op;
	for (int i = 0; i < 2; i++) if (pthread_create(&th[i], NULL, w[op], NULL)) die("pthread_create");
	it = pl[op]();
	for (int i = 0; i < 2; i++) pthread_join(th[i], NULL);
	fprintf(lf, "{\"k\":\"cb\",\"impl\":\"%s\",\"op\":\"%s\",\"done\":%d,\"final\":%ld,\"expect\":%ld}\n", IMPL, sbname[op], it >= 0, cb_counter, 2 * CB_N);
}

/* ------------------------------------------------------------------ plain store followed by a void read-modify-write
 * "g = init; uatomic_op(&g, d);" on a static and on an automatic variable, in one optimised function: the operation must act on the
 * value the plain C assignment stored (the asm must declare its memory operand read-write; an output-only operand lets the compiler
 * delete the assignment as a dead store).  One record per op x width x storage class, judged by Uatomic!Sem. */
#define PS_INIT 0x5a
#define PS_D 0x0d
#define PS_FN(NAME, T, OPCALL_S, OPCALL_L) \
	static T NAME##_g; \
	static __attribute__((noinline)) uint64_t NAME##_s(void) { NAME##_g = (T) PS_INIT; OPCALL_S; return (uint64_t) NAME##_g; } \
	static __attribute__((noinline)) uint64_t NAME##_l(void) { T l = (T) PS_INIT; OPCALL_L; return (uint64_t) l; }
#define PS_ALL(T, W) \
	PS_FN(ps_add_##W, T, uatomic_add(&ps_add_##W##_g, PS_D), uatomic_add(&l, PS_D)) \
	PS_FN(ps_sub_##W, T, uatomic_sub(&ps_sub_##W##_g, PS_D), uatomic_sub(&l, PS_D)) \
	PS_FN(ps_inc_##W, T, uatomic_inc(&ps_inc_##W##_g), uatomic_inc(&l)) \
	PS_FN(ps_dec_##W, T, uatomic_dec(&ps_dec_##W##_g), uatomic_dec(&l)) \
	PS_FN(ps_and_##W, T, uatomic_and(&ps_and_##W##_g, PS_D), uatomic_and(&l, PS_D)) \
	PS_FN(ps_or_##W, T, uatomic_or(&ps_or_##W##_g, PS_D), uatomic_or(&l, PS_D))
PS_ALL(unsigned char, 1) PS_ALL(unsigned short, 2) PS_ALL(unsigned int, 4) PS_ALL(unsigned long, 8)
static void ps_one(FILE *lf, const char *op, int w, const char *sc, uint64_t res)
{
	fprintf(lf, "{\"k\":\"ps\",\"impl\":\"%s\",\"op\":\"%s\",\"w\":%d,\"sc\":\"%s\",", IMPL, op, w, sc);
	jval(lf, "init", PS_INIT, w); fputc(',', lf); jval(lf, "d", PS_D, w); fputc(',', lf); jval(lf, "res", res, w); fputs("}\n", lf);
}
#define PS_RUN(W) \
	ps_one(lf, "add", W, "static", ps_add_##W##_s()); ps_one(lf, "add", W, "auto", ps_add_##W##_l()); \
	ps_one(lf, "sub", W, "static", ps_sub_##W##_s()); ps_one(lf, "sub", W, "auto", ps_sub_##W##_l()); \
	ps_one(lf, "inc", W, "static", ps_inc_##W##_s()); ps_one(lf, "inc", W, "auto", ps_inc_##W##_l()); \
	ps_one(lf, "dec", W, "static", ps_dec_##W##_s()); ps_one(lf, "dec", W, "auto", ps_dec_##W##_l()); \
	ps_one(lf, "and", W, "static", ps_and_##W##_s()); ps_one(lf, "and", W, "auto", ps_and_##W##_l()); \
	ps_one(lf, "or", W, "static", ps_or_##W##_s()); ps_one(lf, "or", W, "auto", ps_or_##W##_l());
static void plain_store_then_op(FILE *lf) { PS_RUN(1) PS_RUN(2) PS_RUN(4) PS_RUN(8) }

static int run_hammer(uint64_t seed, const char *lpath, int scale)
{
	FILE *lf = fopen(lpath, "w");
	if (!lf) die("cannot open log file");
	rng_state = seed * 2654435761ULL + 12345; rnd(); rnd();
	cpu_set_t cs;
	if (!sched_getaffinity(0, sizeof cs, &cs))
		for (int c = 0; c < CPU_SETSIZE && ncpus_allowed < 256; c++) if (CPU_ISSET(c, &cs)) cpus_allowed[ncpus_allowed++] = c;
	static const int widths[4] = { 1, 2, 4, 8 };
	static const int rkinds[4] = { K_ADDRET, K_SUBRET, K_CASINC, K_XCHG };
	int rounds = scale > 1 ? 6 : 2;
	/* small instances, every returned value logged: 8 threads x 30 operations = 240 < 2^8 results per location */
	for (int wi = 0; wi < 4; wi++) for (int ki = 0; ki < 4; ki++) for (int r = 0; r < rounds; r++) for (int nloc = 1; nloc <= 2; nloc++) {
		int w = widths[wi], kind = rkinds[ki], iters = 30 * nloc;     /* per location: (8 / nloc) threads x iters = 240 */
		int off = w * (int)(rnd() % (16 / w - (nloc - 1)));
		uint64_t init[2], dd[2];
		for (int l = 0; l < 2; l++) {
			if (r == 0) {         /* carries / borrows ripple through every byte and across the sign boundary */
				init[l] = kind == K_SUBRET ? ((1ULL << (8 * w - 1)) | 0x70) : ((wmask(w) >> 1) & ~0xffULL) | 0x90;
				if (w == 1) init[l] = kind == K_SUBRET ? 0x70 : 0x90;
				dd[l] = 1;
			} else { init[l] = rnd() ^ (rnd() << 32); dd[l] = (rnd() ^ (rnd() << 32)) | 1; }       /* odd step: 240 distinct partial sums */
		}
		if (kind == K_CASINC || kind == K_XCHG) dd[0] = dd[1] = 1;
		experiment(lf, kind, w, off, nloc, iters, 1, init, dd);
	}
	/* big instances: 8 x 65536 operations on one location, or 4 x 131072 on each of two adjacent ones */
	for (int wi = 0; wi < 4; wi++) for (int ki = 0; ki < 3; ki++) for (int nloc = 1; nloc <= 2; nloc++) for (int r = 0; r < scale; r++) {
		int w = widths[wi], kind = rkinds[ki];
		int off = w * (int)(rnd() % (16 / w - (nloc - 1)));
		uint64_t init[2], dd[2] = { 1, 1 };
		for (int l = 0; l < 2; l++) {
			uint64_t x = rnd() ^ (rnd() << 32);
			if (w == 8) x = (x & 0xffffff7f0000ffffULL) | 0x00000000ffff0000ULL | (1ULL << 63);   /* crosses the 32-bit boundary, top bit set, cannot wrap */
			if (w == 4) x = (x & 0x7fffffffULL) | 0x00ff0000;
			if (kind == K_SUBRET) x = (w == 8) ? ((x & 0xffffff0000000000ULL) | 0x0100000000ULL | (x & 0xffff)) : (w == 4 ? (x | 0x80000000ULL) : x);
			init[l] = x;
		}
		experiment(lf, kind, w, off, nloc, 65536 * nloc, 0, init, dd);
	}
	/* void read-modify-writes: final value must account for every update */
	static const int vkinds[5] = { K_ADD, K_SUB, K_INC, K_DEC, K_BITS };
	for (int wi = 0; wi < 4; wi++) for (int ki = 0; ki < 5; ki++) for (int nloc = 1; nloc <= 2; nloc++) {
		int w = widths[wi], kind = vkinds[ki];
		int off = w * (int)(rnd() % (16 / w - (nloc - 1)));
		uint64_t init[2] = { rnd() ^ (rnd() << 32), rnd() ^ (rnd() << 32) }, dd[2] = { rnd() ^ (rnd() << 32), rnd() ^ (rnd() << 32) };
		experiment(lf, kind, w, off, nloc, 20000 * scale, 0, init, dd);
	}
	/* token passing through xchg */
	for (int wi = 0; wi < 4; wi++) for (int nloc = 1; nloc <= 2; nloc++) {
		int w = widths[wi]; int off = w * (int)(rnd() % (16 / w - (nloc - 1)));
		uint64_t init[2] = { rnd() ^ (rnd() << 32), rnd() ^ (rnd() << 32) }, dd[2] = { 0, 0 };
		experiment(lf, K_XTOK, w, off, nloc, 50001 * scale, 0, init, dd);
	}
	/* store buffering */
	for (int op = 0; op < SB_NOPS_ALL; op++) litmus(lf, op, 300000L * scale);
	fclose(lf);
	printf("HAMMER impl=%s done cpus=%d\n", IMPL, ncpus_allowed);
	return 0;
}

int main(int argc, char **argv)
{
	if (argc >= 4 && !strcmp(argv[1], "vec")) return run_vectors(argv[2], argv[3]);
	if (argc >= 4 && !strcmp(argv[1], "hammer")) return run_hammer(strtoull(argv[2], NULL, 10), argv[3], argc > 4 ? atoi(argv[4]) : 1);
	if (argc >= 3 && !strcmp(argv[1], "cb")) {	/* compiler-barrier litmus (meaningful in an optimised build: -O2); appends to <log> */
		FILE *lf = fopen(argv[2], "a"); if (!lf) die("cannot open log file");
		for (int op = SB_XCHG; op < SB_NOPS; op++) cb_litmus(lf, op);
		plain_store_then_op(lf);
		fclose(lf); return 0;
	}
	fprintf(stderr, "usage: d_uatomic vec <vectors> <log> | hammer <seed> <log> [scale] | cb <log>\n");
	return 2;
}
