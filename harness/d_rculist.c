/*
 * Driver: the REAL cds_list_*_rcu / cds_hlist_*_rcu inlines and traversal macros of include/urcu/rculist.h and
 * rcuhlist.h (with list.h / hlist.h) under VSCHED, executing the thread programs of a scenario (the same scenario
 * file the TLC configuration of spec/RcuList.tla is generated from).
 *
 * The list primitives use PLAIN stores, so this translation unit relies on the runtime's L-B layer: it is compiled
 * with -fsanitize=thread against the runtime's own __tsan_* callbacks, every node field is named and
 * vrt_watch_plain(1) turns each plain access to a named address into a scheduling point and an event.
 *
 *   usage: d_rculist <seed> <tso> <trace> <program-file>
 * program file:  "kind list|hlist", "init n1 n2 ..." (initial list content, head first), then "thread <name>"
 * followed by the operations of that thread:
 *   updater: "add nX" (cds_list_add_rcu), "addt nX" (cds_list_add_tail_rcu), "del nX" (cds_list_del_rcu),
 *            "repl nOLD nNEW" (cds_list_replace_rcu), "hadd nX" (cds_hlist_add_head_rcu), "hdel nX"
 *            (cds_hlist_del_rcu), "free nX" (full barrier, abstract grace period, node quarantined)
 *   reader:  inside a read-side critical section: "trav" (cds_list_for_each_entry_rcu), "travp" (cds_list_for_each_rcu),
 *            "htrav" (cds_hlist_for_each_entry_rcu), "htrav2" (cds_hlist_for_each_entry_rcu_2), "htravp" (cds_hlist_for_each_rcu);
 *            the loop body reads the payload of the node
 * Names of locations/values = names of the specification: head "L" (L.next, L.prev), nodes n<i> (n<i>.next,
 * n<i>.prev, n<i>.key), payload values Kn<i>, NULL.  The hlist head is also called "L" (only L.next exists).
 */
#define _LGPL_SOURCE
#include "vrt_redirect.h"
#include <stdbool.h>
#include <urcu/arch.h>
#include <urcu/uatomic.h>
#include <urcu/rculist.h>
#include <urcu/rcuhlist.h>
#include "absrcu.h"

#define MAXOPS 16
#define MAXN 8
#define MAXVISIT 12
struct op { char kind[8]; int n, m; };
struct prog { char name[16]; int nops; struct op ops[MAXOPS]; };
static struct prog P[8]; static int np;

/* payload: a pointer-sized key written before publication (0 = not initialised) */
struct litem { void *key; struct cds_list_head node; };
struct hitem { void *key; struct cds_hlist_node node; };
static struct litem li[MAXN]; static struct hitem hi[MAXN];
static struct cds_list_head lhead; static struct cds_hlist_head hhead;
static int is_hlist;
static int resident[MAXN];	/* in the initial list and never removed by the scenario: every traversal must visit it exactly once */
#define KEYV(i) ((void *) (0x1000UL + 16 * (unsigned long) (i)))

static void update(struct op *o)
{
	if (!strcmp(o->kind, "add")) {
		vrt_log("\"op\":\"call\",\"api\":\"add\",\"n\":\"n%d\",\"m\":\"-\"", o->n);
		vrt_op_begin("cds_list_add_rcu", VP_WAITFREE);
		li[o->n].key = KEYV(o->n);
		cds_list_add_rcu(&li[o->n].node, &lhead);
		vrt_op_end();
	} else if (!strcmp(o->kind, "addt")) {
		vrt_log("\"op\":\"call\",\"api\":\"addt\",\"n\":\"n%d\",\"m\":\"-\"", o->n);
		vrt_op_begin("cds_list_add_tail_rcu", VP_WAITFREE);
		li[o->n].key = KEYV(o->n);
		cds_list_add_tail_rcu(&li[o->n].node, &lhead);
		vrt_op_end();
	} else if (!strcmp(o->kind, "del")) {
		vrt_log("\"op\":\"call\",\"api\":\"del\",\"n\":\"n%d\",\"m\":\"-\"", o->n);
		vrt_op_begin("cds_list_del_rcu", VP_WAITFREE);
		cds_list_del_rcu(&li[o->n].node);
		vrt_op_end();
	} else if (!strcmp(o->kind, "repl")) {
		vrt_log("\"op\":\"call\",\"api\":\"repl\",\"n\":\"n%d\",\"m\":\"n%d\"", o->n, o->m);
		vrt_op_begin("cds_list_replace_rcu", VP_WAITFREE);
		li[o->m].key = KEYV(o->m);
		cds_list_replace_rcu(&li[o->n].node, &li[o->m].node);
		vrt_op_end();
	} else if (!strcmp(o->kind, "hadd")) {
		vrt_log("\"op\":\"call\",\"api\":\"hadd\",\"n\":\"n%d\",\"m\":\"-\"", o->n);
		vrt_op_begin("cds_hlist_add_head_rcu", VP_WAITFREE);
		hi[o->n].key = KEYV(o->n);
		cds_hlist_add_head_rcu(&hi[o->n].node, &hhead);
		vrt_op_end();
	} else if (!strcmp(o->kind, "hdel")) {
		vrt_log("\"op\":\"call\",\"api\":\"hdel\",\"n\":\"n%d\",\"m\":\"-\"", o->n);
		vrt_op_begin("cds_hlist_del_rcu", VP_WAITFREE);
		cds_hlist_del_rcu(&hi[o->n].node);
		vrt_op_end();
	} else if (!strcmp(o->kind, "free")) {
		vrt_log("\"op\":\"call\",\"api\":\"free\",\"n\":\"n%d\",\"m\":\"-\"", o->n);
		vrt_op_begin("synchronize_rcu+free", VP_BLOCKING);
		cmm_smp_mb();			/* synchronize_rcu() starts with a full barrier: the unlink is globally visible */
		abs_synchronize_rcu();		/* gp_begin (snapshot of open sections), blocks, gp_end */
		if (is_hlist) vrt_quarantine(&hi[o->n], sizeof hi[o->n], "freed hlist node");
		else vrt_quarantine(&li[o->n], sizeof li[o->n], "freed list node");
		vrt_op_end();
	} else
		vrt_fail("DRIVER unknown updater op %s", o->kind);
	vrt_log("\"op\":\"ret\",\"r\":\"-\"");
}

static void visit(char *res, size_t cap, size_t *len, int *cnt, int *times, const char *name, void *key, int idx)
{
	if (++*cnt > MAXVISIT) vrt_fail("ORACLE traversal does not terminate (more than %d nodes visited)", MAXVISIT);
	if (idx < 0 || idx >= MAXN) vrt_fail("ORACLE traversal reached a pointer that is not a list node");
	if (!key) vrt_fail("ORACLE traversal saw node n%d with uninitialised payload", idx);
	if (key != KEYV(idx)) vrt_fail("ORACLE traversal saw node n%d with a wrong payload", idx);
	if (++times[idx] > 1) vrt_fail("ORACLE traversal visited node n%d twice", idx);
	*len += snprintf(res + *len, cap - *len, "%s%s", *len ? "," : "", name);
}

static void traverse(struct op *o)
{
	char res[160]; size_t len = 0; int cnt = 0, times[MAXN] = { 0 }; res[0] = 0;
	vrt_log("\"op\":\"call\",\"api\":\"%s\",\"n\":\"-\",\"m\":\"-\"", o->kind);
	vrt_op_begin(o->kind, VP_WAITFREE);
	vrt_yield();				/* rcu_read_lock() is a step of its own in the specification */
	abs_read_lock();
	if (!strcmp(o->kind, "trav")) {
		struct litem *pos;
		cds_list_for_each_entry_rcu(pos, &lhead, node)
			visit(res, sizeof res, &len, &cnt, times, vrt_sym(&pos->node), pos->key, (int) (pos - li));
	} else if (!strcmp(o->kind, "travp")) {
		struct cds_list_head *p;
		cds_list_for_each_rcu(p, &lhead) {
			struct litem *pos = cds_list_entry(p, struct litem, node);
			visit(res, sizeof res, &len, &cnt, times, vrt_sym(p), pos->key, (int) (pos - li));
		}
	} else if (!strcmp(o->kind, "htrav")) {
		struct hitem *pos; struct cds_hlist_node *p;
		cds_hlist_for_each_entry_rcu(pos, p, &hhead, node)
			visit(res, sizeof res, &len, &cnt, times, vrt_sym(&pos->node), pos->key, (int) (pos - hi));
	} else if (!strcmp(o->kind, "htrav2")) {
		struct hitem *pos;
		cds_hlist_for_each_entry_rcu_2(pos, &hhead, node)
			visit(res, sizeof res, &len, &cnt, times, vrt_sym(&pos->node), pos->key, (int) (pos - hi));
	} else if (!strcmp(o->kind, "htravp")) {
		struct cds_hlist_node *p;
		cds_hlist_for_each_rcu(p, &hhead) {
			struct hitem *pos = cds_hlist_entry(p, struct hitem, node);
			visit(res, sizeof res, &len, &cnt, times, vrt_sym(p), pos->key, (int) (pos - hi));
		}
	} else
		vrt_fail("DRIVER unknown reader op %s", o->kind);
	vrt_yield();				/* rcu_read_unlock() likewise */
	abs_read_unlock();
	for (int k = 0; k < MAXN; k++)
		if (resident[k] && times[k] != 1) vrt_fail("ORACLE traversal missed node n%d, which is in the list during the whole run", k);
	vrt_op_end();
	vrt_log("\"op\":\"ret\",\"r\":\"%s\"", res);
}

static void *runner(void *arg)
{
	struct prog *p = arg;
	for (int k = 0; k < p->nops; k++) {
		struct op *o = &p->ops[k];
		if (strstr(o->kind, "trav")) traverse(o); else update(o);
	}
	return NULL;
}

int main(int argc, char **argv)
{
	struct vrt_opts o; vrt_parse_args(argc, argv, &o);
	FILE *f = fopen(argc > 4 ? argv[4] : "/dev/null", "r"); char line[128]; struct prog *cur = NULL;
	int init[MAXN], ninit = 0;
	if (!f) { perror("program"); return 2; }
	while (fgets(line, sizeof line, f)) {
		char a[16]; int x, y;
		if (sscanf(line, "kind %15s", a) == 1) { is_hlist = !strcmp(a, "hlist"); continue; }
		if (!strncmp(line, "init", 4)) {
			char *s = line + 4; int used;
			while (sscanf(s, " n%d%n", &x, &used) == 1 && ninit < MAXN) { init[ninit++] = x; s += used; }
			continue;
		}
		if (sscanf(line, "thread %15s", a) == 1) { cur = &P[np++]; snprintf(cur->name, sizeof cur->name, "%s", a); continue; }
		if (!cur || cur->nops == MAXOPS) continue;
		struct op *op = &cur->ops[cur->nops];
		if (sscanf(line, "repl n%d n%d", &x, &y) == 2) { strcpy(op->kind, "repl"); op->n = x; op->m = y; cur->nops++; }
		else if (sscanf(line, "%7s n%d", a, &x) == 2) { strcpy(op->kind, a); op->n = x; cur->nops++; }
		else if (sscanf(line, "%7s", a) == 1) { strcpy(op->kind, a); cur->nops++; }
	}
	fclose(f);
	for (int k = 0; k < ninit; k++) resident[init[k]] = 1;
	for (int t = 0; t < np; t++) for (int k = 0; k < P[t].nops; k++)
		if (!strcmp(P[t].ops[k].kind, "del") || !strcmp(P[t].ops[k].kind, "hdel") || !strcmp(P[t].ops[k].kind, "repl")) resident[P[t].ops[k].n] = 0;

	vrt_name_val(NULL, "NULL");
	CDS_INIT_LIST_HEAD(&lhead); CDS_INIT_HLIST_HEAD(&hhead);
	/* initial content, built with the same primitives before the model threads exist (not traced) */
	for (int k = 0; k < ninit; k++) {
		if (is_hlist) { hi[init[k]].key = KEYV(init[k]); }
		else { li[init[k]].key = KEYV(init[k]); cds_list_add_tail_rcu(&li[init[k]].node, &lhead); }
	}
	if (is_hlist) for (int k = ninit - 1; k >= 0; k--) cds_hlist_add_head_rcu(&hi[init[k]].node, &hhead);
	if (is_hlist) {
		vrt_name(&hhead.next, VK_PTR, "L.next"); vrt_name_val(&hhead, "L");
		for (int k = 0; k < MAXN; k++) {
			vrt_name(&hi[k].node.next, VK_PTR, "n%d.next", k); vrt_name(&hi[k].node.prev, VK_PTR, "n%d.prev", k);
			vrt_name(&hi[k].key, VK_PTR, "n%d.key", k); vrt_name_val(&hi[k].node, "n%d", k);
		}
	} else {
		vrt_name(&lhead.next, VK_PTR, "L.next"); vrt_name(&lhead.prev, VK_PTR, "L.prev"); vrt_name_val(&lhead, "L");
		for (int k = 0; k < MAXN; k++) {
			vrt_name(&li[k].node.next, VK_PTR, "n%d.next", k); vrt_name(&li[k].node.prev, VK_PTR, "n%d.prev", k);
			vrt_name(&li[k].key, VK_PTR, "n%d.key", k); vrt_name_val(&li[k].node, "n%d", k);
		}
	}
	for (int k = 0; k < MAXN; k++) vrt_name_val(KEYV(k), "Kn%d", k);
	vrt_watch_plain(1);
	for (int k = 0; k < np; k++) vrt_spawn(P[k].name, runner, &P[k]);
	vrt_run(&o);
	_exit(0);
}
