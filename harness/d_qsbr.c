/*
 * Driver: the real QSBR grace-period implementation (src/urcu-qsbr.c, static/urcu-qsbr.h, urcu-wait.h) under VSCHED.
 *   usage: d_qsbr <seed> <tso> <trace> <program-file>
 * program: "thread <name>" then ops: reg unreg qs offline online lock unlock deref use pub <k> sync free
 *
 * Build: -DURCU_VERIF_RCU_QS_ACTIVE_ATTEMPTS=2 -DURCU_VERIF_URCU_WAIT_ATTEMPTS=2 (the spec constants QSAttempts/WaitAttempts).
 * Counters are unsigned long; gp.ctr starts at URCU_QSBR_GP_ONLINE (1) and grows by URCU_QSBR_GP_CTR (2) per grace period, so
 * they are logged as plain small integers (VK_INT).
 *
 * Driver-level oracles (independent of the specification):
 *   - grace period too short: synchronize_rcu() returned while an implicit section that was open at the call is still open
 *   - use-after-free: a reader touches an object after the updater reclaimed it
 *   - departed reader: the TLS reader record of a thread that has unregistered is quarantined (any access by anybody is a UAF failure)
 *   - dead wait node: the stack wait node of a returned synchronize_rcu() is quarantined until the owner's next synchronize_rcu()
 */
#include "vrt_redirect.h"
#include REPO_SRC(urcu-qsbr.c)
#include REPO_SRC(compat_futex.c)

#if (CAA_BITS_PER_LONG < 64)
#error "d_qsbr binds the CAA_BITS_PER_LONG == 64 variant of urcu_qsbr_synchronize_rcu() (spec/UrcuQsbr.tla)"
#endif

#define MAXOPS 32
#define NOBJ 8
#define MAXP 12
struct op { char kind[12]; int k; };
struct prog { char name[16]; int nops; struct op ops[MAXOPS]; int idx;
	      int registered, was_registered; void *tls; void *wn; int wn_dead; };
static struct prog P[MAXP]; static int np;

struct obj { int val; };
static struct obj objs[NOBJ];
static struct obj *gptr;
static int freed[NOBJ];
/* driver-level ghosts (spec independent oracle) */
static unsigned long open_cs[MAXP], cs_next = 1;
static int op_yield;	/* QSBR_OP_YIELD=1: a scheduling point (no event) before every operation, so that a replayed TLC
			 * counterexample also controls WHEN an operation is called (tools/qsbr_confirm.py) */
static __thread struct prog *me;
static __thread struct obj *held, *old;

static void name_unknown(const char *var, unsigned long v)
{
	/* stack wait node of synchronize_rcu pushed on gp_waiters: name it after the pushing thread */
	if (!strcmp(var, "waiters") || strstr(var, ".next")) {
		struct urcu_wait_node *w = caa_container_of((struct cds_wfs_node *) v, struct urcu_wait_node, node);
		vrt_name_val((void *) v, "wn.%s", vrt_self_name());
		vrt_name(&w->node.next, VK_PTR, "wn.%s.next", vrt_self_name());
		vrt_name(&w->state, VK_INT, "wn.%s.state", vrt_self_name());
		if (me) me->wn = w;	/* same stack slot for every synchronize_rcu() of this thread */
	}
}

static void check_use(const char *where)
{
	if (held) {
		int k = (int)(held - objs);
		if (freed[k]) vrt_fail("ORACLE use-after-free: %s touches obj%d after it was reclaimed", where, k);
	}
}

static void section_end(struct prog *p) { held = NULL; open_cs[p->idx] = 0; }
static void section_begin(struct prog *p) { open_cs[p->idx] = cs_next++; }

static void *runner(void *arg)
{
	struct prog *p = arg; me = p;
	p->tls = &URCU_TLS(urcu_qsbr_reader);
	for (int k = 0; k < p->nops; k++) {
		struct op *o = &p->ops[k]; char res[64] = "-";
		if (op_yield) vrt_yield();
		vrt_log("\"op\":\"call\",\"api\":\"%s\",\"k\":%d", o->kind, o->k);
		if (!strcmp(o->kind, "reg")) {
			if (p->was_registered) vrt_unquarantine(p->tls);
			vrt_name(&URCU_TLS(urcu_qsbr_reader).ctr, VK_INT, "rctr.%s", p->name);
			vrt_name(&URCU_TLS(urcu_qsbr_reader).waiting, VK_INT, "rwait.%s", p->name);
			vrt_op_begin("rcu_register_thread", VP_BLOCKING);
			urcu_qsbr_register_thread();
			vrt_op_end();
			p->registered = p->was_registered = 1;
			section_begin(p);	/* registered + online = inside an implicit section */
		} else if (!strcmp(o->kind, "unreg")) {
			section_end(p);
			vrt_op_begin("rcu_unregister_thread", VP_BLOCKING);
			urcu_qsbr_unregister_thread();
			vrt_op_end();
			p->registered = 0;
			/* C15: from now on nobody may touch this thread's reader record */
			vrt_quarantine(p->tls, sizeof(struct urcu_qsbr_reader), "departed reader's record");
		} else if (!strcmp(o->kind, "lock")) {
			vrt_op_begin("rcu_read_lock", VP_WAITFREE); urcu_qsbr_read_lock(); vrt_op_end();
		} else if (!strcmp(o->kind, "unlock")) {
			check_use("reader before rcu_read_unlock");
			vrt_op_begin("rcu_read_unlock", VP_WAITFREE); urcu_qsbr_read_unlock(); vrt_op_end();
		} else if (!strcmp(o->kind, "deref")) {
			vrt_op_begin("rcu_dereference", VP_WAITFREE);
			held = rcu_dereference(gptr);
			vrt_op_end();
			check_use("reader after rcu_dereference");
			snprintf(res, sizeof res, "%s", vrt_sym(held));
		} else if (!strcmp(o->kind, "use")) {
			check_use("reader inside its critical section");
		} else if (!strcmp(o->kind, "qs")) {
			section_end(p);
			vrt_op_begin("rcu_quiescent_state", VP_WAITFREE); urcu_qsbr_quiescent_state(); vrt_op_end();
			section_begin(p);
		} else if (!strcmp(o->kind, "offline")) {
			section_end(p);
			vrt_op_begin("rcu_thread_offline", VP_WAITFREE); urcu_qsbr_thread_offline(); vrt_op_end();
		} else if (!strcmp(o->kind, "online")) {
			vrt_op_begin("rcu_thread_online", VP_WAITFREE); urcu_qsbr_thread_online(); vrt_op_end();
			section_begin(p);
		} else if (!strcmp(o->kind, "pub")) {
			vrt_op_begin("rcu_xchg_pointer", VP_WAITFREE);
			old = rcu_xchg_pointer(&gptr, &objs[o->k]);
			vrt_op_end();
			snprintf(res, sizeof res, "%s", vrt_sym(old));
		} else if (!strcmp(o->kind, "sync")) {
			unsigned long snap[MAXP];
			int online = open_cs[p->idx] != 0;
			if (online) section_end(p);	/* the caller's own implicit section ends: it goes offline around the wait */
			memcpy(snap, open_cs, sizeof snap);
			if (p->was_registered && !p->registered) vrt_unquarantine(p->tls);	/* synchronize_rcu() reads the caller's own record */
			if (p->wn_dead) { vrt_unquarantine(p->wn); p->wn_dead = 0; }	/* the same stack slot becomes the new wait node */
			vrt_op_begin("synchronize_rcu", VP_BLOCKING);
			urcu_qsbr_synchronize_rcu();
			vrt_op_end();
			if (p->was_registered && !p->registered) vrt_quarantine(p->tls, sizeof(struct urcu_qsbr_reader), "departed reader's record");
			for (int i = 0; i < np; i++)
				if (snap[i] && open_cs[i] == snap[i])
					vrt_fail("ORACLE grace period too short: synchronize_rcu() by %s returned while the implicit critical section of %s that began before the call is still open", p->name, P[i].name);
			if (online) section_begin(p);
			if (p->wn) { vrt_quarantine(p->wn, sizeof(struct urcu_wait_node), "dead synchronize_rcu wait node"); p->wn_dead = 1; }
		} else if (!strcmp(o->kind, "free")) {
			if (old) { freed[old - objs] = 1; snprintf(res, sizeof res, "%s", vrt_sym(old)); old = NULL; }
		} else {
			vrt_fail("DRIVER unknown op %s", o->kind);
		}
		vrt_log("\"op\":\"ret\",\"r\":\"%s\"", res);
	}
	return NULL;	/* a dead wait node stays quarantined: the stack of a finished model thread is never reused */
}

int main(int argc, char **argv)
{
	struct vrt_opts o; vrt_parse_args(argc, argv, &o);
	FILE *f = fopen(argc > 4 ? argv[4] : "/dev/null", "r"); char line[128]; struct prog *cur = NULL;
	if (!f) { perror("program"); return 2; }
	while (fgets(line, sizeof line, f)) {
		char a[16]; int x = 0;
		if (sscanf(line, "thread %15s", a) == 1) { if (np == MAXP) return 2; cur = &P[np]; cur->idx = np++; snprintf(cur->name, sizeof cur->name, "%s", a); continue; }
		if (!cur) continue;
		if (sscanf(line, "%11s %d", a, &x) >= 1 && cur->nops < MAXOPS) { struct op *op = &cur->ops[cur->nops++]; snprintf(op->kind, sizeof op->kind, "%s", a); op->k = x; }
	}
	fclose(f);
	vrt_name_val(NULL, "NULL"); vrt_name_val((void *) 0x1UL, "END");
	for (int k = 0; k < NOBJ; k++) vrt_name_val(&objs[k], "obj%d", k);
	gptr = &objs[0];
	vrt_name(&gptr, VK_PTR, "gptr");
	vrt_name(&urcu_qsbr_gp.ctr, VK_INT, "gp_ctr");
	vrt_name(&urcu_qsbr_gp.futex, VK_INT, "gp_futex");
	vrt_name(&gp_waiters.stack.head, VK_PTR, "waiters");
	vrt_name_mutex(&gp_waiters.stack.lock, "waiters_lock");
	vrt_name_mutex(&rcu_gp_lock, "gp_lock"); vrt_name_mutex(&rcu_registry_lock, "registry_lock");
	vrt_set_unknown_ptr_hook(name_unknown);
	op_yield = getenv("QSBR_OP_YIELD") ? atoi(getenv("QSBR_OP_YIELD")) : 0;
	for (int k = 0; k < np; k++) vrt_spawn(P[k].name, runner, &P[k]);
	vrt_run(&o);
	_exit(0);
}
