/*
 * C08 driver: the REAL cds_lfht (src/rculfhash.c included here, the three rculfhash-mm-*.c linked as separate
 * units) executed sequentially on TLC-generated inputs; every call is logged with its complete result and every
 * request made to the memory allocator, for validation against spec/LfhtAbs / LfhtNew / LfhtMm by TLC.
 *
 *   usage: d_lfht_seq <program> <log.ndjson>     |     d_lfht_seq --plat
 *
 * Sequential component: no scheduler.  The library is compiled without the URCU_VERIF hooks (they are inert
 * outside model threads anyway) and with -fsanitize=address,undefined.  Environment stubs (NOT library code):
 *   - RCU flavor: nesting counter; synchronize_rcu inside a read-side critical section is an oracle failure.
 *   - work queue (src/workqueue.h API): queued work (lazy resize, deferred destroy of CDS_LFHT_AUTO_RESIZE
 *     tables) is executed, in FIFO order, as soon as the API call that queued it has returned ("work" record), in
 *     the role of the worker thread: still one thread at a time.
 *   - struct cds_lfht_alloc: records calloc/malloc/free (ids in allocation order); mmap/munmap of -mm-mmap.c are
 *     redirected here (compiled with -Dmmap=rec_mmap -Dmunmap=rec_munmap) and recorded as map/pop/dis/unmap.
 *
 * Program file (written by tools/props/c08.py from TLC output), one item per line:
 *   K <nkeys> <hex hash>...             key -> hash table for the following runs ("hdr" record: hashes as 16-bit limbs, platform constants)
 *   R <id> <init> <min> <max> <flags> <mm>   new execution: _cds_lfht_new_with_alloc(...), mm in order|chunk|mmap|default
 *   a|u|p|r <node> <key>                add / add_unique / add_replace / replace(iter, key, node)
 *   d <node>   D   x <node>   q <node>  del(node) / del(iter.node) / node_init_deleted+del / is_node_deleted
 *   l <key> <hashkey>                   lookup(hash(hashkey), key)
 *   n <key>   f   t   c                 next_duplicate(key) / first / next / count_nodes
 *   z <order>                           resize(2^order), order -1: resize(0)
 *   y                                   destroy
 * Encoding of the log: nodes 1..N, NULL 0, bucket j -(j+1); errors as negative errno.
 */
#ifndef _GNU_SOURCE
#define _GNU_SOURCE
#endif
#include <stdio.h>
#include <stdlib.h>
#include <string.h>
#include <stdint.h>
#include <stdarg.h>
#include <errno.h>
#include <unistd.h>
#include <sys/mman.h>
#include <pthread.h>

static void drv_fail(const char *fmt, ...) __attribute__((noreturn, format(printf, 1, 2)));

#include "rculfhash.c"	/* the real source: resolved through -I $VERIF_REPO/src (REPO_SRC() cannot be used in #include) */

/* ------------------------------------------------------------------ log */
static FILE *logf;
static long cur_run = -1;
static void drv_fail(const char *fmt, ...)
{
	va_list ap; char msg[256];
	va_start(ap, fmt); vsnprintf(msg, sizeof msg, fmt, ap); va_end(ap);
	if (logf) { fprintf(logf, "{\"op\":\"fail\",\"run\":%ld,\"what\":\"%s\"}\n", cur_run, msg); fflush(logf); }
	fprintf(stderr, "DRV-FAIL run=%ld %s\n", cur_run, msg);
	_exit(3);
}

/* ------------------------------------------------------------------ RCU flavor stub */
static int rcu_nest;
static void fl_read_lock(void) { rcu_nest++; }
static void fl_read_unlock(void) { if (--rcu_nest < 0) drv_fail("ORACLE rcu_read_unlock without lock"); }
static int fl_read_ongoing(void) { return rcu_nest > 0; }
static void fl_sync(void) { if (rcu_nest > 0) drv_fail("ORACLE synchronize_rcu inside a read-side critical section"); }
static void fl_noop(void) {}
static void fl_call_rcu(struct rcu_head *h, void (*f)(struct rcu_head *)) { f(h); }
static void fl_atfork(struct urcu_atfork *a) { (void) a; }
static const struct rcu_flavor_struct seq_flavor = {
	.read_lock = fl_read_lock, .read_unlock = fl_read_unlock, .read_ongoing = fl_read_ongoing,
	.read_quiescent_state = fl_noop, .update_call_rcu = fl_call_rcu, .update_synchronize_rcu = fl_sync,
	.thread_offline = fl_noop, .thread_online = fl_noop, .register_thread = fl_noop, .unregister_thread = fl_noop,
	.barrier = fl_noop, .register_rculfhash_atfork = fl_atfork, .unregister_rculfhash_atfork = fl_atfork,
};

/* ------------------------------------------------------------------ work queue stub */
struct urcu_workqueue { int dummy; };
static struct urcu_workqueue the_wq;
#define MAXW 16
static struct urcu_work *wq_q[MAXW]; static int wq_n;
struct urcu_workqueue *urcu_workqueue_create(unsigned long flags, int cpu_affinity, void *priv,
		void (*a)(struct urcu_workqueue *, void *), void (*b)(struct urcu_workqueue *, void *),
		void (*c)(struct urcu_workqueue *, void *), void (*d)(struct urcu_workqueue *, void *),
		void (*e)(struct urcu_workqueue *, void *), void (*f)(struct urcu_workqueue *, void *),
		void (*g)(struct urcu_workqueue *, void *))
{ (void) flags; (void) cpu_affinity; (void) priv; (void) a; (void) b; (void) c; (void) d; (void) e; (void) f; (void) g; return &the_wq; }
void urcu_workqueue_destroy(struct urcu_workqueue *w) { (void) w; }
void urcu_workqueue_queue_work(struct urcu_workqueue *w, struct urcu_work *work, void (*func)(struct urcu_work *))
{
	(void) w;
	if (wq_n == MAXW) drv_fail("RUNTIME work queue overflow");
	work->func = func; wq_q[wq_n++] = work;
}
void urcu_workqueue_flush_queued_work(struct urcu_workqueue *w) { (void) w; }
void urcu_workqueue_pause_worker(struct urcu_workqueue *w) { (void) w; }
void urcu_workqueue_resume_worker(struct urcu_workqueue *w) { (void) w; }
void urcu_workqueue_create_worker(struct urcu_workqueue *w) { (void) w; }

/* ------------------------------------------------------------------ recording allocator */
struct arec { char *p; size_t n, sz; int id; int live; };
#define MAXA 20000
static struct arec A[MAXA]; static int na; static int next_id;
static char *map_base; static size_t map_len;		/* reservation of the large mmap table */
static char *membuf; static size_t memlen, memcap;
static void mem_ev(const char *k, long id, unsigned long n, unsigned long sz, unsigned long off)
{
	if (memlen + 128 > memcap) { memcap = memcap ? 2 * memcap : 4096; membuf = realloc(membuf, memcap); if (!membuf) abort(); }
	memlen += snprintf(membuf + memlen, memcap - memlen, "%s{\"k\":\"%s\",\"id\":%ld,\"n\":%lu,\"sz\":%lu,\"off\":%lu}", memlen ? "," : "", k, id, n, sz, off);
}
static const char *mem_take(void) { if (!membuf) { memcap = 4096; membuf = malloc(memcap); } membuf[memlen] = 0; memlen = 0; return membuf; }
static void *rec_new(const char *k, void *p, size_t n, size_t sz)
{
	if (!p) drv_fail("RUNTIME out of memory");
	if (n * sz > (1UL << 27)) drv_fail("RUNTIME allocation of %zu bytes: table grows beyond what this driver executes", n * sz);
	if (na == MAXA) drv_fail("RUNTIME allocation table overflow");
	A[na].p = p; A[na].n = n; A[na].sz = sz; A[na].id = next_id++; A[na].live = 1; na++;
	mem_ev(k, A[na - 1].id, n, sz, 0);
	return p;
}
static void *rec_malloc(void *st, size_t size) { (void) st; return rec_new("malloc", malloc(size), 1, size); }
static void *rec_calloc(void *st, size_t n, size_t sz) { (void) st; return rec_new("calloc", calloc(n, sz), n, sz); }
static void *rec_realloc(void *st, void *p, size_t sz) { (void) st; (void) p; (void) sz; drv_fail("ORACLE unexpected realloc through cds_lfht_alloc"); }
static void *rec_aligned(void *st, size_t al, size_t sz) { (void) st; (void) al; (void) sz; drv_fail("ORACLE unexpected aligned_alloc through cds_lfht_alloc"); }
static void rec_free(void *st, void *p)
{
	(void) st;
	if (!p) { mem_ev("free", -1, 0, 0, 0); return; }
	for (int i = 0; i < na; i++)
		if (A[i].live && A[i].p == (char *) p) { A[i].live = 0; mem_ev("free", A[i].id, 0, 0, 0); free(p); A[i] = A[--na]; return; }
	drv_fail("ORACLE free of a pointer that is not a live allocation of this table");
}
static const struct cds_lfht_alloc rec_alloc = { .malloc = rec_malloc, .calloc = rec_calloc, .realloc = rec_realloc,
	.aligned_alloc = rec_aligned, .free = rec_free, .state = NULL };

#define NODESZ sizeof(struct cds_lfht_node)
void *rec_mmap(void *addr, size_t len, int prot, int flags, int fd, off_t off)
{
	void *r = mmap(addr, len, prot, flags, fd, off);
	if (r == MAP_FAILED) return r;
	if (!addr) {
		if (map_base) drv_fail("ORACLE second reservation while one is mapped");
		map_base = r; map_len = len; mem_ev("map", -2, len / NODESZ, 0, 0);
	} else {
		if (!map_base || (char *) addr < map_base || (char *) addr + len > map_base + map_len)
			drv_fail("ORACLE mmap(MAP_FIXED) outside the reserved range");
		if ((prot & PROT_WRITE) && len > (1UL << 27)) drv_fail("RUNTIME populate of %zu bytes: table grows beyond what this driver executes", len);
		mem_ev((prot & PROT_WRITE) ? "pop" : "dis", -2, len / NODESZ, 0, ((char *) addr - map_base) / NODESZ);
	}
	return r;
}
int rec_munmap(void *addr, size_t len)
{
	if ((char *) addr != map_base || len != map_len) drv_fail("ORACLE munmap of something that is not the reservation");
	mem_ev("unmap", -2, len / NODESZ, 0, 0);
	map_base = NULL; map_len = 0;
	return munmap(addr, len);
}
static void drop_all_memory(void)	/* table abandoned by the program (not destroyed): release behind its back */
{
	for (int i = 0; i < na; i++) if (A[i].live) free(A[i].p);
	na = 0;
	if (map_base) { munmap(map_base, map_len); map_base = NULL; map_len = 0; }
	memlen = 0; wq_n = 0;
}

/* ------------------------------------------------------------------ table, nodes, names */
#define MAXK 8
#define MAXN 16
struct mynode { struct cds_lfht_node node; int key; };
static struct mynode N[MAXN + 1];
static unsigned long HK[MAXK + 1]; static int nkeys;
static struct cds_lfht *ht;
static struct cds_lfht_iter it; static int it_valid;

static int match(struct cds_lfht_node *n, const void *key) { return caa_container_of(n, struct mynode, node)->key == *(const int *) key; }
static int order_of(unsigned long x) { int o = 0; if (!x || (x & (x - 1))) return -99; while (x > 1) { x >>= 1; o++; } return o; }
static long name_of(struct cds_lfht_node *raw)
{
	struct cds_lfht_node *p = clear_flag(raw);
	if ((unsigned long) raw & FLAGS_MASK) drv_fail("ORACLE iterator holds a flagged pointer (flags %lu)", (unsigned long) raw & FLAGS_MASK);
	if (!p) return 0;
	if ((char *) p >= (char *) &N[1] && (char *) p < (char *) &N[MAXN + 1]) return (long) (caa_container_of(p, struct mynode, node) - N);
	if (ht) {
		unsigned long idx = bit_reverse_ulong(p->reverse_hash);
		if (idx < ht->size && ht->bucket_at(ht, idx) == p) return -(long) idx - 1;
	}
	drv_fail("ORACLE pointer is neither a known node nor a bucket of the table");
}
static void probe(char *buf, size_t cap)
{
	size_t len = 0; unsigned long size = ht->size; int so = order_of(size); buf[0] = 0;
	for (unsigned long i = 0; i < size; i++) {
		int want = so <= 4 || i < 16;
		for (int k = 4; !want && k <= so; k++) want = i == (1UL << k) - 1 || (k < so && (i == (1UL << k) || i == (1UL << k) + 1));
		if (!want) continue;
		char *p = (char *) ht->bucket_at(ht, i); long id = -9, off = -9;
		if (map_base && p >= map_base && p < map_base + map_len) { id = -2; off = (p - map_base) / NODESZ; if ((p - map_base) % NODESZ) off = -8; }
		else for (int a = 0; a < na; a++)
			if (A[a].live && p >= A[a].p && p < A[a].p + A[a].n * A[a].sz) { id = A[a].id; off = (p - A[a].p) / NODESZ; if ((p - A[a].p) % NODESZ) off = -8; }
		if (len + 64 > cap) drv_fail("RUNTIME probe buffer overflow");
		len += snprintf(buf + len, cap - len, "%s[%lu,%ld,%ld]", len ? "," : "", i, id, off);
	}
}
static void limbs(char *buf, size_t cap)
{
	size_t len = 0;
	for (int k = 1; k <= nkeys; k++)
		len += snprintf(buf + len, cap - len, "%s[%lu,%lu,%lu,%lu]", k > 1 ? "," : "", HK[k] & 0xffff, (HK[k] >> 16) & 0xffff, (HK[k] >> 32) & 0xffff, (HK[k] >> 48) & 0xffff);
}
static void plat(char *buf, size_t cap)
{
	if (split_count_mask < 0) { struct cds_lfht tmp; memset(&tmp, 0, sizeof tmp); tmp.alloc = &rec_alloc; alloc_split_items_count(&tmp); }
	snprintf(buf, cap, "{\"pbo\":%d,\"mto\":%d,\"sco\":%d,\"nsplit\":%ld,\"node\":%zu,\"ht\":%zu,\"htbase\":%zu,\"split\":%zu,\"work\":%zu}",
		order_of(getpagesize() / NODESZ), MAX_TABLE_ORDER, split_count_order, split_count_mask + 1, NODESZ, sizeof(struct cds_lfht),
		offsetof(struct cds_lfht, tbl_chunk), sizeof(struct ht_items_count), sizeof(struct resize_work));
}

static char pbuf[1 << 16];
/* run queued work in the role of the worker thread (its own RCU reader state) */
static void drain_work(void)
{
	while (wq_n) {
		struct urcu_work *w = wq_q[0]; int saved = rcu_nest;
		memmove(wq_q, wq_q + 1, --wq_n * sizeof wq_q[0]);
		int is_destroy = ht && w == &ht->destroy_work;
		rcu_nest = 0;
		w->func(w);
		if (rcu_nest) drv_fail("ORACLE worker left a read-side critical section open");
		rcu_nest = saved;
		if (is_destroy) { ht = NULL; fprintf(logf, "{\"op\":\"work\",\"c\":-1,\"mem\":[%s],\"probe\":[]}\n", mem_take()); }
		else { probe(pbuf, sizeof pbuf); fprintf(logf, "{\"op\":\"work\",\"c\":%d,\"mem\":[%s],\"probe\":[%s]}\n", order_of(ht->size), mem_take(), pbuf); }
	}
}
static void emit(const char *op, long n, long k, long s, long r, long c, long ab, long aa, long in_node, long in_next, int with_iter)
{
	fprintf(logf, "{\"op\":\"%s\",\"n\":%ld,\"k\":%ld,\"s\":%ld,\"r\":%ld,\"node\":%ld,\"next\":%ld,\"c\":%ld,\"ab\":%ld,\"aa\":%ld,\"in\":[%ld,%ld],\"mem\":[%s]",
		op, n, k, s, r, with_iter ? name_of(it.node) : 0, with_iter ? name_of(it.next) : 0, c, ab, aa, in_node, in_next, mem_take());
}
static void need_ht(const char *line) { if (!ht) drv_fail("PROGRAM operation without a table: %s", line); }
/* A precondition of the generated program does not hold on the real table (possible only after the table already
 * deviated from the specification): record it and void the rest of the run; the log is rejected at the latest here. */
static int void_run;
static int precond(int ok, const char *what)
{
	if (ok) return 1;
	fprintf(logf, "{\"op\":\"precond\",\"what\":\"%s\"}\n", what);
	void_run = 1;
	return 0;
}
static struct cds_lfht_node *node_arg(long n, const char *line) { if (n < 1 || n > MAXN) drv_fail("PROGRAM bad node: %s", line); return &N[n].node; }

int main(int argc, char **argv)
{
	char line[512];
	if (argc == 2 && !strcmp(argv[1], "--plat")) { plat(pbuf, sizeof pbuf); memlen = 0; puts(pbuf); return 0; }
	if (argc < 3) { fprintf(stderr, "usage: %s <program> <log>\n", argv[0]); return 2; }
	FILE *pf = fopen(argv[1], "r"); if (!pf) { perror(argv[1]); return 2; }
	logf = fopen(argv[2], "w"); if (!logf) { perror(argv[2]); return 2; }
	setvbuf(logf, NULL, _IOLBF, 0);
	while (fgets(line, sizeof line, pf)) {
		char a[16]; long x = 0, y = 0; long in_node = 0, in_next = 0;
		if (line[0] == '#' || line[0] == '\n') continue;
		if ((!ht || void_run) && line[0] != 'R' && line[0] != 'K') continue;	/* creation was refused (or table destroyed): rest of the run is void */
		if (it_valid) { in_node = name_of(it.node); in_next = name_of(it.next); }
		switch (line[0]) {
		case 'K': {
			char *p = line + 1; nkeys = (int) strtol(p, &p, 10);
			if (nkeys < 1 || nkeys > MAXK) drv_fail("PROGRAM bad key count");
			for (int k = 1; k <= nkeys; k++) HK[k] = strtoul(p, &p, 16);
			{ char hk[512], pl[256]; limbs(hk, sizeof hk); plat(pl, sizeof pl); memlen = 0;
			  fprintf(logf, "{\"op\":\"hdr\",\"hk\":[%s],\"plat\":%s}\n", hk, pl); }
			break; }
		case 'R': {
			unsigned long init, mn, mx; int flags; const struct cds_lfht_mm_type *mm = NULL;
			if (ht) { if (rcu_nest) fl_read_unlock(); ht = NULL; }
			void_run = 0;
			drop_all_memory();
			if (sscanf(line, "R %ld %lu %lu %lu %d %15s", &cur_run, &init, &mn, &mx, &flags, a) != 6) drv_fail("PROGRAM bad R line: %s", line);
			if (!strcmp(a, "order")) mm = &cds_lfht_mm_order; else if (!strcmp(a, "chunk")) mm = &cds_lfht_mm_chunk;
			else if (!strcmp(a, "mmap")) mm = &cds_lfht_mm_mmap; else if (strcmp(a, "default")) drv_fail("PROGRAM bad mm: %s", line);
			memset(N, 0, sizeof N); it_valid = 0; memset(&it, 0, sizeof it); rcu_nest = 0; next_id = 0;
			memlen = 0;
			ht = _cds_lfht_new_with_alloc(init, mn, mx, flags, mm, &seq_flavor, &rec_alloc, NULL);
			if (!ht) {
				fprintf(logf, "{\"op\":\"new\",\"run\":%ld,\"init\":%lu,\"min\":%lu,\"max\":%lu,\"flags\":%d,\"mm\":\"%s\",\"r\":0,\"rmm\":\"-\",\"sizeo\":0,\"mino\":0,\"maxo\":0,\"mao\":0,\"rt\":0,\"mem\":[%s],\"probe\":[]}\n",
					cur_run, init, mn, mx, flags, a, mem_take());
				break;
			}
			probe(pbuf, sizeof pbuf);
			fprintf(logf, "{\"op\":\"new\",\"run\":%ld,\"init\":%lu,\"min\":%lu,\"max\":%lu,\"flags\":%d,\"mm\":\"%s\",\"r\":1,\"rmm\":\"%s\",\"sizeo\":%d,\"mino\":%d,\"maxo\":%d,\"mao\":%lu,\"rt\":%d,\"mem\":[%s],\"probe\":[%s]}\n",
				cur_run, init, mn, mx, flags, a,
				ht->mm == &cds_lfht_mm_order ? "order" : ht->mm == &cds_lfht_mm_chunk ? "chunk" : ht->mm == &cds_lfht_mm_mmap ? "mmap" : "?",
				order_of(ht->size), order_of(ht->min_nr_alloc_buckets), order_of(ht->max_nr_buckets), ht->min_alloc_buckets_order,
				order_of(ht->resize_target), mem_take(), pbuf);
			fl_read_lock();
			break; }
		case 'a': case 'u': case 'p': case 'r': {
			need_ht(line);
			if (sscanf(line + 1, "%ld %ld", &x, &y) != 2 || y < 1 || y > nkeys) drv_fail("PROGRAM bad line: %s", line);
			struct cds_lfht_node *n = node_arg(x, line), *ret; int key = (int) y; long r;
			N[x].key = key;
			if (line[0] == 'a') { cds_lfht_node_init(n); cds_lfht_add(ht, HK[y], n); r = 0; emit("add", x, y, 0, r, 0, 0, 0, 0, 0, 0); }
			else if (line[0] == 'u') { cds_lfht_node_init(n); ret = cds_lfht_add_unique(ht, HK[y], match, &key, n); emit("addu", x, y, 0, name_of(ret), 0, 0, 0, 0, 0, 0); }
			else if (line[0] == 'p') { cds_lfht_node_init(n); ret = cds_lfht_add_replace(ht, HK[y], match, &key, n); emit("addr", x, y, 0, name_of(ret), 0, 0, 0, 0, 0, 0); }
			else { if (!precond(it_valid, "replace without iterator")) break; r = cds_lfht_replace(ht, &it, HK[y], match, &key, n); emit("repl", x, y, 0, r, 0, 0, 0, in_node, in_next, 0); }
			fputs("}\n", logf);
			break; }
		case 'd': case 'x': case 'q': {
			need_ht(line);
			if (sscanf(line + 1, "%ld", &x) != 1) drv_fail("PROGRAM bad line: %s", line);
			struct cds_lfht_node *n = node_arg(x, line);
			if (line[0] == 'x') { cds_lfht_node_init_deleted(n); emit("delx", x, 0, 0, cds_lfht_del(ht, n), 0, 0, 0, 0, 0, 0); }
			else if (line[0] == 'd') emit("del", x, 0, 0, cds_lfht_del(ht, n), 0, 0, 0, 0, 0, 0);
			else emit("isdel", x, 0, 0, cds_lfht_is_node_deleted(n) ? 1 : 0, 0, 0, 0, 0, 0, 0);
			fputs("}\n", logf);
			break; }
		case 'D':
			need_ht(line); if (!precond(it_valid, "del(iter) without iterator")) break;
			emit("deli", 0, 0, 0, cds_lfht_del(ht, cds_lfht_iter_get_node(&it)), 0, 0, 0, in_node, in_next, 0); fputs("}\n", logf);
			break;
		case 'l': {
			need_ht(line);
			if (sscanf(line + 1, "%ld %ld", &x, &y) != 2 || x < 1 || x > nkeys || y < 1 || y > nkeys) drv_fail("PROGRAM bad line: %s", line);
			int key = (int) x;
			cds_lfht_lookup(ht, HK[y], match, &key, &it); it_valid = 1;
			emit("lookup", 0, x, y, 0, 0, 0, 0, 0, 0, 1); fputs("}\n", logf);
			break; }
		case 'n': {
			need_ht(line);
			if (sscanf(line + 1, "%ld", &x) != 1 || x < 1 || x > nkeys) drv_fail("PROGRAM bad line: %s", line);
			if (!precond(it_valid && it.node, "next_duplicate without a current node")) break;
			int key = (int) x;
			cds_lfht_next_duplicate(ht, match, &key, &it);
			emit("ndup", 0, x, 0, 0, 0, 0, 0, in_node, in_next, 1); fputs("}\n", logf);
			break; }
		case 'f':
			need_ht(line); cds_lfht_first(ht, &it); it_valid = 1;
			emit("first", 0, 0, 0, 0, 0, 0, 0, 0, 0, 1); fputs("}\n", logf);
			break;
		case 't':
			need_ht(line); if (!precond(it_valid, "next without iterator")) break;
			cds_lfht_next(ht, &it);
			emit("next", 0, 0, 0, 0, 0, 0, 0, in_node, in_next, 1); fputs("}\n", logf);
			break;
		case 'c': {
			long ab = -7, aa = -7; unsigned long cnt = ~0UL;
			need_ht(line); cds_lfht_count_nodes(ht, &ab, &cnt, &aa);
			emit("count", 0, 0, 0, 0, (long) cnt, ab, aa, 0, 0, 0); fputs("}\n", logf);
			break; }
		case 'z': {
			need_ht(line);
			if (sscanf(line + 1, "%ld", &x) != 1 || x < -1 || x > 62) drv_fail("PROGRAM bad line: %s", line);
			fl_read_unlock(); it_valid = 0; memset(&it, 0, sizeof it);
			cds_lfht_resize(ht, x < 0 ? 0 : 1UL << x);
			fl_read_lock();
			probe(pbuf, sizeof pbuf);
			if (ht->resize_target != ht->size) drv_fail("ORACLE resize returned with size %lu != resize_target %lu", ht->size, ht->resize_target);
			emit("resize", 0, 0, x, 0, order_of(ht->size), 0, 0, 0, 0, 0); fprintf(logf, ",\"probe\":[%s]}\n", pbuf);
			break; }
		case 'y': {
			need_ht(line);
			fl_read_unlock(); int saved_valid = it_valid;
			int r = cds_lfht_destroy(ht, NULL);
			emit("destroy", 0, 0, 0, r, 0, 0, 0, 0, 0, 0); fputs("}\n", logf);
			if (r) { fl_read_lock(); it_valid = saved_valid; }
			else {
				it_valid = 0; memset(&it, 0, sizeof it);	/* the iterator dies with the table (its next pointer may be a freed bucket) */
				if (!wq_n) ht = NULL;	/* else: freed by the queued destroy work below */
			}
			break; }
		default:
			drv_fail("PROGRAM unknown line: %s", line);
		}
		drain_work();
	}
	drop_all_memory();
	fclose(logf);
	_exit(0);
}
