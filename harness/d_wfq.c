/*
 * Driver: real include/urcu/static/wfqueue.h (legacy cds_wfq, inline, _LGPL_SOURCE) under VSCHED.
 *   usage: d_wfq <seed> <tso> <trace> <program-file>
 * program file: lines "thread <name>" followed by "enq n<k>", "deq <lck>", "reenq".
 */
#define _LGPL_SOURCE
#define CDS_WFQ_DEPRECATED
#include "vrt_redirect.h"
#include <urcu/wfqueue.h>

#define MAXOPS 16
#define MAXN 16
struct op { char kind[8]; int n, lck; };
struct prog { char name[16]; int nops; struct op ops[MAXOPS]; };
static struct prog P[8]; static int np;
static struct cds_wfq_queue q;
static struct cds_wfq_node nodes[MAXN];
static int inq[MAXN];

static void do_enq(int id)
{
	if (inq[id]++) vrt_fail("SCENARIO node n%d enqueued while already in the queue", id);
	vrt_op_begin("wfq_enqueue", VP_WAITFREE);
	cds_wfq_node_init(&nodes[id]);
	cds_wfq_enqueue(&q, &nodes[id]);
	vrt_op_end();
}

static void *runner(void *arg)
{
	struct prog *p = arg; int last = -1;
	for (int k = 0; k < p->nops; k++) {
		struct op *o = &p->ops[k]; char res[64];
		if (!strcmp(o->kind, "enq")) {
			vrt_log("\"op\":\"call\",\"api\":\"enq\",\"n\":\"n%d\"", o->n);
			do_enq(o->n);
			snprintf(res, sizeof res, "ok");
		} else if (!strcmp(o->kind, "reenq")) {
			vrt_log("\"op\":\"call\",\"api\":\"reenq\",\"n\":\"%s\"", last < 0 ? "NULL" : vrt_sym(&nodes[last]));
			if (last < 0) snprintf(res, sizeof res, "skip");
			else { do_enq(last); last = -1; snprintf(res, sizeof res, "ok"); }
		} else {
			struct cds_wfq_node *n;
			vrt_log("\"op\":\"call\",\"api\":\"deq\",\"lck\":%d", o->lck);
			vrt_op_begin("wfq_dequeue_blocking", VP_BLOCKING);
			n = o->lck ? cds_wfq_dequeue_blocking(&q) : __cds_wfq_dequeue_blocking(&q);
			vrt_op_end();
			if (!n) snprintf(res, sizeof res, "NULL");
			else {
				int id = (int)(n - nodes);
				if (n == &q.dummy) vrt_fail("ORACLE dequeue returned the dummy node");
				if (id < 0 || id >= MAXN) vrt_fail("ORACLE dequeue returned a pointer that is not a queued node");
				if (!inq[id]) vrt_fail("ORACLE node n%d dequeued while not in the queue (duplicate)", id);
				inq[id]--; last = id;
				snprintf(res, sizeof res, "%s", vrt_sym(n));
			}
		}
		vrt_log("\"op\":\"ret\",\"r\":\"%s\"", res);
	}
	return NULL;
}

int main(int argc, char **argv)
{
	struct vrt_opts o; vrt_parse_args(argc, argv, &o);
	FILE *f = fopen(argc > 4 ? argv[4] : "/dev/null", "r"); char line[128]; struct prog *cur = NULL;
	if (!f) { perror("program"); return 2; }
	while (fgets(line, sizeof line, f)) {
		char a[16]; int x;
		if (sscanf(line, "thread %15s", a) == 1) { cur = &P[np++]; snprintf(cur->name, sizeof cur->name, "%s", a); continue; }
		if (!cur) continue;
		struct op *op = &cur->ops[cur->nops];
		if (sscanf(line, "enq n%d", &x) == 1) { strcpy(op->kind, "enq"); op->n = x; cur->nops++; }
		else if (sscanf(line, "deq %d", &x) == 1) { strcpy(op->kind, "deq"); op->lck = x; cur->nops++; }
		else if (!strncmp(line, "reenq", 5)) { strcpy(op->kind, "reenq"); cur->nops++; }
	}
	fclose(f);
	cds_wfq_init(&q);
	vrt_name_val(NULL, "NULL");
	vrt_name(&q.tail, VK_PTR, "q.tail"); vrt_name_mutex(&q.lock, "q.lock");
	vrt_name(&q.dummy.next, VK_PTR, "D.next"); vrt_name_val(&q.dummy, "D");	/* &q.dummy == &q.dummy.next: q.tail values are logged as node names */
	for (int k = 0; k < MAXN; k++) {
		cds_wfq_node_init(&nodes[k]);
		vrt_name(&nodes[k].next, VK_PTR, "n%d.next", k); vrt_name_val(&nodes[k], "n%d", k);
	}
	vrt_watch_plain(1);	/* the plain store of cds_wfq_node_init() on a named next field is an event */
	for (int k = 0; k < np; k++) vrt_spawn(P[k].name, runner, &P[k]);
	vrt_run(&o);
	_exit(0);
}
