/*
 * VSCHED runtime (see vrt.h, DESIGN.md 2.3).  NOT instrumented: compile without -DURCU_VERIF redirections
 * and without -fsanitize=thread.
 *
 * Exactly one model thread runs at a time.  Control changes hands only at scheduling points:
 * uv_pre() (every hooked shared access / fence / relax), blocking calls (mutex, futex, cond, join, poll),
 * and -- when enabled -- compiler-inserted callbacks for plain accesses.
 *
 * Agents the scheduler chooses among:  T:<thread>  run thread until its next scheduling point
 *                                      F:<thread>  flush oldest store-buffer entry of thread
 *                                      S:<thread>  deliver the signal handler to thread
 *                                      W:<thread>  spurious / EINTR return of thread's FUTEX_WAIT (fault budget)
 */
#ifndef _GNU_SOURCE
#define _GNU_SOURCE
#endif
#include <stdio.h>
#include <stdlib.h>
#include <string.h>
#include <errno.h>
#include <stdarg.h>
#include <semaphore.h>
#include <unistd.h>
#include <signal.h>
#include <sys/syscall.h>
#include <linux/membarrier.h>
#include <sys/wait.h>
#include "vrt.h"

enum uv_op { UV_LD, UV_ST, UV_XCHG, UV_CAS, UV_ADDRET, UV_ADD, UV_OR, UV_AND, UV_INC, UV_DEC, UV_MB, UV_RMB, UV_WMB, UV_RELAX,
	/* runtime-only pseudo ops */
	UV_LOCK = 32, UV_UNLOCK, UV_FWAIT, UV_FWAKE, UV_POLL, UV_SYSMB, UV_JOIN, UV_CWAIT, UV_YIELD, UV_PLAIN, UV_EXIT, UV_FORK };
static const char *opn[] = { "ld", "st", "xchg", "cas", "addret", "add", "or", "and", "inc", "dec", "mb", "rmb", "wmb", "relax" };

#define MAXT 24
#define SBMAX 32
#define MAXNAMES 4096
#define MAXQ 512
enum { ST_NONE, ST_RUN, ST_BLOCK_MUTEX, ST_BLOCK_FUTEX, ST_BLOCK_COND, ST_BLOCK_JOIN, ST_BLOCK_PRED, ST_DONE };

struct sbe { volatile void *a; unsigned sz; unsigned long v; };
struct mthread {
	char name[24]; int daemon; pthread_t tid; sem_t sem; int state; void *(*fn)(void *); void *arg; void *ret;
	pthread_mutex_t *wait_m; int32_t *wait_f; int woken; int wake_kind; pthread_cond_t *wait_c; int join_t;
	struct sbe sb[SBMAX]; int nsb;
	int pending, need_drain, primed;
	int sigblocked, sig_pending, in_sig, sig_ok;
	int idle_streak;
	const char *opname; int opcls; long opsteps;
	int cpu;
	volatile void *pst_addr; unsigned pst_sz;	/* pending plain store to a named address (value logged lazily) */
	int in_hook;	/* between uv_pre and uv_post of one hooked access: plain accesses made while re-evaluating the hook macro's address argument are not scheduling points */
	void *keyval[8];
	char *stk_lo, *stk_hi; int uses_ops;
	int (*pred)(void *); void *pred_arg;
	int gone;	/* forked child: this thread of the parent does not exist here */
};
static struct mthread T[MAXT];
static int nthreads;
static __thread int self = -1;
static unsigned long rng;
int vrt_tso;
long vrt_nevents;
static long budget = 20000, trace_cap = 8 << 20;
static sem_t main_sem;
static FILE *trace, *schedout;
static int ending, finished;
static int is_child; static const char *trace_path; static int create_fail_at = -1, ncreates;
static void (*sighandler)(void);
static int sig_futex; static int sig_budget, sig_nest_max = 1, spur_budget, eintr_budget, futex_enosys, membarrier_ok = 1;
static int watch_plain;
static void (*unknown_ptr_hook)(const char *var, unsigned long v);
void vrt_set_unknown_ptr_hook(void (*fn)(const char *var, unsigned long v)) { unknown_ptr_hook = fn; }
static long decisions;
static int solo = -1; static char solo_name[24]; static long solo_at = -1, solo_budget = 3000; static int solo_done;
static long sig_at = -1; static char sig_name[24]; static long sig_points;

/* ---------------------------------------------------------------- naming */
struct nm { const volatile void *a; int kind; char n[40]; };
static struct nm NM[MAXNAMES]; static int nnm;
struct vn { unsigned long v; char n[40]; };
static struct vn VN[MAXNAMES]; static int nvn;
struct mxn { const void *m; int owner; char n[32]; };
static struct mxn MX[256]; static int nmx;

void vrt_name(const volatile void *a, enum vrt_kind k, const char *fmt, ...)
{
	va_list ap; int i;
	for (i = 0; i < nnm; i++) if (NM[i].a == a) break;
	if (i == nnm) { if (nnm == MAXNAMES) abort(); nnm++; }
	NM[i].a = a; NM[i].kind = k; va_start(ap, fmt); vsnprintf(NM[i].n, sizeof NM[i].n, fmt, ap); va_end(ap);
}
void vrt_unname(const volatile void *a) { for (int i = 0; i < nnm; i++) if (NM[i].a == a) { NM[i] = NM[--nnm]; return; } }
void vrt_name_val(const void *p, const char *fmt, ...)
{
	va_list ap; int i;
	for (i = 0; i < nvn; i++) if (VN[i].v == (unsigned long) p) break;
	if (i == nvn) { if (nvn == MAXNAMES) abort(); nvn++; }
	VN[i].v = (unsigned long) p; va_start(ap, fmt); vsnprintf(VN[i].n, sizeof VN[i].n, fmt, ap); va_end(ap);
}
void vrt_unname_val(const void *p) { for (int i = 0; i < nvn; i++) if (VN[i].v == (unsigned long) p) { VN[i] = VN[--nvn]; return; } }
static struct nm *nm_find(const volatile void *a) { for (int i = 0; i < nnm; i++) if (NM[i].a == a) return &NM[i]; return NULL; }
static const char *vn_find(unsigned long v) { for (int i = 0; i < nvn; i++) if (VN[i].v == v) return VN[i].n; return NULL; }
static struct mxn *mx_get(const void *m)
{
	for (int i = 0; i < nmx; i++) if (MX[i].m == m) return &MX[i];
	if (nmx == 256) abort();
	MX[nmx].m = m; MX[nmx].owner = -1; snprintf(MX[nmx].n, sizeof MX[nmx].n, "mx%d", nmx); return &MX[nmx++];
}
void vrt_name_mutex(const void *m, const char *name) { struct mxn *x = mx_get(m); snprintf(x->n, sizeof x->n, "%s", name); }

/* value formatting: JSON token (number, or quoted string) */
static char *fmtv(char *buf, size_t n, int kind, unsigned sz, unsigned long v)
{
	const char *s;
	if (kind == VK_PTR) { s = vn_find(v); if (s) snprintf(buf, n, "\"%s\"", s); else snprintf(buf, n, "\"?%lx\"", v); return buf; }
	if (kind == VK_PTRF) { s = vn_find(v & ~7UL); if (s) snprintf(buf, n, "\"%s+%lu\"", s, v & 7UL); else snprintf(buf, n, "\"?%lx\"", v); return buf; }
	if (kind == VK_GPCTR) { snprintf(buf, n, "%lu", ((v >> 32) ? 65536UL : 0UL) + (v & 0xffffUL)); return buf; }
	long sv = sz == 1 ? (long)(int8_t) v : sz == 2 ? (long)(int16_t) v : sz == 4 ? (long)(int32_t) v : (long) v;
	if (sv > 2000000000L || sv < -2000000000L) snprintf(buf, n, "\"x%lx\"", v); else snprintf(buf, n, "%ld", sv);
	return buf;
}
const char *vrt_sym(const void *p)
{
	static char ring[8][48]; static int k; const char *s = vn_find((unsigned long) p);
	if (s) return s;
	k = (k + 1) & 7; snprintf(ring[k], 48, "?%lx", (unsigned long) p); return ring[k];
}

/* ---------------------------------------------------------------- trace */
static void trace_check(void);
static const char *tn(int t) { return t >= 0 ? T[t].name : "main"; }
static const char *base(const char *f) { const char *b = strrchr(f, '/'); return b ? b + 1 : f; }
void vrt_log(const char *fmt, ...)
{
	va_list ap; if (!trace) return;
	fprintf(trace, "{\"t\":\"%s\",", tn(self)); va_start(ap, fmt); vfprintf(trace, fmt, ap); va_end(ap); fputs("}\n", trace);
	trace_check();
}
#ifdef VRT_COV	/* coverage builds of a driver (anchor coverage pass): counters are written before every _exit */
extern void __gcov_dump(void);
static void cov_dump(void) { __gcov_dump(); }
#else
static void cov_dump(void) { }
#endif
static void failv(const char *what, va_list ap)
{
	char msg[256]; vsnprintf(msg, sizeof msg, what, ap);
	if (trace) { fprintf(trace, "{\"t\":\"%s\",\"op\":\"fail\",\"what\":\"%s\"}\n", tn(self), msg); fflush(trace); }
	if (schedout) fflush(schedout);
	fprintf(stderr, "VRT-FAIL %s\n", msg);
	cov_dump();
	_exit(3);
}
void vrt_fail(const char *what, ...) { va_list ap; va_start(ap, what); failv(what, ap); _exit(3); }
static void trace_check(void)
{
	if (++vrt_nevents > budget) vrt_fail("BUDGET events>%ld", budget);
	if (trace && (vrt_nevents & 255) == 0 && ftell(trace) > trace_cap) vrt_fail("BUDGET trace bytes");
}
static void on_crash(int sig)
{
	static const char m1[] = "VRT-FAIL CRASH signal\n"; ssize_t r = write(2, m1, sizeof m1 - 1); (void) r;
	if (trace) { fprintf(trace, "{\"t\":\"%s\",\"op\":\"fail\",\"what\":\"%s\"}\n", tn(self), sig == SIGABRT ? "ASSERT_ABORT" : "CRASH_SIGNAL"); fflush(trace); }
	if (schedout) fflush(schedout);
	_exit(3);
}

/* ---------------------------------------------------------------- memory helpers */
static void wr(volatile void *a, unsigned sz, unsigned long v)
{
	switch (sz) { case 8: *(volatile uint64_t *) a = v; break; case 4: *(volatile uint32_t *) a = v; break;
	case 2: *(volatile uint16_t *) a = v; break; case 1: *(volatile uint8_t *) a = v; break; default: abort(); }
}
static unsigned long rdm(const volatile void *a, unsigned sz)
{
	switch (sz) { case 8: return *(volatile uint64_t *) a; case 4: return *(volatile uint32_t *) a;
	case 2: return *(volatile uint16_t *) a; case 1: return *(volatile uint8_t *) a; default: abort(); }
}
struct qr { const char *p; size_t len; char what[32]; };
static struct qr Q[MAXQ]; static int nq;
void vrt_quarantine(const void *p, size_t len, const char *what)
{
	if (nq == MAXQ) { memmove(&Q[0], &Q[1], sizeof Q[0] * (MAXQ - 1)); nq--; }
	Q[nq].p = p; Q[nq].len = len; snprintf(Q[nq].what, sizeof Q[nq].what, "%s", what); nq++;
}
void vrt_unquarantine(const void *p) { for (int i = 0; i < nq; i++) if (Q[i].p == p) { Q[i] = Q[--nq]; return; } }
static void qcheck(const volatile void *a, unsigned sz, const char *file, int line)
{
	if (!nq || !a) return;
	for (int i = 0; i < nq; i++)
		if ((const char *) a < Q[i].p + Q[i].len && Q[i].p < (const char *) a + (sz ? sz : 1))
			vrt_fail("UAF access to quarantined %s at %s:%d", Q[i].what, file ? base(file) : "?", line);
}

static void flush1(int t)
{
	struct mthread *m = &T[t]; char b[64]; struct nm *n = nm_find(m->sb[0].a);
	wr(m->sb[0].a, m->sb[0].sz, m->sb[0].v);
	if (trace) { fprintf(trace, "{\"t\":\"%s\",\"op\":\"flush\",\"var\":\"%s\",\"a\":%s}\n", T[t].name, n ? n->n : "?",
			fmtv(b, sizeof b, n ? n->kind : VK_INT, m->sb[0].sz, m->sb[0].v)); trace_check(); }
	memmove(&m->sb[0], &m->sb[1], sizeof(struct sbe) * (m->nsb - 1)); m->nsb--;
}
static void replay_forced_flush(int t);
static void drain(int t) { while (T[t].nsb) { replay_forced_flush(t); flush1(t); } }

/* ---------------------------------------------------------------- scheduler */
static int prio[4 * MAXT]; static long chg[8]; static int nchg = 3; static long pct_len = 150; static int pct_init; static int lowprio;
static int uniform;
static char (*rsched)[28]; static long nrs = -1, irs; static int rs_auto_benign; static int replay_diverged;

/* replay: a flush forced by the program itself (fence-like plain store, full buffer) stands for the next scheduled F:<t> */
static void replay_forced_flush(int t)
{
	if (nrs < 0) return;
	char want[40]; snprintf(want, sizeof want, "F:%s", T[t].name);
	for (long j = irs; j < nrs; j++) if (!strcmp(rsched[j], want)) { memmove(&rsched[j], &rsched[j + 1], sizeof(*rsched) * (nrs - j - 1)); nrs--; return; }
}

static int enabled(int i)
{
	if (solo >= 0 && i != solo) return 0;
	switch (T[i].state) {
	case ST_RUN: return !T[i].need_drain || T[i].nsb == 0;
	case ST_BLOCK_MUTEX: return T[i].nsb == 0 && mx_get(T[i].wait_m)->owner == -1;
	case ST_BLOCK_FUTEX: case ST_BLOCK_COND: return T[i].woken;
	case ST_BLOCK_JOIN: return T[T[i].join_t].state == ST_DONE;
	case ST_BLOCK_PRED: return T[i].nsb == 0 && T[i].pred(T[i].pred_arg);
	default: return 0;
	}
}
static void agent_name(int c, char *buf) { static const char k[] = "TFSW"; sprintf(buf, "%c:%s", k[c / MAXT], T[c % MAXT].name); }
static int agent_by_name(const char *s)
{
	const char *k = "TFSW"; const char *p = strchr(k, s[0]); if (!p || s[1] != ':') return -1;
	for (int i = 0; i < nthreads; i++) if (!strcmp(T[i].name, s + 2)) return (int)(p - k) * MAXT + i;
	return -1;
}
static int is_idle_op(int op) { return op == UV_RELAX || op == UV_POLL; }

static void end_run(void)
{
	finished = 1;
	if (is_child) {		/* forked child: there is no main thread to return to */
		if (trace) { fprintf(trace, "{\"t\":\"main\",\"op\":\"end\",\"decisions\":%ld}\n", decisions); fflush(trace); }
		if (schedout) fflush(schedout);
		cov_dump();
		_exit(0);
	}
	sem_post(&main_sem);
}

static void handoff(int c)
{
	int me = self;
	if (c == me) return;
	sem_post(&T[c].sem);
	if (me >= 0 && T[me].state != ST_DONE) sem_wait(&T[me].sem);
}

static void park_forever(void) { int me = self; if (me >= 0 && T[me].state != ST_DONE) for (;;) sem_wait(&T[me].sem); }

static void schedule(void)
{
	for (;;) {
		int cand[4 * MAXT], n = 0, c = -1, alive = 0, i;
		if (finished) { park_forever(); return; }
		for (i = 0; i < nthreads; i++) if (T[i].state != ST_DONE && !T[i].daemon) alive++;
		if (!alive && !ending) { ending = 1; for (i = 0; i < nthreads; i++) T[i].idle_streak = 0; }
		for (i = 0; i < nthreads; i++) {
			if (enabled(i)) { if (!(ending && T[i].idle_streak >= 3)) cand[n++] = i; }
			if (T[i].nsb && (solo < 0 || 1)) cand[n++] = MAXT + i;
			if (solo < 0 && sighandler && sig_budget > 0 && sig_at < 0 && T[i].state == ST_RUN && !T[i].daemon && T[i].sig_ok && !T[i].sigblocked && T[i].in_sig < sig_nest_max && T[i].primed
			    && T[i].nsb == 0 && sig_futex < 2) cand[n++] = 2 * MAXT + i;	/* delivery goes through the kernel: full barrier */
			if (solo < 0 && T[i].state == ST_BLOCK_FUTEX && !T[i].woken && (spur_budget > 0 || eintr_budget > 0)) cand[n++] = 3 * MAXT + i;
			/* VRT_SIG_FUTEX=1: a signal may also hit a thread asleep in FUTEX_WAIT: the handler runs, then the wait returns EINTR (no SA_RESTART);
			 * VRT_SIG_FUTEX=2: signals are delivered ONLY to threads asleep in FUTEX_WAIT (directed runs: the budget is kept for a sleeper) */
			if (solo < 0 && sig_futex && sighandler && sig_budget > 0 && sig_at < 0 && T[i].state == ST_BLOCK_FUTEX && !T[i].woken && !T[i].daemon && T[i].sig_ok
			    && !T[i].sigblocked && T[i].in_sig < sig_nest_max && T[i].nsb == 0) cand[n++] = 2 * MAXT + i;
		}
		/* fault agents alone cannot keep a run alive */
		int real = 0; for (i = 0; i < n; i++) if (cand[i] < 2 * MAXT) real++;
		if (!real) {
			if (alive) {
				if (trace) for (i = 0; i < nthreads; i++) if (T[i].state != ST_DONE)
					fprintf(trace, "{\"t\":\"%s\",\"op\":\"blocked\",\"state\":%d,\"var\":\"%s\"}\n", T[i].name, T[i].state,
						T[i].state == ST_BLOCK_MUTEX ? mx_get(T[i].wait_m)->n : T[i].state == ST_BLOCK_FUTEX ? (nm_find(T[i].wait_f) ? nm_find(T[i].wait_f)->n : "?") : "-");
				vrt_fail(solo >= 0 ? "SOLO_BLOCKED thread %s cannot progress alone" : "DEADLOCK no enabled agent", solo >= 0 ? T[solo].name : "");
			}
			end_run(); park_forever(); return;
		}
		if (nrs >= 0) {			/* replay */
			if (rs_auto_benign) {
				for (i = 0; i < nthreads && c < 0; i++) if (T[i].state == ST_RUN && !T[i].primed && enabled(i)) c = i;
				for (i = 0; i < nthreads && c < 0; i++) if (T[i].state == ST_RUN && is_idle_op(T[i].pending) && enabled(i) && !ending) c = i;
			}
			if (c < 0) {
				if (irs >= nrs) {	/* schedule exhausted: finish deterministically, lowest agent first */
					c = cand[0]; for (i = 1; i < n; i++) if (cand[i] < 2 * MAXT && cand[i] % MAXT * 2 + cand[i] / MAXT < c % MAXT * 2 + c / MAXT) c = cand[i];
					if (c >= 2 * MAXT) { end_run(); park_forever(); return; }
				} else {
					c = agent_by_name(rsched[irs]); int ok = 0;
					for (i = 0; i < n; i++) if (cand[i] == c) ok = 1;
					if (c < 0 || !ok) {	/* the code cannot follow the given behaviour here: record it and continue with the seeded scheduler */
						if (trace) { fprintf(trace, "{\"t\":\"main\",\"op\":\"replay_diverged\",\"at\":%ld,\"agent\":\"%s\"}\n", irs, rsched[irs]); }
						replay_diverged = 1; nrs = -1; continue;
					}
					irs++;
				}
			}
		}
		if (c < 0 && uniform) { rng ^= rng << 13; rng ^= rng >> 7; rng ^= rng << 17; c = cand[rng % n]; }
		if (c < 0) {			/* PCT */
			if (!pct_init) {
				pct_init = 1;
				for (i = 0; i < 4 * MAXT; i++) { rng ^= rng << 13; rng ^= rng >> 7; rng ^= rng << 17; prio[i] = 1000 + (int)(rng % 100000); }
				for (i = 0; i < nchg; i++) { rng ^= rng << 13; rng ^= rng >> 7; rng ^= rng << 17; chg[i] = (long)(rng % pct_len); }
			}
			c = cand[0]; for (i = 1; i < n; i++) if (prio[cand[i]] > prio[c]) c = cand[i];
			for (i = 0; i < nchg; i++) if (decisions == chg[i]) prio[c] = i + 1;
		}
		decisions++;
		if (schedout) { char b[40]; agent_name(c, b); fprintf(schedout, "%s\n", b); }
		if (solo_at >= 0 && !solo_done && decisions == solo_at) {
			int t = -1; for (i = 0; i < nthreads; i++) if (!strcmp(T[i].name, solo_name)) t = i;
			solo_done = 1;
			if (t >= 0 && T[t].state == ST_RUN && T[t].opname && (T[t].opcls == VP_WAITFREE || T[t].opcls == VP_LOCKFREE)) {
				for (i = 0; i < nthreads; i++) if (i != t) drain(i);
				solo = t; T[t].opsteps = 0;
				if (trace) fprintf(trace, "{\"t\":\"%s\",\"op\":\"solo_begin\",\"api\":\"%s\",\"cls\":%d}\n", T[t].name, T[t].opname, T[t].opcls);
				continue;
			} else if (trace) fprintf(trace, "{\"t\":\"%s\",\"op\":\"solo_skip\"}\n", solo_name);
		}
		if (c >= 3 * MAXT) { int t = c - 3 * MAXT; T[t].woken = 1;
			if (spur_budget > 0) { spur_budget--; T[t].wake_kind = 1; } else { eintr_budget--; T[t].wake_kind = 2; } continue; }
		if (c >= 2 * MAXT) { int t = c - 2 * MAXT; sig_budget--; T[t].sig_pending++;
			if (T[t].state == ST_BLOCK_FUTEX) { T[t].woken = 1; T[t].wake_kind = 2; }	/* interrupted sleep: EINTR after the handler */
			c = t; }
		else if (c >= MAXT) { flush1(c - MAXT); continue; }
		handoff(c);
		return;
	}
}
static void yield_here(void) { if (self >= 0) schedule(); }
void vrt_yield(void) { if (self < 0) return; T[self].pending = UV_YIELD; T[self].need_drain = 0; T[self].primed = 1; yield_here(); }

static void idle_mark(int op)
{
	struct mthread *m = &T[self];
	if (is_idle_op(op)) { m->idle_streak++; prio[self] = --lowprio;
		if (solo == self) vrt_fail("WAITED op %s (class %d) executed a busy-wait/poll while every other thread is suspended", m->opname ? m->opname : "?", m->opcls);
	} else if (op == UV_ST || op == UV_XCHG || op == UV_CAS || (op >= UV_ADDRET && op <= UV_DEC) || op == UV_FWAKE || op == UV_UNLOCK) m->idle_streak = 0;
}

static void run_signal(void)
{
	struct mthread *m = &T[self]; int sp = m->pending, sd = m->need_drain;
	while (m->sig_pending) {
		m->sig_pending--; m->in_sig++;
		if (trace) { fprintf(trace, "{\"t\":\"%s\",\"op\":\"sig_enter\",\"nest\":%d}\n", m->name, m->in_sig); trace_check(); }
		sighandler();
		while (m->nsb) { m->pending = UV_MB; m->need_drain = 1; yield_here(); }	/* sigreturn: full barrier */
		if (trace) { fprintf(trace, "{\"t\":\"%s\",\"op\":\"sig_exit\",\"nest\":%d}\n", m->name, m->in_sig); trace_check(); }
		m->in_sig--;
	}
	m->pending = sp; m->need_drain = sd;
}

static void sched_point(int op, int need_drain)
{
	struct mthread *m = &T[self];
	m->pending = op; m->need_drain = need_drain && vrt_tso; m->primed = 1;
	idle_mark(op);
	if (sig_at >= 0 && sighandler && !strcmp(sig_name, m->name) && m->sig_ok && !m->sigblocked && m->in_sig < sig_nest_max) {
		if (sig_points++ == sig_at) { drain(self); m->sig_pending++; run_signal(); m->pending = op; m->need_drain = need_drain && vrt_tso; }
	}
	for (;;) {
		yield_here();
		if (m->sig_pending) { run_signal(); continue; }
		if (m->need_drain && m->nsb) continue;
		break;
	}
	if (m->opname) { m->opsteps++; if (solo == self && m->opsteps > solo_budget) vrt_fail("SOLO_BUDGET op %s exceeded %ld own steps", m->opname, solo_budget); }
}

static void lazy_plain(void)
{
	struct mthread *m = &T[self]; char b[64];
	if (!m->pst_addr) return;
	struct nm *n = nm_find(m->pst_addr);
	if (n && trace) { fprintf(trace, "{\"t\":\"%s\",\"op\":\"st\",\"var\":\"%s\",\"a\":%s,\"mo\":-1,\"loc\":\"plain\"}\n", m->name, n->n,
			fmtv(b, sizeof b, n->kind, m->pst_sz, rdm(m->pst_addr, m->pst_sz))); trace_check(); }
	m->pst_addr = NULL;
}

/* ---------------------------------------------------------------- L-A hooks */
void uv_pre(int op, const volatile void *addr, unsigned int sz, int mo, const char *file, int line)
{
	if (self < 0) return;
	lazy_plain();
	qcheck(addr, sz, file, line);
	int nd = !(op == UV_LD || op == UV_RELAX || (op == UV_ST && mo < 5));
	sched_point(op, nd);
	qcheck(addr, sz, file, line);	/* again: the object may have been reclaimed while this thread was parked at the access */
	T[self].in_hook = 1;
}
void uv_post(int op, const volatile void *addr, unsigned int sz, unsigned long a, unsigned long b, unsigned long res, int mo, const char *file, int line)
{
	char b1[64], b2[64], b3[64];
	if (self >= 0) T[self].in_hook = 0;
	if (self < 0 || !trace) { if (self >= 0) trace_check(); return; }
	struct nm *n = addr ? nm_find(addr) : NULL; int k = n ? n->kind : VK_INT;
	if (n && k != VK_INT && unknown_ptr_hook) {	/* let the driver name dynamically created objects (stack wait nodes, malloc'ed nodes) */
		unsigned long m_ = k == VK_PTRF ? ~7UL : ~0UL;
		if ((op == UV_ST || op == UV_XCHG) && !vn_find(a & m_)) unknown_ptr_hook(n->n, a & m_);
		if (op == UV_CAS && !vn_find(b & m_)) unknown_ptr_hook(n->n, b & m_);
		n = nm_find(addr);
	}
	int opk = (op == UV_ADDRET || op == UV_ADD) && k != VK_INT ? VK_INT : k;
	fprintf(trace, "{\"t\":\"%s\",\"op\":\"%s\",\"var\":\"%s\",\"a\":%s,\"b\":%s,\"r\":%s,\"mo\":%d,\"loc\":\"%s:%d\"}\n", T[self].name, opn[op],
		addr ? (n ? n->n : "?") : "-", fmtv(b1, sizeof b1, (op >= UV_ADDRET && op <= UV_AND) ? VK_INT : opk, sz, a), fmtv(b2, sizeof b2, k, sz, b), fmtv(b3, sizeof b3, k, sz, res), mo, base(file), line);
	trace_check();
}
unsigned long uv_do_load(const volatile void *a, unsigned sz, int mo)
{
	(void) mo;
	if (self >= 0 && T[self].nsb) {
		struct mthread *m = &T[self];
		for (int i = m->nsb - 1; i >= 0; i--) {
			if (m->sb[i].a == a && m->sb[i].sz == sz) return m->sb[i].v;
			const char *p = (const char *) m->sb[i].a;
			if ((const char *) a < p + m->sb[i].sz && p < (const char *) a + sz) { drain(self); break; }	/* partial overlap: conservative */
		}
	}
	return rdm(a, sz);
}
void uv_do_store(volatile void *a, unsigned sz, unsigned long v, int mo)
{
	if (self < 0 || !vrt_tso || mo >= 5) {
		if (self >= 0) drain(self);
		wr(a, sz, v);
		if (mo >= 5) __atomic_thread_fence(__ATOMIC_SEQ_CST);
		return;
	}
	struct mthread *m = &T[self];
	if (m->nsb == SBMAX) flush1(self);
	m->sb[m->nsb++] = (struct sbe){ a, sz, v };
}

/* ---------------------------------------------------------------- L-B: compiler callbacks for plain accesses */
static void plain(void *a, unsigned sz, int is_write, void *pc)
{
	(void) pc;
	if (self < 0) return;
	struct mthread *m = &T[self];
	if (m->uses_ops && !m->opname && !m->in_sig) return;	/* driver bookkeeping between operations is not library code */
	if (nq) qcheck(a, sz, "plain-access", 0);
	if (m->nsb) {
		/* TSO keeps all stores of a thread in order: a plain store goes straight to memory, so older buffered stores
		 * must be committed first -- unless it targets the thread's own (unnamed, hence unshared) stack */
		if (is_write) { if (!((char *) a >= m->stk_lo && (char *) a < m->stk_hi) || nm_find(a)) drain(self); }
		else for (int i = 0; i < m->nsb; i++) { const char *b = (const char *) m->sb[i].a;
			if ((const char *) a < b + m->sb[i].sz && b < (const char *) a + sz) { drain(self); break; } }
	}
	if (!watch_plain || m->in_hook) return;
	struct nm *n = nm_find(a);
	if (!n && watch_plain < 2) return;
	lazy_plain();
	sched_point(UV_PLAIN, 0);
	if (nq) qcheck(a, sz, "plain-access", 0);
	if (!n) return;
	if (is_write) { m->pst_addr = a; m->pst_sz = sz; }
	else if (trace) { char b[64]; fprintf(trace, "{\"t\":\"%s\",\"op\":\"ld\",\"var\":\"%s\",\"r\":%s,\"mo\":-1,\"loc\":\"plain\"}\n", m->name, n->n, fmtv(b, sizeof b, n->kind, sz, rdm(a, sz))); trace_check(); }
}
void vrt_watch_plain(int on) { watch_plain = on; }
void __tsan_init(void) {}
void __tsan_func_entry(void *pc) { (void) pc; }
void __tsan_func_exit(void) {}
#define RW(n) void __tsan_read##n(void *a) { plain(a, n, 0, __builtin_return_address(0)); } void __tsan_write##n(void *a) { plain(a, n, 1, __builtin_return_address(0)); } \
	void __tsan_unaligned_read##n(void *a) { plain(a, n, 0, __builtin_return_address(0)); } void __tsan_unaligned_write##n(void *a) { plain(a, n, 1, __builtin_return_address(0)); } \
	void __tsan_read##n##_pc(void *a, void *pc) { plain(a, n, 0, pc); } void __tsan_write##n##_pc(void *a, void *pc) { plain(a, n, 1, pc); }
RW(1) RW(2) RW(4) RW(8) RW(16)
void __tsan_vptr_update(void **a, void *b) { (void) a; (void) b; }
void __tsan_vptr_read(void **a) { (void) a; }
void __tsan_read_range(void *a, unsigned long s) { plain(a, (unsigned) s, 0, 0); }
void __tsan_write_range(void *a, unsigned long s) { plain(a, (unsigned) s, 1, 0); }
void *__tsan_memcpy(void *d, const void *s, unsigned long n) { plain((void *) s, (unsigned) n, 0, 0); plain(d, (unsigned) n, 1, 0); return memcpy(d, s, n); }
void *__tsan_memset(void *d, int c, unsigned long n) { plain(d, (unsigned) n, 1, 0); return memset(d, c, n); }
void *__tsan_memmove(void *d, const void *s, unsigned long n) { plain((void *) s, (unsigned) n, 0, 0); plain(d, (unsigned) n, 1, 0); return memmove(d, s, n); }
void __tsan_acquire(void *a) { (void) a; }
void __tsan_release(void *a) { (void) a; }
void __tsan_atomic_thread_fence(int mo) { (void) mo; if (self >= 0) drain(self); __atomic_thread_fence(__ATOMIC_SEQ_CST); }
void __tsan_atomic_signal_fence(int mo) { (void) mo; __atomic_signal_fence(__ATOMIC_SEQ_CST); }
#define TA(N, TY) \
	TY __tsan_atomic##N##_load(const volatile TY *a, int mo) { (void) mo; if (self >= 0) drain(self); return __atomic_load_n(a, __ATOMIC_SEQ_CST); } \
	void __tsan_atomic##N##_store(volatile TY *a, TY v, int mo) { (void) mo; if (self >= 0) drain(self); __atomic_store_n(a, v, __ATOMIC_SEQ_CST); } \
	TY __tsan_atomic##N##_exchange(volatile TY *a, TY v, int mo) { (void) mo; if (self >= 0) drain(self); return __atomic_exchange_n(a, v, __ATOMIC_SEQ_CST); } \
	TY __tsan_atomic##N##_fetch_add(volatile TY *a, TY v, int mo) { (void) mo; if (self >= 0) drain(self); return __atomic_fetch_add(a, v, __ATOMIC_SEQ_CST); } \
	TY __tsan_atomic##N##_fetch_sub(volatile TY *a, TY v, int mo) { (void) mo; if (self >= 0) drain(self); return __atomic_fetch_sub(a, v, __ATOMIC_SEQ_CST); } \
	TY __tsan_atomic##N##_fetch_and(volatile TY *a, TY v, int mo) { (void) mo; if (self >= 0) drain(self); return __atomic_fetch_and(a, v, __ATOMIC_SEQ_CST); } \
	TY __tsan_atomic##N##_fetch_or(volatile TY *a, TY v, int mo) { (void) mo; if (self >= 0) drain(self); return __atomic_fetch_or(a, v, __ATOMIC_SEQ_CST); } \
	TY __tsan_atomic##N##_fetch_xor(volatile TY *a, TY v, int mo) { (void) mo; if (self >= 0) drain(self); return __atomic_fetch_xor(a, v, __ATOMIC_SEQ_CST); } \
	TY __tsan_atomic##N##_fetch_nand(volatile TY *a, TY v, int mo) { (void) mo; if (self >= 0) drain(self); return __atomic_fetch_nand(a, v, __ATOMIC_SEQ_CST); } \
	int __tsan_atomic##N##_compare_exchange_strong(volatile TY *a, TY *c, TY v, int mo, int fmo) { (void) mo; (void) fmo; if (self >= 0) drain(self); return __atomic_compare_exchange_n(a, c, v, 0, __ATOMIC_SEQ_CST, __ATOMIC_SEQ_CST); } \
	int __tsan_atomic##N##_compare_exchange_weak(volatile TY *a, TY *c, TY v, int mo, int fmo) { (void) mo; (void) fmo; if (self >= 0) drain(self); return __atomic_compare_exchange_n(a, c, v, 0, __ATOMIC_SEQ_CST, __ATOMIC_SEQ_CST); } \
	TY __tsan_atomic##N##_compare_exchange_val(volatile TY *a, TY c, TY v, int mo, int fmo) { (void) mo; (void) fmo; if (self >= 0) drain(self); __atomic_compare_exchange_n(a, &c, v, 0, __ATOMIC_SEQ_CST, __ATOMIC_SEQ_CST); return c; }
TA(8, uint8_t) TA(16, uint16_t) TA(32, uint32_t) TA(64, uint64_t)

/* ---------------------------------------------------------------- libc redirection targets */
int vrt_mutex_lock(pthread_mutex_t *m)
{
	if (self < 0) { mx_get(m)->owner = -2; return 0; }
	lazy_plain();
	T[self].wait_m = m; T[self].state = ST_BLOCK_MUTEX; sched_point(UV_LOCK, 1); T[self].state = ST_RUN;
	struct mxn *x = mx_get(m); if (x->owner != -1) vrt_fail("RUNTIME mutex %s taken while owned", x->n);
	x->owner = self;
	if (trace) { fprintf(trace, "{\"t\":\"%s\",\"op\":\"lock\",\"var\":\"%s\"}\n", T[self].name, x->n); trace_check(); }
	return 0;
}
int vrt_mutex_trylock(pthread_mutex_t *m)
{
	if (self < 0) { struct mxn *x = mx_get(m); if (x->owner != -1) return EBUSY; x->owner = -2; return 0; }
	lazy_plain();
	sched_point(UV_LOCK, 1);
	struct mxn *x = mx_get(m); int ok = x->owner == -1; if (ok) x->owner = self;
	if (trace) { fprintf(trace, "{\"t\":\"%s\",\"op\":\"trylock\",\"var\":\"%s\",\"r\":%d}\n", T[self].name, x->n, ok); trace_check(); }
	return ok ? 0 : EBUSY;
}
int vrt_mutex_unlock(pthread_mutex_t *m)
{
	struct mxn *x = mx_get(m);
	if (self < 0) { x->owner = -1; return 0; }
	lazy_plain();
	sched_point(UV_UNLOCK, 1);
	if (x->owner != self) vrt_fail("LOCK_MISUSE unlock of mutex %s not owned by caller", x->n);
	x->owner = -1;
	if (trace) { fprintf(trace, "{\"t\":\"%s\",\"op\":\"unlock\",\"var\":\"%s\"}\n", T[self].name, x->n); trace_check(); }
	return 0;
}
int vrt_cond_wait(pthread_cond_t *c, pthread_mutex_t *m)
{
	if (self < 0) return 0;
	struct mxn *x = mx_get(m); if (x->owner != self) vrt_fail("LOCK_MISUSE cond_wait without mutex");
	lazy_plain();
	sched_point(UV_CWAIT, 1);
	x->owner = -1; T[self].wait_c = c; T[self].woken = 0; T[self].state = ST_BLOCK_COND;
	if (trace) { fprintf(trace, "{\"t\":\"%s\",\"op\":\"cwait\",\"var\":\"%s\"}\n", T[self].name, x->n); trace_check(); }
	sched_point(UV_CWAIT, 0);
	T[self].wait_m = m; T[self].state = ST_BLOCK_MUTEX; sched_point(UV_LOCK, 1); T[self].state = ST_RUN; x->owner = self;
	if (trace) { fprintf(trace, "{\"t\":\"%s\",\"op\":\"cwoke\",\"var\":\"%s\"}\n", T[self].name, x->n); trace_check(); }
	return 0;
}
int vrt_cond_broadcast(pthread_cond_t *c)
{
	if (self < 0) return 0;
	lazy_plain(); sched_point(UV_FWAKE, 1);
	int n = 0; for (int i = 0; i < nthreads; i++) if (T[i].state == ST_BLOCK_COND && T[i].wait_c == c && !T[i].woken) { T[i].woken = 1; n++; }
	if (trace) { fprintf(trace, "{\"t\":\"%s\",\"op\":\"cbroadcast\",\"r\":%d}\n", T[self].name, n); trace_check(); }
	return 0;
}
int vrt_cond_signal(pthread_cond_t *c) { return vrt_cond_broadcast(c); }
int vrt_poll(struct pollfd *fds, nfds_t n, int ms)
{
	(void) fds; (void) n; (void) ms;
	if (self < 0) return 0;
	lazy_plain(); sched_point(UV_POLL, 0);	/* not modelled as a fence: the specifications do not rely on it */
	if (trace) { fprintf(trace, "{\"t\":\"%s\",\"op\":\"poll\"}\n", T[self].name); trace_check(); }
	return 0;
}
int vrt_usleep(unsigned us) { (void) us; return vrt_poll(NULL, 0, 0); }
unsigned vrt_sleep(unsigned s) { (void) s; vrt_poll(NULL, 0, 0); return 0; }

long vrt_syscall(long nr, ...)
{
	va_list ap; va_start(ap, nr);
	if (nr == SYS_futex) {
		int32_t *u = va_arg(ap, int32_t *); int op = va_arg(ap, int); int32_t val = va_arg(ap, int32_t); va_end(ap);
		struct nm *n = nm_find(u); char vnb[40]; snprintf(vnb, sizeof vnb, "%s", n ? n->n : "?"); const char *vn_ = vnb;	/* copy: the name table may be reshuffled (vrt_unname) while this thread sleeps */
		if (self < 0) { if (op == 0 && *u == val) { fprintf(stderr, "VRT-FAIL main thread would block in futex\n"); _exit(3); } errno = EAGAIN; return op == 0 ? -1 : 0; }
		lazy_plain();
		if (futex_enosys) {
			sched_point(op == 0 ? UV_FWAIT : UV_FWAKE, 1);
			if (trace) { fprintf(trace, "{\"t\":\"%s\",\"op\":\"%s\",\"var\":\"%s\",\"r\":\"ENOSYS\"}\n", T[self].name, op == 0 ? "fwait" : "fwake", vn_); trace_check(); }
			errno = ENOSYS; return -1;
		}
		if (op == 0) {		/* FUTEX_WAIT */
			sched_point(UV_FWAIT, 1);
			if (*u != val) {
				if (trace) { fprintf(trace, "{\"t\":\"%s\",\"op\":\"fwait\",\"var\":\"%s\",\"a\":%d,\"r\":\"EAGAIN\"}\n", T[self].name, vn_, val); trace_check(); }
				errno = EAGAIN; return -1;
			}
			if (trace) { fprintf(trace, "{\"t\":\"%s\",\"op\":\"fwait\",\"var\":\"%s\",\"a\":%d,\"r\":\"SLEEP\"}\n", T[self].name, vn_, val); trace_check(); }
			T[self].wait_f = u; T[self].woken = 0; T[self].wake_kind = 0; T[self].state = ST_BLOCK_FUTEX;
			sched_point(UV_FWAIT, 0);
			T[self].state = ST_RUN;
			int wk = T[self].wake_kind;
			if (trace) { fprintf(trace, "{\"t\":\"%s\",\"op\":\"fwoke\",\"var\":\"%s\",\"r\":\"%s\"}\n", T[self].name, vn_, wk == 0 ? "WAKE" : wk == 1 ? "SPURIOUS" : "EINTR"); trace_check(); }
			if (wk == 2) { errno = EINTR; return -1; }
			return 0;
		}
		/* FUTEX_WAKE */
		sched_point(UV_FWAKE, 1);
		int woke = 0;
		for (int i = 0; i < nthreads && woke < val; i++) if (T[i].state == ST_BLOCK_FUTEX && T[i].wait_f == u && !T[i].woken) { T[i].woken = 1; T[i].wake_kind = 0; woke++; }
		if (trace) { fprintf(trace, "{\"t\":\"%s\",\"op\":\"fwake\",\"var\":\"%s\",\"a\":%d,\"r\":%d}\n", T[self].name, vn_, val, woke); trace_check(); }
		return woke;
	}
	if (nr == SYS_membarrier) {
		int cmd = va_arg(ap, int); va_end(ap);
		if (!membarrier_ok) { errno = ENOSYS; return -1; }
		if (cmd == MEMBARRIER_CMD_QUERY) return MEMBARRIER_CMD_PRIVATE_EXPEDITED | MEMBARRIER_CMD_REGISTER_PRIVATE_EXPEDITED | MEMBARRIER_CMD_SHARED;
		if (cmd == MEMBARRIER_CMD_REGISTER_PRIVATE_EXPEDITED) return 0;
		if (self < 0) return 0;
		lazy_plain(); sched_point(UV_SYSMB, 1);
		for (int i = 0; i < nthreads; i++) drain(i);
		if (trace) { fprintf(trace, "{\"t\":\"%s\",\"op\":\"sysmb\"}\n", T[self].name); trace_check(); }
		return 0;
	}
	long a1 = va_arg(ap, long), a2 = va_arg(ap, long), a3 = va_arg(ap, long), a4 = va_arg(ap, long), a5 = va_arg(ap, long), a6 = va_arg(ap, long);
	va_end(ap);
	return syscall(nr, a1, a2, a3, a4, a5, a6);
}

int vrt_pthread_sigmask(int how, const sigset_t *set, sigset_t *old)
{
	if (old) sigemptyset(old);
	if (self < 0 || !set) return 0;
	int was = T[self].sigblocked;
	if (how == SIG_BLOCK) T[self].sigblocked = 1;
	else if (how == SIG_UNBLOCK) T[self].sigblocked = 0;
	else T[self].sigblocked = !sigisemptyset(set);
	if (old && was) sigfillset(old);
	if (trace) { fprintf(trace, "{\"t\":\"%s\",\"op\":\"sigmask\",\"r\":%d}\n", T[self].name, T[self].sigblocked); trace_check(); }
	return 0;
}
int vrt_sched_getcpu(void) { return self >= 0 ? T[self].cpu : 0; }
void vrt_set_cpu(int cpu) { if (self >= 0) T[self].cpu = cpu; }
void vrt_set_sighandler(void (*fn)(void)) { sighandler = fn; }
void vrt_sig_allow(int on) { if (self >= 0) T[self].sig_ok = on; }

/* ---------------------------------------------------------------- threads */
const char *vrt_self_name(void) { return tn(self); }
int vrt_self(void) { return self; }
int vrt_in_model(void) { return self >= 0; }

static void *trampoline(void *p)
{
	int id = (int)(long) p; self = id;
	{ pthread_attr_t at; void *sa = NULL; size_t ss = 0;
	  if (!pthread_getattr_np(pthread_self(), &at)) { pthread_attr_getstack(&at, &sa, &ss); pthread_attr_destroy(&at); }
	  T[id].stk_lo = sa; T[id].stk_hi = (char *) sa + ss; }
	sem_wait(&T[id].sem);
	T[id].ret = T[id].fn(T[id].arg);
	lazy_plain();
	sched_point(UV_EXIT, 1);
	if (trace) { fprintf(trace, "{\"t\":\"%s\",\"op\":\"exit\"}\n", T[id].name); trace_check(); }
	T[id].state = ST_DONE;
	schedule();
	return NULL;
}
static int spawn_common(const char *name, void *(*fn)(void *), void *arg, int daemon)
{
	if (nthreads == MAXT) { fprintf(stderr, "VRT: too many threads\n"); _exit(2); }
	int id = nthreads++;
	snprintf(T[id].name, sizeof T[id].name, "%s", name); T[id].fn = fn; T[id].arg = arg; T[id].state = ST_RUN; T[id].daemon = daemon; T[id].pending = -1;
	T[id].cpu = self >= 0 ? T[self].cpu : 0;
	sem_init(&T[id].sem, 0, 0);
	pthread_attr_t at; pthread_attr_init(&at); pthread_attr_setstacksize(&at, 1 << 20);
	if (pthread_create(&T[id].tid, &at, trampoline, (void *)(long) id)) { perror("pthread_create"); _exit(2); }
	return id;
}
void vrt_spawn(const char *name, void *(*fn)(void *), void *arg)
{
	int id = spawn_common(name, fn, arg, 0);
	if (self >= 0 && trace) { fprintf(trace, "{\"t\":\"%s\",\"op\":\"spawn\",\"var\":\"%s\"}\n", T[self].name, T[id].name); trace_check(); }
}
static int nhelpers;
int vrt_pthread_create(pthread_t *tid, const pthread_attr_t *attr, void *(*fn)(void *), void *arg)
{
	(void) attr; char nmb[16];
	if (create_fail_at >= 0 && ncreates++ == create_fail_at) {
		if (trace) { fprintf(trace, "{\"t\":\"%s\",\"op\":\"fault\",\"var\":\"pthread_create\",\"r\":\"EAGAIN\"}\n", tn(self)); trace_check(); }
		return EAGAIN;
	}
	snprintf(nmb, sizeof nmb, "h%d", ++nhelpers);
	if (self >= 0) drain(self);	/* clone() is a system call: the creator's buffered stores are visible to the new thread */
	int id = spawn_common(nmb, fn, arg, 1); *tid = T[id].tid;
	if (trace) { fprintf(trace, "{\"t\":\"%s\",\"op\":\"spawn\",\"var\":\"%s\"}\n", tn(self), nmb); trace_check(); }
	return 0;
}
int vrt_pthread_join(pthread_t tid, void **ret)
{
	int id = -1; for (int i = 0; i < nthreads; i++) if (pthread_equal(T[i].tid, tid)) id = i;
	if (ret) *ret = id >= 0 ? T[id].ret : NULL;
	if (id < 0 || self < 0) return 0;
	if (T[id].gone) vrt_fail("JOIN_GONE pthread_join on thread %s, which does not exist in the forked child", T[id].name);
	lazy_plain();
	T[self].join_t = id; T[self].state = ST_BLOCK_JOIN; sched_point(UV_JOIN, 1); T[self].state = ST_RUN;
	if (ret) *ret = T[id].ret;
	if (trace) { fprintf(trace, "{\"t\":\"%s\",\"op\":\"join\",\"var\":\"%s\"}\n", T[self].name, T[id].name); trace_check(); }
	return 0;
}

/* block the calling model thread until pred(arg) holds (evaluated by the scheduler; must be side-effect free) */
void vrt_wait_until(int (*pred)(void *), void *arg)
{
	if (self < 0) { if (!pred(arg)) { fprintf(stderr, "VRT-FAIL main thread would block\n"); _exit(3); } return; }
	lazy_plain();
	T[self].pred = pred; T[self].pred_arg = arg; T[self].state = ST_BLOCK_PRED; sched_point(UV_CWAIT, 1); T[self].state = ST_RUN;
}
/* fork() from a model thread: the child contains only the calling thread (its scheduler table marks every other thread as gone,
 * mutexes they own stay owned, their store buffers are lost) and writes its own trace <trace>.child; it _exit(0)s when its run ends. */
pid_t vrt_fork(void)
{
	if (self < 0) return fork();
	lazy_plain(); sched_point(UV_FORK, 1);
	if (trace) fflush(trace);
	if (schedout) fflush(schedout);
	fflush(stderr);
	pid_t p = fork();
	if (p < 0) return p;
	if (p == 0) {
		is_child = 1; ending = 0; finished = 0; nrs = -1; solo = -1; solo_at = -1; sig_at = -1;
		for (int i = 0; i < nthreads; i++) if (i != self) { if (T[i].state != ST_DONE) T[i].gone = 1; T[i].state = ST_DONE; T[i].nsb = 0; }
		if (trace) { char pth[512]; snprintf(pth, sizeof pth, "%s.child", trace_path ? trace_path : "/dev/null"); trace = fopen(pth, "w"); if (trace) setvbuf(trace, NULL, _IOFBF, 1 << 16); }
		schedout = NULL;
		if (trace) { fprintf(trace, "{\"t\":\"%s\",\"op\":\"fork\",\"r\":\"child\"}\n", T[self].name); trace_check(); }
	} else if (trace) { fprintf(trace, "{\"t\":\"%s\",\"op\":\"fork\",\"r\":\"parent\"}\n", T[self].name); trace_check(); }
	return p;
}
int vrt_is_child(void) { return is_child; }
/* wait for a forked child (real waitpid: the child is a separate, independently serialised process); returns its exit status or -1 */
int vrt_wait_child(pid_t pid)
{
	int st = 0; pid_t r;
	do r = waitpid(pid, &st, 0); while (r < 0 && errno == EINTR);
	if (r < 0) return -1;
	return WIFEXITED(st) ? WEXITSTATUS(st) : 128 + (WIFSIGNALED(st) ? WTERMSIG(st) : 0);
}
void vrt_daemonize(void) { if (self >= 0) T[self].daemon = 1; }
void vrt_spawn_daemon(const char *name, void *(*fn)(void *), void *arg) { spawn_common(name, fn, arg, 1); }

void vrt_op_begin(const char *name, enum vrt_prog cls) { if (self < 0) return; T[self].uses_ops = 1; T[self].opname = name; T[self].opcls = cls; T[self].opsteps = 0; }
long vrt_op_end(void)
{
	if (self < 0) return 0;
	lazy_plain();	/* the operation's last plain store is logged before any later event of the caller */
	long s = T[self].opsteps; T[self].opname = NULL;
	if (solo == self) { solo = -1; if (trace) { fprintf(trace, "{\"t\":\"%s\",\"op\":\"solo_end\",\"steps\":%ld}\n", T[self].name, s); trace_check(); } }
	return s;
}

static int envi(const char *n, int d) { const char *s = getenv(n); return s ? atoi(s) : d; }
void vrt_parse_args(int argc, char **argv, struct vrt_opts *o)
{
	memset(o, 0, sizeof *o);
	o->seed = argc > 1 ? strtoul(argv[1], 0, 0) : 1; o->tso = argc > 2 ? atoi(argv[2]) : 0; o->trace = argc > 3 ? argv[3] : NULL;
	o->mode = getenv("VRT_MODE");
}
void vrt_run(const struct vrt_opts *o)
{
	struct sigaction sa; memset(&sa, 0, sizeof sa); sa.sa_handler = on_crash;
	sigaction(SIGABRT, &sa, NULL); sigaction(SIGSEGV, &sa, NULL); sigaction(SIGBUS, &sa, NULL); sigaction(SIGFPE, &sa, NULL);
	rng = 88172645463325252UL ^ ((o->seed + 1) * 0x9E3779B97F4A7C15UL); if (!rng) rng = 1;
	for (int i = 0; i < 8; i++) { rng ^= rng << 13; rng ^= rng >> 7; rng ^= rng << 17; }
	vrt_tso = o->tso;
#ifdef VRT_COV
	vrt_tso = 0;	/* coverage builds carry no plain-access callbacks, which software store buffers need for coherence */
#endif
	uniform = o->mode && !strcmp(o->mode, "uniform");
	budget = envi("VRT_BUDGET", 20000); pct_len = envi("VRT_LEN", 150); nchg = envi("VRT_DEPTH", 3); if (nchg > 8) nchg = 8;
	sig_futex = envi("VRT_SIG_FUTEX", 0);
	sig_budget = envi("VRT_SIGS", 0); sig_nest_max = envi("VRT_SIGNEST", 1);
	spur_budget = envi("VRT_SPURIOUS", 0); eintr_budget = envi("VRT_EINTR", 0); futex_enosys = envi("VRT_FUTEX_ENOSYS", 0);
	membarrier_ok = envi("VRT_MEMBARRIER", 1); solo_budget = envi("VRT_SOLO_BUDGET", 3000);
	if (getenv("VRT_SOLO")) { const char *s = getenv("VRT_SOLO"); const char *c = strchr(s, ':');
		if (c) { snprintf(solo_name, sizeof solo_name, "%.*s", (int)(c - s), s); solo_at = atol(c + 1); } }
	if (getenv("VRT_SIGAT")) { const char *s = getenv("VRT_SIGAT"); const char *c = strchr(s, ':');
		if (c) { snprintf(sig_name, sizeof sig_name, "%.*s", (int)(c - s), s); sig_at = atol(c + 1); } }
	if (getenv("VRT_SCHED")) {
		FILE *f = fopen(getenv("VRT_SCHED"), "r"); if (!f) { perror("VRT_SCHED"); _exit(2); }
		rsched = malloc(sizeof(*rsched) * 100000); nrs = 0; char line[64];
		while (fgets(line, sizeof line, f)) { line[strcspn(line, "\r\n")] = 0;
			if (!strcmp(line, "#auto-benign")) { rs_auto_benign = 1; continue; }
			if (line[0] == '#' || !line[0]) continue;
			if (nrs < 100000) { line[27] = 0; memcpy(rsched[nrs++], line, 28); } }
		fclose(f);
	}
	create_fail_at = envi("VRT_CREATE_FAIL", -1);
	trace_path = o->trace;
	trace = o->trace ? fopen(o->trace, "w") : NULL;
	if (trace) setvbuf(trace, NULL, _IOFBF, 1 << 16);
	if (getenv("VRT_SCHEDOUT")) schedout = fopen(getenv("VRT_SCHEDOUT"), "w");
	sem_init(&main_sem, 0, 0);
	self = -1;
	if (nthreads) {
		/* main acts as a non-thread caller of schedule(): handoff() never blocks for self < 0 */
		schedule();
		sem_wait(&main_sem);
	}
	if (trace) { fprintf(trace, "{\"t\":\"main\",\"op\":\"end\",\"decisions\":%ld}\n", decisions); fflush(trace); }
	if (schedout) fflush(schedout);
	cov_dump();	/* drivers leave with _exit(0) */
}
