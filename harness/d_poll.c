/*
 * Driver for C14 (grace-period polling): the real src/urcu.c (mb flavor, -DRCU_MB) unit-included, so that
 * start_poll_synchronize_rcu / poll_state_synchronize_rcu (src/urcu-poll-impl.h), the real call_rcu helper thread
 * (src/urcu-call-rcu-impl.h, a daemon model thread "h1") and the real grace period run under VSCHED; readers use the
 * real rcu_read_lock / rcu_read_unlock.
 *
 *   usage: d_poll <seed> <tso> <trace> <program-file>
 * program file:  "init <signed id>"   initial value of current_state / latest_target (ids near the wrap boundary)
 *                "thread <name>" followed by "start <k>" (handle slot k), "poll <k>", "pollw <k>" (poll until TRUE),
 *                "rl" (rcu_read_lock), "ru" (rcu_read_unlock), "crcu" (an unrelated call_rcu, invisible to the specification)
 *
 * Events kept for the trace specification (everything else -- grace-period and call_rcu internals -- is filtered by
 * tools/props/c14.py):  lock/unlock of "poll.lock", proj (current_state, latest_target, active; read from the statics
 * of urcu-poll-impl.h while the lock is still held, just before every unlock), call/ret with handle ids and results,
 * rbegin (after rcu_read_lock returned) / rend (before rcu_read_unlock is called), and the enqueue of the worker's
 * rcu_head (the xchg on the call_rcu queue tail, named "crq.tail", storing "wk").
 *
 * Oracles (independent of the specification): a poll returning TRUE while a reader section that was open at the
 * handle's start_poll call is still open; a poll returning FALSE after it returned TRUE; a handle that never
 * completes shows up as the runtime's DEADLOCK (pollw blocks at scheduler level until current_state changes).
 *
 * Spec -> code: POLL_SCRIPT=<file> holds one visible event per line ("<thread> <kind>", kinds call ret lock unlock
 * rbegin rend) in the order of a TLC-generated behaviour of spec/Poll.tla; every such event of the driver is gated
 * until it is at the head of the script, all other steps are scheduled freely.  A script the real code cannot follow
 * (the real grace period is stricter than the abstract one, or the code diverges) is abandoned -- logged, never a
 * failure by itself: the recorded trace is validated like any other.
 */
#include "vrt_redirect.h"
#include <stdarg.h>

#define DP_NS __attribute__((no_sanitize_thread))
static int dp_mutex_lock(pthread_mutex_t *m);
static int dp_mutex_unlock(pthread_mutex_t *m);
static long dp_syscall(long nr, ...);
#undef pthread_mutex_lock
#undef pthread_mutex_unlock
#undef syscall
#define pthread_mutex_lock dp_mutex_lock
#define pthread_mutex_unlock dp_mutex_unlock
#define syscall dp_syscall

#include REPO_SRC(urcu.c)

#undef pthread_mutex_lock
#undef pthread_mutex_unlock
#undef syscall

/* ------------------------------------------------------------------ scenario program */
#define MAXOPS 24
#define MAXH 8
#define MAXTHR 8
struct op { char kind[8]; int h; };
struct prog { char name[16]; int nops; struct op ops[MAXOPS]; };
static struct prog P[MAXTHR]; static int np;

static struct urcu_gp_poll_state H[MAXH];
static unsigned hopen[MAXH];		/* reader sections (bit set) open at the start_poll call of each handle */
static int was_true[MAXH];
static int hret[MAXH];			/* start_poll of the slot has returned (H[k] is valid) */
static unsigned open_mask; static int nsections;
static unsigned long lastcur[32];	/* current_state seen at this thread's last unlock of poll.lock */
static int gp_waiting;			/* the helper is blocked in (or about to enter) FUTEX_WAIT on rcu_gp.futex */
static int cr_waiting;			/* the helper is blocked in (or about to enter) FUTEX_WAIT on its own call_rcu futex */
static int pl_held;			/* poll.lock is held (tracked by the interposed lock/unlock) */
static struct call_rcu_data *the_crdp;

/* ------------------------------------------------------------------ script gating (spec -> code) */
struct sent { char t[16]; char k[8]; int done; };
static struct sent *S; static int ns, sp; static int script_abandoned; static int rend_waiters;
static int h1_at_gate;
static int unlocking;			/* a reader has logged its rend but not finished rcu_read_unlock() (its wake-up of the helper is still to come) */
static int crcu_inflight;		/* a reader is between its rbegin and the completion of the crcu that follows it (scripted runs: other sections begin only after the helper is blocked behind that reader) */
static int jump_pending;		/* a reader was let through to release the grace period; wait for the helper to resume */
struct gate { const char *t; const char *k; };

static DP_NS void script_skip(void) { while (sp < ns && S[sp].done) sp++; }
static DP_NS int head_is(const char *t, const char *k) { return sp < ns && !strcmp(S[sp].t, t) && (!k || !strcmp(S[sp].k, k)); }
static DP_NS int gate_ok(void *a)
{
	struct gate *g = a;
	if (sp >= ns) return 1;
	/* a reader section begins (rcu_read_lock is called after this gate) only while the helper is at rest -- at its own
	 * gate, idle, or blocked on another reader -- so that whether the grace period in flight covers the section is decided
	 * by the script and not by a race with the helper's registry scan */
	if (!strcmp(g->k, "rbegin") && head_is(g->t, "rbegin")) return crcu_inflight ? gp_waiting : (h1_at_gate || cr_waiting || gp_waiting);
	/* likewise a reader section ends (when the script says so) only once the helper has made all the progress it can: a callback that
	 * is runnable too early then reaches its entry oracle before the section is over, instead of racing with the reader's exit */
	if (!strcmp(g->k, "rend") && head_is(g->t, "rend"))
		return !unlocking && (h1_at_gate || (cr_waiting && the_crdp->futex == -1) || (gp_waiting && rcu_gp.futex == -1));
	if (head_is(g->t, NULL)) return 1;			/* my turn (a different event of mine: divergence, see gate()) */
	/* the script waits for the callback while the real grace period waits for a reader: let a reader standing at its
	 * rend gate go first; if there is none the script cannot be followed */
	if (gp_waiting && !jump_pending && rcu_gp.futex == -1 && head_is("h1", NULL) && (!strcmp(g->k, "rend") || !rend_waiters)) return 1;
	/* the script waits for a callback that the real code has not queued (helper idle, queue empty, nobody inside the
	 * critical section who could queue it): the code has diverged from the script */
	if (head_is("h1", NULL) && cr_waiting && !pl_held && the_crdp->futex == -1 && the_crdp->cbs_tail.p == &the_crdp->cbs_head.node) return 1;
	return 0;
}
/* returns 1 when the event is the head of the script (the caller pops it after performing the event) */
static DP_NS int gate(const char *k)
{
	struct gate g = { vrt_self_name(), k };
	if (sp >= ns) return 0;
	int isrend = !strcmp(k, "rend");
	int ish1 = !strcmp(g.t, "h1");
	rend_waiters += isrend; h1_at_gate += ish1; vrt_wait_until(gate_ok, &g); rend_waiters -= isrend; h1_at_gate -= ish1;
	if (sp >= ns) return 0;
	if (head_is(g.t, k)) return 1;
	if (!head_is(g.t, NULL) && !strcmp(k, "rend")) {
		/* the real grace period is stricter than the abstract one: this reader ends before the callback instead of
		 * after it; consume the thread's next scripted rend and keep following the script */
		for (int j = sp; j < ns; j++) if (!S[j].done && !strcmp(S[j].t, g.t) && !strcmp(S[j].k, "rend")) { S[j].done = 1; break; }
		vrt_log("\"op\":\"script_jump\",\"at\":%d", sp);
		jump_pending = 1;
		return 0;
	}
	/* cannot follow (the code diverges from the script, or the real grace period needs more than a reader's exit) */
	vrt_log("\"op\":\"script_div\",\"at\":%d,\"want\":\"%s %s\",\"got\":\"%s\"", sp, S[sp].t, S[sp].k, k);
	script_abandoned = 1; sp = ns;
	return 0;
}
static DP_NS void pop(int matched) { if (matched && sp < ns) { sp++; script_skip(); } }

/* ------------------------------------------------------------------ interposition on the library's libc calls */
/* The helper thread locks poll.lock only in urcu_poll_worker_cb(), whose first action under the lock is current_state++.  Evaluated when
 * the callback ARRIVES at the lock (before any script gate can delay it): if that increment completes a handle whose start_poll has
 * returned while a reader section that was open when that start_poll was called is still open, the grace period behind this callback
 * invocation was too short -- the property itself, stated at the increment instead of at the next poll. */
static DP_NS void worker_entry_oracle(void)
{
	unsigned long cur = poll_worker_gp_state.current_state.grace_period_id, nxt = cur + 1;
	for (int k = 0; k < MAXH; k++)
		if (hret[k] && (long)(H[k].grace_period_id - cur) >= 0 && (long)(H[k].grace_period_id - nxt) < 0 && (hopen[k] & open_mask))
			vrt_fail("ORACLE worker callback is about to complete handle %d while a reader section open at its start_poll is still open (mask %x): callback invoked before a full grace period", k, hopen[k] & open_mask);
}
static DP_NS int dp_mutex_lock(pthread_mutex_t *m)
{
	if (m == &poll_worker_gp_state.lock && vrt_in_model()) {
		if (!strcmp(vrt_self_name(), "h1")) worker_entry_oracle();
		int g = gate("lock"); int r = vrt_mutex_lock(m); pl_held = 1; pop(g); return r;
	}
	return vrt_mutex_lock(m);
}
static DP_NS int dp_mutex_unlock(pthread_mutex_t *m)
{
	if (m == &poll_worker_gp_state.lock && vrt_in_model()) {
		int g = gate("unlock");
		unsigned long c = poll_worker_gp_state.current_state.grace_period_id;
		vrt_log("\"op\":\"proj\",\"cur\":%ld,\"latest\":%ld,\"active\":%d", (long) c,
			(long) poll_worker_gp_state.latest_target.grace_period_id, (int) poll_worker_gp_state.active);
		int me = vrt_self(); if (me >= 0 && me < 32) lastcur[me] = c;
		pl_held = 0;
		int r = vrt_mutex_unlock(m); pop(g); return r;
	}
	return vrt_mutex_unlock(m);
}
static DP_NS long dp_syscall(long nr, ...)
{
	va_list ap; va_start(ap, nr);
	long a1 = va_arg(ap, long), a2 = va_arg(ap, long), a3 = va_arg(ap, long), a4 = va_arg(ap, long), a5 = va_arg(ap, long), a6 = va_arg(ap, long);
	va_end(ap);
	if (nr == SYS_futex && (int32_t *) a1 == &rcu_gp.futex && (int) a2 == FUTEX_WAIT) {
		gp_waiting = 1;
		long r = vrt_syscall(nr, a1, a2, a3, a4, a5, a6);
		int e = errno; gp_waiting = 0; jump_pending = 0; errno = e;
		return r;
	}
	if (nr == SYS_futex && the_crdp && (int32_t *) a1 == &the_crdp->futex && (int) a2 == FUTEX_WAIT) {
		cr_waiting = 1;
		long r = vrt_syscall(nr, a1, a2, a3, a4, a5, a6);
		int e = errno; cr_waiting = 0; errno = e;
		return r;
	}
	return vrt_syscall(nr, a1, a2, a3, a4, a5, a6);
}
/* the unit-included sources reference the compat futex fallbacks (only used when futex() returns ENOSYS) */
int compat_futex_noasync(int32_t *uaddr, int op, int32_t val, const struct timespec *timeout, int32_t *uaddr2, int32_t val3)
{ (void) uaddr; (void) op; (void) val; (void) timeout; (void) uaddr2; (void) val3; vrt_fail("RUNTIME compat futex fallback reached"); }
int compat_futex_async(int32_t *uaddr, int op, int32_t val, const struct timespec *timeout, int32_t *uaddr2, int32_t val3)
{ (void) uaddr; (void) op; (void) val; (void) timeout; (void) uaddr2; (void) val3; vrt_fail("RUNTIME compat futex fallback reached"); }

/* ------------------------------------------------------------------ scenario threads */
struct cw { unsigned long seen; const char *t; };
static DP_NS int cur_changed(void *a)
{
	struct cw *c = a;
	return poll_worker_gp_state.current_state.grace_period_id != c->seen || head_is(c->t, NULL);
}

static DP_NS bool do_poll(int k)
{
	vrt_op_begin("poll_state_synchronize_rcu", VP_BLOCKING);
	bool r = poll_state_synchronize_rcu(H[k]);
	vrt_op_end();
	if (r && (hopen[k] & open_mask))
		vrt_fail("ORACLE poll of handle %d returned true while a reader section open at its start_poll is still open (mask %x)", k, hopen[k] & open_mask);
	if (!r && was_true[k]) vrt_fail("ORACLE poll of handle %d returned false after it had returned true", k);
	if (r) was_true[k] = 1;
	return r;
}

static struct rcu_head dummy_head[MAXOPS]; static int ndummy, ndummy_run;
/* crcu's wait is only a direction: it gives way as soon as the script needs this thread's next event, or the helper stands at a script gate */
static DP_NS int helper_gp_blocked(void *a) { return gp_waiting || h1_at_gate || head_is((const char *) a, NULL); }
static DP_NS void dummy_cb(struct rcu_head *h) { (void) h; ndummy_run++; }

static DP_NS void *runner(void *arg)
{
	struct prog *p = arg; int cs = -1, g;
	vrt_op_begin("rcu_register_thread", VP_BLOCKING); rcu_register_thread(); vrt_op_end();
	for (int i = 0; i < p->nops; i++) {
		struct op *o = &p->ops[i]; int k = o->h;
		if (!strcmp(o->kind, "start")) {
			g = gate("call"); hopen[k] = open_mask;
			vrt_log("\"op\":\"call\",\"api\":\"start\",\"h\":%d", k); pop(g);
			vrt_op_begin("start_poll_synchronize_rcu", VP_BLOCKING);
			H[k] = start_poll_synchronize_rcu(); hret[k] = 1;
			vrt_op_end();
			g = gate("ret"); vrt_log("\"op\":\"ret\",\"api\":\"start\",\"r\":%ld", (long) H[k].grace_period_id); pop(g);
		} else if (!strcmp(o->kind, "poll")) {
			g = gate("call"); vrt_log("\"op\":\"call\",\"api\":\"poll\",\"h\":%d", k); pop(g);
			bool r = do_poll(k);
			g = gate("ret"); vrt_log("\"op\":\"ret\",\"api\":\"poll\",\"r\":\"%s\"", r ? "TRUE" : "FALSE"); pop(g);
		} else if (!strcmp(o->kind, "pollw")) {
			g = gate("call"); vrt_log("\"op\":\"call\",\"api\":\"pollw\",\"h\":%d", k); pop(g);
			if (cs >= 0) vrt_fail("SCENARIO pollw inside the thread's own read-side critical section");
			while (!do_poll(k)) {
				/* re-poll only once current_state differs from what the last poll saw (scheduler-level wait: a handle
				 * that never completes ends as DEADLOCK) */
				struct cw c = { lastcur[vrt_self()], vrt_self_name() };
				vrt_wait_until(cur_changed, &c);
				if (poll_worker_gp_state.current_state.grace_period_id == c.seen) {
					/* the script expects an event of this thread although the poll it just made was FALSE and nothing
					 * changed: the code has diverged from the script; give the script up and keep waiting */
					vrt_log("\"op\":\"script_div\",\"at\":%d,\"want\":\"%s %s\",\"got\":\"wait\"", sp, S[sp].t, S[sp].k);
					script_abandoned = 1; sp = ns;
					vrt_wait_until(cur_changed, &c);
				}
			}
			g = gate("ret"); vrt_log("\"op\":\"ret\",\"api\":\"pollw\",\"r\":\"TRUE\""); pop(g);
		} else if (!strcmp(o->kind, "crcu")) {
			/* an unrelated call_rcu (invisible to the specification: no call/ret event, no gate): puts the helper into a
			 * grace period of its own, so that a later start_poll enqueues the worker while the helper is mid grace period */
			if (ndummy == MAXOPS) vrt_fail("SCENARIO too many crcu");
			if (cs < 0) vrt_fail("SCENARIO crcu outside the thread's own read-side section");
			vrt_op_begin("call_rcu", VP_BLOCKING); call_rcu(&dummy_head[ndummy++], dummy_cb); vrt_op_end();
			/* environment direction (restricts schedules, never invents one): continue only once the helper is blocked in the
			 * grace period this section holds open, i.e. after its parity flip */
			vrt_wait_until(helper_gp_blocked, (void *) vrt_self_name()); crcu_inflight--;
		} else if (!strcmp(o->kind, "rl")) {
			if (cs >= 0) vrt_fail("SCENARIO nested reader sections are not used");
			g = gate("rbegin");
			vrt_op_begin("rcu_read_lock", VP_WAITFREE); rcu_read_lock(); vrt_op_end();
			if (i + 1 < p->nops && !strcmp(p->ops[i + 1].kind, "crcu")) crcu_inflight++;
			cs = nsections++; open_mask |= 1u << cs; vrt_log("\"op\":\"rbegin\",\"cs\":%d", cs); pop(g);
		} else if (!strcmp(o->kind, "ru")) {
			if (cs < 0) vrt_fail("SCENARIO ru without rl");
			g = gate("rend"); vrt_log("\"op\":\"rend\",\"cs\":%d", cs); open_mask &= ~(1u << cs); cs = -1; unlocking++; pop(g);
			vrt_op_begin("rcu_read_unlock", VP_WAITFREE); rcu_read_unlock(); vrt_op_end(); unlocking--;
		}
	}
	if (cs >= 0) vrt_fail("SCENARIO thread ends inside a read-side critical section");
	vrt_op_begin("rcu_unregister_thread", VP_BLOCKING); rcu_unregister_thread(); vrt_op_end();
	return NULL;
}

int main(int argc, char **argv)
{
	struct vrt_opts o; vrt_parse_args(argc, argv, &o);
	FILE *f = fopen(argc > 4 ? argv[4] : "/dev/null", "r"); char line[128]; struct prog *cur = NULL; long init = 0;
	if (!f) { perror("program"); return 2; }
	while (fgets(line, sizeof line, f)) {
		char a[16]; int x;
		if (sscanf(line, "init %ld", &init) == 1) continue;
		if (sscanf(line, "thread %15s", a) == 1) { if (np == MAXTHR) return 2; cur = &P[np++]; snprintf(cur->name, sizeof cur->name, "%s", a); continue; }
		if (!cur || cur->nops == MAXOPS) continue;
		struct op *op = &cur->ops[cur->nops];
		if (sscanf(line, "start %d", &x) == 1 || sscanf(line, "pollw %d", &x) == 1 || sscanf(line, "poll %d", &x) == 1) {
			if (x < 0 || x >= MAXH) return 2;
			sscanf(line, "%7s", op->kind); op->h = x; cur->nops++;
		} else if (!strncmp(line, "crcu", 4)) { snprintf(op->kind, sizeof op->kind, "crcu"); cur->nops++;
		} else if (!strncmp(line, "rl", 2) || !strncmp(line, "ru", 2)) { snprintf(op->kind, sizeof op->kind, "%.2s", line); cur->nops++; }
	}
	fclose(f);
	if (getenv("POLL_SCRIPT")) {
		FILE *s = fopen(getenv("POLL_SCRIPT"), "r"); if (!s) { perror("POLL_SCRIPT"); return 2; }
		S = calloc(8192, sizeof *S);
		while (ns < 8192 && fgets(line, sizeof line, s)) if (sscanf(line, "%15s %7s", S[ns].t, S[ns].k) == 2) ns++;
		fclose(s);
	}
	/* ids near the wrap boundary: the idle state (current = latest, inactive) shifted by `init` */
	poll_worker_gp_state.current_state.grace_period_id = (unsigned long) init;
	poll_worker_gp_state.latest_target.grace_period_id = (unsigned long) init;
	/* create the default call_rcu helper up front so that its queue can be named (it becomes daemon thread h1) */
	struct call_rcu_data *crdp = get_default_call_rcu_data(); the_crdp = crdp;
	vrt_name_val(NULL, "NULL");
	vrt_name(&crdp->cbs_tail.p, VK_PTR, "crq.tail"); vrt_name(&crdp->cbs_head.node.next, VK_PTR, "crq.head.next");
	vrt_name_val(&crdp->cbs_head.node, "crq.head");
	vrt_name(&crdp->futex, VK_INT, "crq.futex");
	vrt_name(&poll_worker_gp_state.rcu_head.next.next, VK_PTR, "wk.next"); vrt_name_val(&poll_worker_gp_state.rcu_head.next, "wk");
	vrt_name(&poll_worker_gp_state.current_state.grace_period_id, VK_INT, "poll.cur");
	vrt_name(&poll_worker_gp_state.latest_target.grace_period_id, VK_INT, "poll.latest");
	vrt_name(&poll_worker_gp_state.active, VK_INT, "poll.active");
	vrt_name(&rcu_gp.ctr, VK_INT, "gp.ctr"); vrt_name(&rcu_gp.futex, VK_INT, "gp.futex");
	vrt_name_mutex(&poll_worker_gp_state.lock, "poll.lock");
	vrt_name_mutex(&rcu_gp_lock, "gp.lock"); vrt_name_mutex(&rcu_registry_lock, "registry.lock"); vrt_name_mutex(&call_rcu_mutex, "call_rcu.mutex");
	vrt_watch_plain(1);	/* plain accesses to the named poll state are scheduling points (a read outside the lock can interleave) */
	for (int k = 0; k < np; k++) vrt_spawn(P[k].name, runner, &P[k]);
	vrt_run(&o);
	_exit(0);
}
