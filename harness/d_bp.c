/*
 * Driver: the real "bulletproof" flavor (src/urcu-bp.c + include/urcu/static/urcu-bp.h) under VSCHED.
 *   usage: d_bp <seed> <tso> <trace> <program-file>
 * program: "thread <name> <started 0|1>" then ops:
 *            lock unlock deref use reg pub <k> sync free spawn <thread> join <thread> spawnjoin <thread>
 *          optional "sighandler" line: a signal handler doing lock; deref; use; unlock (C19)
 * environment: BP_SYSMB=0|1          urcu_bp_has_sys_membarrier (default 0: readers execute cmm_smp_mb)
 *              BP_MREMAP_FAIL=<mask> bit k set: the k-th (0-based) mremap() of the arena fails (-> new chunk)
 *              BP_SIG_THREADS=a,b    threads the handler may interrupt (with VRT_SIGS=<n> / VRT_SIGAT)
 *              BP_SIG_IN_EXIT=1      signals stay enabled while the exiting thread runs its key destructor
 *
 * What is redirected for the library source (in addition to vrt_redirect.h):
 *   pthread_key_create/setspecific/getspecific/key_delete -> a one-key emulation whose destructor is run by the model
 *     thread itself at the end of its program (inside the scheduler), the way glibc does at thread exit: value
 *     cleared, destructor called, repeated while the value has been set again (PTHREAD_DESTRUCTOR_ITERATIONS = 4);
 *   mmap/mremap/munmap -> a reserved address range: chunk k lives at a fixed stride, mremap() without MREMAP_MAYMOVE
 *     grows in place or fails by environment choice, with MREMAP_MAYMOVE it moves the chunk and the old range is
 *     quarantined (mutation experiments); reader words are named "rctr.c<k>.s<j>" (chunk#k.slot#j);
 *   pthread_sigmask -> the runtime's (blocks signal delivery) + a "sigm" event carrying the resulting mask.
 */
#include "vrt_redirect.h"

/* ---------------------------------------------------------------- environment emulation, part 1 (before the library) */
static void (*bp_key_dtor)(void *);
static __thread void *bp_key_val;
static void bp_on_setspecific(const void *v);
static void bp_on_map(int id, char *base, size_t oldsz, size_t newsz, int moved, char *oldbase);
static int bp_key_create(pthread_key_t *k, void (*d)(void *)) { *k = 0; bp_key_dtor = d; return 0; }
static int bp_key_delete(pthread_key_t k) { (void) k; bp_key_dtor = NULL; return 0; }
static int bp_setspecific(pthread_key_t k, const void *v) { (void) k; bp_key_val = (void *) v; bp_on_setspecific(v); return 0; }
static void *bp_getspecific(pthread_key_t k) { (void) k; return bp_key_val; }

#define BP_STRIDE (1UL << 16)
#define BP_MAXCHUNK 16
static char *bp_region;
static int bp_desc;	/* odd seeds: every new mapping lies BELOW the previous ones (the usual top-down mmap layout of Linux), even seeds: above */
static struct bp_chunk { char *base; size_t size; int id; } bp_chunks[BP_MAXCHUNK];
static int bp_nchunks, bp_nregions, bp_nmremap;
static unsigned long bp_mremap_fail;
static char *bp_new_region(void)
{
	if (!bp_region) {
		bp_region = mmap(NULL, BP_STRIDE * BP_MAXCHUNK, PROT_READ | PROT_WRITE, MAP_ANONYMOUS | MAP_PRIVATE, -1, 0);
		if (bp_region == MAP_FAILED) abort();
	}
	if (bp_nregions == BP_MAXCHUNK) abort();
	int k = bp_nregions++;
	return bp_region + BP_STRIDE * (bp_desc ? BP_MAXCHUNK - 1 - k : k);
}
static void *bp_mmap(void *a, size_t len, int prot, int fl, int fd, off_t off)
{
	(void) a; (void) prot; (void) fl; (void) fd; (void) off;
	if (len > BP_STRIDE || bp_nchunks == BP_MAXCHUNK) abort();
	struct bp_chunk *c = &bp_chunks[bp_nchunks]; c->base = bp_new_region(); c->size = len; c->id = bp_nchunks++;
	vrt_log("\"op\":\"mmap\",\"var\":\"c%d\"", c->id);
	bp_on_map(c->id, c->base, 0, len, 0, NULL);
	return c->base;
}
static void *bp_mremap(void *old, size_t oldsz, size_t newsz, int flags, ...)
{
	struct bp_chunk *c = NULL;
	for (int i = 0; i < bp_nchunks; i++) if (bp_chunks[i].base == (char *) old) c = &bp_chunks[i];
	if (!c || c->size != oldsz || newsz > BP_STRIDE) abort();
	int k = bp_nmremap++;
	if (!(flags & MREMAP_MAYMOVE)) {
		if (bp_mremap_fail & (1UL << k)) { vrt_log("\"op\":\"mremap\",\"var\":\"fail\""); errno = ENOMEM; return MAP_FAILED; }
		vrt_log("\"op\":\"mremap\",\"var\":\"ok\"");
		c->size = newsz; bp_on_map(c->id, c->base, oldsz, newsz, 0, NULL);
		return c->base;
	}
	/* MREMAP_MAYMOVE (never requested by the unchanged library): the kernel is free to move the mapping */
	char *nb = bp_new_region(), *ob = c->base;
	memcpy(nb, ob, oldsz);
	vrt_log("\"op\":\"mremap\",\"var\":\"moved\"");
	c->base = nb; c->size = newsz; bp_on_map(c->id, nb, oldsz, newsz, 1, ob);
	return nb;
}
static int bp_munmap(void *a, size_t len) { (void) a; (void) len; return 0; }
/* sigfillset() precedes every pthread_sigmask(SIG_BLOCK) of the library: make it a scheduling point (no memory effect, logged
 * as a benign "rmb" marker) so that a signal can be delivered right before the library blocks signals -- e.g. between the
 * TLS check of rcu_read_lock() and the sigmask of urcu_bp_register() -- which no shared access of the library offers */
extern void uv_pre(int op, const volatile void *addr, unsigned int sz, int mo, const char *file, int line);
extern void uv_post(int op, const volatile void *addr, unsigned int sz, unsigned long a, unsigned long b, unsigned long res, int mo, const char *file, int line);
static int bp_sigfillset(sigset_t *s)
{
	if (vrt_in_model()) { uv_pre(0 /* UV_LD */, NULL, 0, 0, __FILE__, __LINE__); uv_post(11 /* UV_RMB */, NULL, 0, 0, 0, 0, 0, __FILE__, __LINE__); }
	return sigfillset(s);
}
static int bp_sigmask(int how, const sigset_t *set, sigset_t *old)
{
	int r = vrt_pthread_sigmask(how, set, old);
	if (vrt_in_model() && set)
		vrt_log("\"op\":\"sigm\",\"var\":\"%s\"", (how == SIG_BLOCK || (how == SIG_SETMASK && !sigisemptyset(set))) ? "blocked" : "unblocked");
	return r;
}
#define pthread_key_create bp_key_create
#define pthread_key_delete bp_key_delete
#define pthread_setspecific bp_setspecific
#define pthread_getspecific bp_getspecific
#define mmap bp_mmap
#define mremap bp_mremap
#define munmap bp_munmap
#define sigfillset bp_sigfillset
#undef pthread_sigmask
#define pthread_sigmask bp_sigmask

#include REPO_SRC(urcu-bp.c)
#include REPO_SRC(compat_futex.c)

/* ---------------------------------------------------------------- scenario program */
#define MAXOPS 32
#define NOBJ 8
#define MAXP 24
struct op { char kind[12]; int k; char t[16]; };
struct prog { char name[16]; int nops; struct op ops[MAXOPS]; int idx; int started; int sig; volatile int done; int exiting;
	struct urcu_bp_reader *slot; };
static struct prog P[MAXP]; static int np;
static int use_sighandler, sig_in_exit;

struct obj { int val; };
static struct obj objs[NOBJ];
static struct obj *gptr;
static int freed[NOBJ];
/* driver-level ghosts (spec independent oracles) */
static unsigned long open_cs[MAXP], cs_next = 1;
static int nlive;		/* threads registered right now (driver's own count) */
static __thread struct prog *me;
static __thread int nest;
static __thread struct obj *held, *old;

static struct prog *prog_by_name(const char *n) { for (int i = 0; i < np; i++) if (!strcmp(P[i].name, n)) return &P[i]; vrt_fail("DRIVER unknown thread %s", n); }

/* ---------------------------------------------------------------- environment emulation, part 2 */
static int slot_of(const void *p, int *cid, int *sid)
{
	for (int i = 0; i < bp_nchunks; i++) {
		struct registry_chunk *c = (struct registry_chunk *) bp_chunks[i].base;
		const char *lo = (const char *) &c->readers[0], *hi = bp_chunks[i].base + bp_chunks[i].size;
		if ((const char *) p >= lo && (const char *) p < hi) { *cid = bp_chunks[i].id; *sid = (int)(((const char *) p - lo) / sizeof(struct urcu_bp_reader)); return 1; }
	}
	return 0;
}
static const char *slot_name(const void *p)
{
	static char ring[4][24]; static int k; int c, s;
	if (!p) return "NULL";
	k = (k + 1) & 3;
	if (slot_of(p, &c, &s)) snprintf(ring[k], sizeof ring[k], "c%d.s%d", c, s); else snprintf(ring[k], sizeof ring[k], "?");
	return ring[k];
}
static size_t cap_of(size_t bytes) { return bytes < sizeof(struct registry_chunk) ? 0 : (bytes - sizeof(struct registry_chunk)) / sizeof(struct urcu_bp_reader); }
static void bp_on_map(int id, char *base, size_t oldsz, size_t newsz, int moved, char *oldbase)
{
	struct registry_chunk *c = (struct registry_chunk *) base;
	size_t from = moved ? 0 : cap_of(oldsz), to = cap_of(newsz), total = 0;
	/* SlotReuse oracle: the arena grows only when every existing slot is held by a live thread */
	for (int i = 0; i < bp_nchunks; i++) total += cap_of(bp_chunks[i].id == id ? oldsz : bp_chunks[i].size);
	if ((size_t) nlive < total)	/* nlive includes exiting threads whose slot may already be free: the check is sound, not tight */
		vrt_fail("ORACLE arena grew (chunk c%d: %zu -> %zu slots) while only %d of %zu slots belong to registered threads: freed slots are not reused", id, cap_of(oldsz), to, nlive, total);
	if (moved) {
		struct registry_chunk *oc = (struct registry_chunk *) oldbase;
		for (size_t j = 0; j < cap_of(oldsz); j++) vrt_unname(&oc->readers[j].ctr);
		vrt_quarantine(oldbase, oldsz, "moved registry chunk");
	}
	for (size_t j = from; j < to; j++) vrt_name(&c->readers[j].ctr, VK_GPCTR, "rctr.c%d.s%zu", id, j);
}
static void bp_on_setspecific(const void *v)
{
	if (!vrt_in_model() || !me) return;
	vrt_log("\"op\":\"slot\",\"var\":\"%s\"", slot_name(v));
	if (!v) return;
	if (me->slot && URCU_TLS(urcu_bp_reader))
		vrt_fail("ORACLE thread %s registered twice: it already owns slot %s and now gets %s", me->name, slot_name(me->slot), slot_name(v));
	if (me->slot) { me->slot = NULL; nlive--; }	/* released by the key destructor a moment ago (handler re-registering an exiting thread) */
	for (int i = 0; i < np; i++)
		if (&P[i] != me && P[i].slot == v && !P[i].exiting) vrt_fail("ORACLE slot %s given to %s while it belongs to the live thread %s", slot_name(v), me->name, P[i].name);
	me->slot = (struct urcu_bp_reader *) v; nlive++;
}
/* the thread's reader word as the thread itself sees it (store-buffer aware, no scheduling point, no event) */
static unsigned long own_word(void)
{
	struct urcu_bp_reader *r = URCU_TLS(urcu_bp_reader);
	return r ? uv_do_load(&r->ctr, sizeof r->ctr, 0) : 0;
}
/* SlotStable oracle: between registration and exit the thread's TLS pointer is the slot it was given */
static void check_slot(const char *where)
{
	struct urcu_bp_reader *r = URCU_TLS(urcu_bp_reader);
	if (me->slot && r != me->slot)
		vrt_fail("ORACLE slot of %s changed (%s): registered in %s, TLS now points to %s", me->name, where, slot_name(me->slot), slot_name(r));
	if (me->slot && !me->slot->alloc)
		vrt_fail("ORACLE slot %s of the live thread %s is marked free (%s)", slot_name(me->slot), me->name, where);
}

static void check_use(const char *where)
{
	if (held) {
		int k = (int)(held - objs);
		if (freed[k]) vrt_fail("ORACLE use-after-free: %s touches obj%d after it was reclaimed", where, k);
	}
}

static void sig_handler(void)
{
	/* C19: read-side critical section inside a signal handler; must leave the reader state unchanged */
	unsigned long before = own_word(), after;
	/* rcu_read_ongoing() registers an unregistered thread: asked only when the thread has a reader slot (otherwise: not ongoing) */
	int ongoing_before = URCU_TLS(urcu_bp_reader) ? !!urcu_bp_read_ongoing() : 0;
	struct obj *p;
	unsigned long saved_cs = open_cs[me->idx];
	vrt_log("\"op\":\"call\",\"api\":\"sig\"");
	urcu_bp_read_lock();
	if (!saved_cs) open_cs[me->idx] = cs_next++;
	p = rcu_dereference(gptr);
	if (p && freed[p - objs]) vrt_fail("ORACLE use-after-free in signal handler: obj%d", (int)(p - objs));
	if (!saved_cs) open_cs[me->idx] = 0;
	urcu_bp_read_unlock();
	after = own_word();
	/* nesting must be exactly as before; inside a section the whole word (its phase) too */
	if ((after & URCU_BP_GP_CTR_NEST_MASK) != (before & URCU_BP_GP_CTR_NEST_MASK) || ((before & URCU_BP_GP_CTR_NEST_MASK) && after != before))
		vrt_fail("ORACLE signal handler changed the interrupted thread's reader state (ctr %lx -> %lx)", before, after);
	if (!!urcu_bp_read_ongoing() != ongoing_before || ongoing_before != !!(before & URCU_BP_GP_CTR_NEST_MASK))
		vrt_fail("ORACLE rcu_read_ongoing() not restored by the signal handler or inconsistent with the nesting count (%d -> %d, ctr %lx)", ongoing_before, !!urcu_bp_read_ongoing(), before);
	check_slot("signal handler");
	vrt_log("\"op\":\"ret\",\"r\":\"sig\"");
}

static int pred_done(void *arg) { return ((struct prog *) arg)->done; }

static void *runner(void *arg)
{
	struct prog *p = arg; me = p;
	vrt_sig_allow(p->sig);
	for (int k = 0; k < p->nops; k++) {
		struct op *o = &p->ops[k]; char res[64] = "-";
		vrt_log("\"op\":\"call\",\"api\":\"%s\",\"k\":%d,\"tt\":\"%s\"", o->kind, o->k, o->t[0] ? o->t : "-");
		if (!strcmp(o->kind, "reg")) {
			vrt_op_begin("urcu_bp_register_thread", VP_BLOCKING); urcu_bp_register_thread(); vrt_op_end();
		} else if (!strcmp(o->kind, "lock")) {
			vrt_op_begin("rcu_read_lock", VP_BLOCKING);	/* blocking only on first use (registration) */
			urcu_bp_read_lock();
			if (nest++ == 0) open_cs[p->idx] = cs_next++;
			vrt_op_end();
		} else if (!strcmp(o->kind, "unlock")) {
			check_use("reader before rcu_read_unlock");
			if (nest == 1) held = NULL;
			vrt_op_begin("rcu_read_unlock", VP_WAITFREE);
			if (--nest == 0) open_cs[p->idx] = 0;
			urcu_bp_read_unlock();
			vrt_op_end();
		} else if (!strcmp(o->kind, "deref")) {
			vrt_op_begin("rcu_dereference", VP_WAITFREE);
			held = rcu_dereference(gptr);
			vrt_op_end();
			check_use("reader after rcu_dereference");
			snprintf(res, sizeof res, "%s", vrt_sym(held));
		} else if (!strcmp(o->kind, "use")) {
			check_use("reader inside its critical section");
		} else if (!strcmp(o->kind, "pub")) {
			vrt_op_begin("rcu_xchg_pointer", VP_WAITFREE);
			old = rcu_xchg_pointer(&gptr, &objs[o->k]);
			vrt_op_end();
			snprintf(res, sizeof res, "%s", vrt_sym(old));
		} else if (!strcmp(o->kind, "sync")) {
			unsigned long snap[MAXP]; memcpy(snap, open_cs, sizeof snap);
			vrt_op_begin("synchronize_rcu", VP_BLOCKING);
			urcu_bp_synchronize_rcu();
			vrt_op_end();
			for (int i = 0; i < np; i++)
				if (snap[i] && open_cs[i] == snap[i])
					vrt_fail("ORACLE grace period too short: synchronize_rcu() by %s returned while the critical section of %s that began before the call is still open", p->name, P[i].name);
		} else if (!strcmp(o->kind, "free")) {
			if (old) { freed[old - objs] = 1; snprintf(res, sizeof res, "%s", vrt_sym(old)); old = NULL; }
		} else if (!strcmp(o->kind, "spawn") || !strcmp(o->kind, "spawnjoin") || !strcmp(o->kind, "join")) {
			struct prog *c = prog_by_name(o->t);
			if (o->kind[0] == 's') { if (c->started) vrt_fail("DRIVER thread %s spawned twice", c->name); c->started = 1; vrt_spawn(c->name, runner, c); vrt_log("\"op\":\"spawned\",\"var\":\"%s\"", c->name); }
			if (strcmp(o->kind, "spawn")) {
				vrt_op_begin("join", VP_BLOCKING); vrt_wait_until(pred_done, c); vrt_op_end();
				vrt_log("\"op\":\"join\",\"var\":\"%s\"", c->name);
			}
		}
		if (p->slot) check_slot(o->kind);
		vrt_log("\"op\":\"ret\",\"r\":\"%s\"", res);
	}
	/* thread exit: glibc runs the key destructor(s) of the exiting thread; here it happens inside the scheduler */
	if (nest) vrt_fail("DRIVER scenario error: thread %s exits inside a critical section", p->name);
	if (!sig_in_exit) vrt_sig_allow(0);
	p->exiting = 1;
	vrt_op_begin("thread_exit", VP_BLOCKING);
	for (int it = 0; it < 4 && bp_key_val; it++) {
		void *v = bp_key_val; bp_key_val = NULL;
		if (v != p->slot) vrt_fail("ORACLE key value of %s (%s) is not the slot it registered in (%s)", p->name, slot_name(v), slot_name(p->slot));
		bp_key_dtor(v);
		/* (the slot's alloc flag / reader word cannot be inspected here: another thread may already own the slot again) */
		if (!bp_key_val && URCU_TLS(urcu_bp_reader))
			vrt_fail("ORACLE %s is still registered (TLS %s) after its key destructor ran", p->name, slot_name(URCU_TLS(urcu_bp_reader)));
		if (!URCU_TLS(urcu_bp_reader) && p->slot) { p->slot = NULL; nlive--; }
	}
	vrt_op_end();
	vrt_sig_allow(0);
	if (bp_key_val) vrt_fail("ORACLE thread %s is still registered (slot %s) after its key destructor ran 4 times", p->name, slot_name(bp_key_val));
	p->done = 1;
	return NULL;
}

int main(int argc, char **argv)
{
	struct vrt_opts o; vrt_parse_args(argc, argv, &o);
	FILE *f = fopen(argc > 4 ? argv[4] : "/dev/null", "r"); char line[128]; struct prog *cur = NULL;
	if (!f) { perror("program"); return 2; }
	const char *st = getenv("BP_SIG_THREADS");
	while (fgets(line, sizeof line, f)) {
		char a[16], b[16]; int x = 1;
		if (sscanf(line, "thread %15s %d", a, &x) >= 1) {
			if (np == MAXP) { fprintf(stderr, "too many threads\n"); return 2; }
			cur = &P[np]; cur->idx = np++; snprintf(cur->name, sizeof cur->name, "%s", a); cur->started = x;
			if (st) { char buf[256]; snprintf(buf, sizeof buf, ",%s,", st); char key[24]; snprintf(key, sizeof key, ",%s,", a); cur->sig = strstr(buf, key) != NULL; }
			x = 1; continue;
		}
		if (!strncmp(line, "sighandler", 10)) { use_sighandler = 1; continue; }
		if (!cur) continue;
		b[0] = 0;
		if (sscanf(line, "%11s %15s", a, b) >= 1) {
			struct op *op = &cur->ops[cur->nops++]; snprintf(op->kind, sizeof op->kind, "%s", a);
			if (!strcmp(a, "pub")) op->k = atoi(b); else snprintf(op->t, sizeof op->t, "%s", b);
		}
	}
	fclose(f);
	bp_mremap_fail = getenv("BP_MREMAP_FAIL") ? strtoul(getenv("BP_MREMAP_FAIL"), 0, 0) : 0;
	sig_in_exit = getenv("BP_SIG_IN_EXIT") ? atoi(getenv("BP_SIG_IN_EXIT")) : 0;
	vrt_name_val(NULL, "NULL");
	for (int k = 0; k < NOBJ; k++) vrt_name_val(&objs[k], "obj%d", k);
	gptr = &objs[0];
	vrt_name(&gptr, VK_PTR, "gptr");
	vrt_name(&urcu_bp_gp.ctr, VK_GPCTR, "gp_ctr");
	vrt_name_mutex(&rcu_gp_lock, "gp_lock"); vrt_name_mutex(&rcu_registry_lock, "registry_lock"); vrt_name_mutex(&init_lock, "init_lock");
	/* the library constructor ran before main (outside the model): one reference, key created, membarrier probed */
	if (!bp_key_dtor || urcu_bp_refcount != 1) { fprintf(stderr, "unexpected library state after the constructor\n"); return 2; }
	urcu_bp_has_sys_membarrier = getenv("BP_SYSMB") ? atoi(getenv("BP_SYSMB")) : 0;
	if (use_sighandler) vrt_set_sighandler(sig_handler);
	for (int k = 0; k < np; k++) if (P[k].started) vrt_spawn(P[k].name, runner, &P[k]);
	bp_desc = (int) (o.seed & 1);
	vrt_run(&o);
	for (int k = 0; k < np; k++) if (!P[k].done) { fprintf(stderr, "VRT-FAIL DRIVER thread %s never ran to completion\n", P[k].name); _exit(3); }
	if (nlive || !cds_list_empty(&registry)) { fprintf(stderr, "VRT-FAIL ORACLE registry not empty after every thread exited (%d live)\n", nlive); _exit(3); }
	/* ChunkAccounting oracle (at quiescence): every chunk's `used` counter equals the number of its slots marked allocated (here: none) */
	{
		struct registry_chunk *c; int ci = 0;
		cds_list_for_each_entry(c, &registry_arena.chunk_list, node) {
			size_t n = 0;
			for (struct urcu_bp_reader *r = (struct urcu_bp_reader *) &c->readers[0]; r < (struct urcu_bp_reader *) &c->readers[c->capacity]; r++) n += r->alloc ? 1 : 0;
			if (n != c->used) { fprintf(stderr, "VRT-FAIL ORACLE chunk #%d of the registry arena: used = %zd but %zu slots are marked allocated (slot released through the wrong chunk)\n", ci, (ssize_t) c->used, n); _exit(3); }
			ci++;
		}
	}
	_exit(0);
}
