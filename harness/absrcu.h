/*
 * Abstract RCU for data-structure drivers (mirror of spec/AbstractRcu semantics): read-side critical sections are
 * intervals, a grace period is a scheduler-level blocking step that is enabled once every critical section that
 * was open when it started has ended.  call_rcu callbacks are run by a daemon model thread after such a grace
 * period.  All of it is ordinary (uninstrumented-looking) C executed by model threads; events:
 *   rlock / runlock (outermost only, with the section id), gp_begin / gp_end, rcu_cb.
 */
#ifndef ABSRCU_H
#define ABSRCU_H
#include "vrt.h"
#include <urcu/flavor.h>
#include <urcu/call-rcu.h>

#define ABS_MAXT 32
#define ABS_NS __attribute__((no_sanitize_thread))
static int abs_nest[ABS_MAXT];
static unsigned long abs_cs[ABS_MAXT];		/* id of the current outermost section of each thread (0: none) */
static unsigned long abs_cs_next = 1;
struct abs_gp { unsigned long snap[ABS_MAXT]; };

static ABS_NS void abs_read_lock(void)
{
	int t = vrt_self(); if (t < 0) return;
	if (abs_nest[t]++ == 0) { abs_cs[t] = abs_cs_next++; vrt_log("\"op\":\"rlock\",\"cs\":%lu", abs_cs[t]); }
}
static ABS_NS void abs_read_unlock(void)
{
	int t = vrt_self(); if (t < 0) return;
	if (abs_nest[t] <= 0) vrt_fail("ORACLE rcu_read_unlock without matching lock");
	if (--abs_nest[t] == 0) { vrt_log("\"op\":\"runlock\",\"cs\":%lu", abs_cs[t]); abs_cs[t] = 0; }
}
static ABS_NS int abs_read_ongoing(void) { int t = vrt_self(); return t >= 0 && abs_nest[t] > 0; }
static ABS_NS int abs_gp_done(void *p)
{
	struct abs_gp *g = p;
	for (int i = 0; i < ABS_MAXT; i++) if (g->snap[i] && abs_cs[i] == g->snap[i]) return 0;
	return 1;
}
static ABS_NS void abs_synchronize_rcu(void)
{
	struct abs_gp g; int t = vrt_self();
	if (t < 0) return;
	if (abs_nest[t] > 0) vrt_fail("ORACLE synchronize_rcu called inside a read-side critical section");
	for (int i = 0; i < ABS_MAXT; i++) g.snap[i] = abs_cs[i];
	vrt_log("\"op\":\"gp_begin\"");
	vrt_wait_until(abs_gp_done, &g);
	vrt_log("\"op\":\"gp_end\"");
}

/* call_rcu: FIFO of (head, func), served by the daemon thread "rcu" */
struct abs_cb { struct rcu_head *head; void (*func)(struct rcu_head *); };
static struct abs_cb abs_q[256]; static int abs_qh, abs_qt; static int abs_cb_running;
static ABS_NS int abs_q_nonempty(void *p) { (void) p; return abs_qh != abs_qt; }
static ABS_NS void abs_call_rcu(struct rcu_head *head, void (*func)(struct rcu_head *head))
{
	if ((abs_qt + 1) % 256 == abs_qh) vrt_fail("RUNTIME abstract call_rcu queue overflow");
	abs_q[abs_qt].head = head; abs_q[abs_qt].func = func; abs_qt = (abs_qt + 1) % 256;
	vrt_log("\"op\":\"call_rcu\"");
}
static ABS_NS void * abs_rcu_thread(void *arg)
{
	(void) arg;
	for (;;) {
		vrt_wait_until(abs_q_nonempty, NULL);
		int end = abs_qt;
		abs_synchronize_rcu();
		abs_cb_running = 1;
		while (abs_qh != end) { struct abs_cb c = abs_q[abs_qh]; abs_qh = (abs_qh + 1) % 256; vrt_log("\"op\":\"rcu_cb\""); c.func(c.head); }
		abs_cb_running = 0;
	}
	return NULL;
}
static ABS_NS int abs_q_empty(void *p) { (void) p; return abs_qh == abs_qt && !abs_cb_running; }
static ABS_NS void abs_barrier(void) { vrt_wait_until(abs_q_empty, NULL); }
static ABS_NS void abs_rcu_start(void) { vrt_spawn_daemon("rcu", abs_rcu_thread, NULL); }	/* call before vrt_run if abs_call_rcu is used */
static ABS_NS void abs_noop(void) {}

static const struct rcu_flavor_struct abs_flavor = {
	.read_lock = abs_read_lock, .read_unlock = abs_read_unlock, .read_ongoing = abs_read_ongoing,
	.read_quiescent_state = abs_noop, .update_call_rcu = abs_call_rcu, .update_synchronize_rcu = abs_synchronize_rcu,
	.update_defer_rcu = NULL, .thread_offline = abs_noop, .thread_online = abs_noop,
	.register_thread = abs_noop, .unregister_thread = abs_noop, .barrier = abs_barrier,
};
#endif
