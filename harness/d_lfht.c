/*
 * Driver (C05/C06/C07): the REAL concurrent hash table src/rculfhash.c (+ the three rculfhash-mm-*.c, separate units)
 * under VSCHED with the abstract RCU of absrcu.h, executing the thread programs of a scenario (the same scenario file
 * the TLC configuration of spec/Lfht.tla is generated from).
 *   usage: d_lfht <seed> <tso> <trace> <program-file>
 * program file:
 *   table <init_size> <max_size> <mm>        mm: order | chunk | mmap  (min_nr_alloc_buckets = 1, no AUTO_RESIZE, no ACCOUNTING)
 *   node n<k> <hash> <key>                   user node k (k < MAXN), its hash and key (small integers)
 *   init n<k>                                cds_lfht_add() by the main thread before the run (initial contents, in this order)
 *   ukey <key>                               key only ever inserted with add_unique / add_replace: no traversal may return two nodes of it
 *   thread <name>   followed by operations, each with "<rl> <ru>": take rcu_read_lock before / drop it after the call
 *     add n<k> rl ru | addu n<k> rl ru | addr n<k> rl ru        cds_lfht_add / add_unique / add_replace
 *     lookup <hash> <key> rl ru                                  cds_lfht_lookup into the thread's iterator
 *     del n<k>|@ rl ru                                           cds_lfht_del(node | iterator's node)
 *     repl n<k> rl ru                                            cds_lfht_replace(iterator, hash/key of n<k>, n<k>)
 *     dups <hash> <key> rl ru                                    cds_lfht_lookup + cds_lfht_next_duplicate until NULL
 *     iter rl ru                                                 cds_lfht_first + cds_lfht_next until NULL
 *     reclaim                                                    synchronize_rcu, then free every node this thread owns
 *     resize <size>                                              cds_lfht_resize(ht, size)  (outside any read-side section)
 *     wait <t1>,<t2>..                                           driver-level barrier: the named threads have finished
 *     destroy                                                    cds_lfht_destroy(ht, NULL)
 * Symbolic names: user nodes n<k> (location n<k>.next, VK_PTRF: "n2+1" = pointer n2 with REMOVED set; flag bits
 * 1 REMOVED, 2 BUCKET, 4 REMOVAL_OWNER), bucket nodes b<j> (named when their bucket table is allocated), ht.size,
 * ht.resize_target, ht.resize_initiated, ht.in_progress_destroy, mutex ht.resize_mutex.
 * Memory reclamation is an ORACLE: "freed" memory is quarantined, never reused; any later hooked or plain access by library
 * code is a UAF failure of the runtime.
 *   - user nodes: quarantined by their owner (del/replace returned 0, add_replace returned the node) in "reclaim", after
 *     an abstract grace period;
 *   - bucket tables: the memory-management plugin is wrapped (struct cds_lfht_mm_type is a public extension point):
 *     free_bucket_table(order) quarantines the bucket nodes of that order when the real plugin releases them
 *     (order 0, or order > min_alloc_buckets_order); alloc_bucket_table names the new bucket nodes;
 *   - struct cds_lfht and everything else: recording struct cds_lfht_alloc; free() quarantines the block.
 * The flavor is abs_flavor with update_synchronize_rcu = full barrier (as the first step of every real synchronize_rcu)
 * followed by the abstract grace period.
 * Other oracles: pointer returned is not a user node; node obtained by two callers; traversal does not end; at the end of
 * the run the list reachable from bucket 0 is sorted by reversed hash, contains every bucket node of the current size and
 * exactly the user nodes added and not removed, no node carrying REMOVED.
 */
#include "vrt_redirect.h"
#include <stdbool.h>
#include "absrcu.h"
#include "rculfhash.c"		/* the real source, found through -I $VERIF_REPO/src */

#define MAXOPS 16
#define MAXN 16
#define MAXTH 8
#define MAXB 64
struct mynode { struct cds_lfht_node node; int key; int hash; int declared; };
static struct mynode N[MAXN];
struct op { char kind[8]; int n, h, k, rl, ru, size, nts, ts[MAXTH]; };
struct prog { char name[16]; int nops; struct op ops[MAXOPS]; int fin; };
static struct prog P[MAXTH]; static int np;
static struct cds_lfht *ht;
static int destroyed;
static int added[MAXN];		/* oracle bookkeeping (driver-private): insertion reported successful (in the table unless ownedby[] says it was obtained since) */
static int ownedby[MAXN];		/* 1 + index of the thread that obtained the node, 0: nobody */
static int init_nodes[MAXN], ninit;
static int ukeys[MAXN], nukeys;			/* keys under guarantee F (only inserted by add_unique / add_replace) */

/* ------------------------------------------------------------------ work queue (src/workqueue.h): environment stub.  The tables of
 * this driver are created without CDS_LFHT_AUTO_RESIZE (resizes are explicit cds_lfht_resize() calls of scenario threads), so the
 * lazy-resize worker is never created and nothing is ever queued; reaching one of these is a failure of the harness. */
struct urcu_workqueue { int dummy; };
struct urcu_workqueue *urcu_workqueue_create(unsigned long flags, int cpu_affinity, void *priv,
		void (*a)(struct urcu_workqueue *, void *), void (*b)(struct urcu_workqueue *, void *),
		void (*c)(struct urcu_workqueue *, void *), void (*d)(struct urcu_workqueue *, void *),
		void (*e)(struct urcu_workqueue *, void *), void (*f)(struct urcu_workqueue *, void *),
		void (*g)(struct urcu_workqueue *, void *))
{ (void) flags; (void) cpu_affinity; (void) priv; (void) a; (void) b; (void) c; (void) d; (void) e; (void) f; (void) g; vrt_fail("RUNTIME work queue created (AUTO_RESIZE is not used by this driver)"); }
void urcu_workqueue_destroy(struct urcu_workqueue *w) { (void) w; }
void urcu_workqueue_queue_work(struct urcu_workqueue *w, struct urcu_work *work, void (*func)(struct urcu_work *))
{ (void) w; (void) work; (void) func; vrt_fail("RUNTIME work queued (AUTO_RESIZE is not used by this driver)"); }
void urcu_workqueue_flush_queued_work(struct urcu_workqueue *w) { (void) w; }
void urcu_workqueue_pause_worker(struct urcu_workqueue *w) { (void) w; }
void urcu_workqueue_resume_worker(struct urcu_workqueue *w) { (void) w; }
void urcu_workqueue_create_worker(struct urcu_workqueue *w) { (void) w; }

/* ------------------------------------------------------------------ flavor */
static ABS_NS void lf_sync(void) { cmm_smp_mb(); abs_synchronize_rcu(); }
static struct rcu_flavor_struct lf_flavor;

/* ------------------------------------------------------------------ recording allocator */
struct blk { void *p; size_t len; };
static struct blk B[256]; static int nblk;
static ABS_NS void *rec_note(void *p, size_t len)
{
	if (!p || nblk == 256) vrt_fail("RUNTIME allocation failed");
	B[nblk].p = p; B[nblk].len = len; nblk++;
	return p;
}
static ABS_NS void *rec_malloc(void *st, size_t size) { (void) st; return rec_note(malloc(size), size); }
static ABS_NS void *rec_calloc(void *st, size_t n, size_t sz) { (void) st; return rec_note(calloc(n, sz), n * sz); }
static ABS_NS void *rec_realloc(void *st, void *p, size_t sz) { (void) st; (void) p; (void) sz; vrt_fail("ORACLE unexpected realloc through cds_lfht_alloc"); }
static ABS_NS void *rec_aligned(void *st, size_t al, size_t sz) { (void) st; (void) al; (void) sz; vrt_fail("ORACLE unexpected aligned_alloc through cds_lfht_alloc"); }
static ABS_NS void rec_free(void *st, void *p)
{
	(void) st;
	if (!p) return;
	for (int i = 0; i < nblk; i++) if (B[i].p == p) {
		if (p == (void *) ht) { vrt_log("\"op\":\"htfree\""); vrt_quarantine(p, B[i].len, "ht"); }
		else vrt_quarantine(p, B[i].len, "lfht-block");	/* bucket tables: already quarantined node by node, this covers the whole block */
		B[i] = B[--nblk];
		return;
	}
	vrt_fail("ORACLE library freed a block it did not allocate (or freed it twice)");
}
static const struct cds_lfht_alloc rec_alloc = { .malloc = rec_malloc, .calloc = rec_calloc, .realloc = rec_realloc,
	.aligned_alloc = rec_aligned, .free = rec_free, .state = NULL };

/* ------------------------------------------------------------------ wrapped memory-management plugin */
static const struct cds_lfht_mm_type *real_mm;
static struct cds_lfht_mm_type wrap_mm;
static ABS_NS void order_range(unsigned long order, unsigned long *lo, unsigned long *hi)
{
	if (order == 0) { *lo = 0; *hi = 1; } else { *lo = 1UL << (order - 1); *hi = 1UL << order; }
}
static ABS_NS struct cds_lfht *w_alloc_ht(unsigned long mn, unsigned long mx, const struct cds_lfht_alloc *alloc)
{
	struct cds_lfht *h = real_mm->alloc_cds_lfht(mn, mx, alloc);
	h->mm = &wrap_mm;
	return h;
}
static ABS_NS void w_alloc_bt(struct cds_lfht *h, unsigned long order)
{
	unsigned long lo, hi;
	real_mm->alloc_bucket_table(h, order);
	order_range(order, &lo, &hi);
	if (order == 0 && h->min_nr_alloc_buckets > 1) hi = h->min_nr_alloc_buckets;
	if (order != 0 && order <= h->min_alloc_buckets_order) return;		/* part of the order-0 allocation */
	for (unsigned long j = lo; j < hi && j < MAXB; j++) {
		struct cds_lfht_node *b = real_mm->bucket_at(h, j);
		vrt_unquarantine(b);
		vrt_name(&b->next, VK_PTRF, "b%lu.next", j); vrt_name_val(b, "b%lu", j);
	}
	if (vrt_in_model()) vrt_log("\"op\":\"balloc\",\"var\":\"o%lu\"", order);
}
static ABS_NS void w_free_bt(struct cds_lfht *h, unsigned long order)
{
	unsigned long lo, hi;
	order_range(order, &lo, &hi);
	if (order == 0 && h->min_nr_alloc_buckets > 1) hi = h->min_nr_alloc_buckets;
	if (order == 0 || order > h->min_alloc_buckets_order) {
		if (vrt_in_model()) vrt_log("\"op\":\"bfree\",\"var\":\"o%lu\"", order);
		for (unsigned long j = lo; j < hi && j < MAXB; j++) {
			char w[24]; snprintf(w, sizeof w, "bucket-b%lu", j);
			vrt_quarantine(real_mm->bucket_at(h, j), sizeof(struct cds_lfht_node), w);
		}
	}
	real_mm->free_bucket_table(h, order);
}

/* ------------------------------------------------------------------ helpers */
static int match(struct cds_lfht_node *n, const void *key) { return caa_container_of(n, struct mynode, node)->key == *(const int *) key; }
static int node_id(struct cds_lfht_node *n, const char *what)
{
	struct mynode *m = caa_container_of(n, struct mynode, node);
	if (m < N || m >= N + MAXN || &m->node != n || !m->declared) vrt_fail("ORACLE %s returned a pointer that is not a user node (%s)", what, vrt_sym(n));
	return (int) (m - N);
}
static void obtain(int id, int t, const char *what)
{
	if (ownedby[id]) vrt_fail("ORACLE node n%d obtained by two callers (%s of thread %s, earlier thread %s)", id, what, P[t].name, P[ownedby[id] - 1].name);
	ownedby[id] = t + 1;
}
static ABS_NS int joined(void *arg)
{
	struct op *o = arg;
	for (int k = 0; k < o->nts; k++) if (!P[o->ts[k]].fin) return 0;
	return 1;
}

static void *runner(void *arg)
{
	struct prog *p = arg; int me = (int) (p - P);
	struct cds_lfht_iter it = { NULL, NULL }; int own[MAXN], nown = 0;
	vrt_op_begin("init", VP_NONE); vrt_op_end();	/* from here on driver code between operations is not library code */
	for (int k = 0; k < p->nops; k++) {
		struct op *o = &p->ops[k]; char res[160] = "-"; const char *kd = o->kind;
		vrt_yield();					/* the call (and rcu_read_lock) is a scheduled step of its own: Lfht t_top */
		if (!strcmp(kd, "add") || !strcmp(kd, "addu") || !strcmp(kd, "addr")) {
			struct mynode *m = &N[o->n]; struct cds_lfht_node *r; int key = m->key;
			vrt_log("\"op\":\"call\",\"api\":\"%s\",\"n\":\"n%d\",\"rl\":%d,\"ru\":%d", kd, o->n, o->rl, o->ru);
			if (o->rl) abs_read_lock();
			cds_lfht_node_init(&m->node);
			vrt_op_begin(kd, VP_LOCKFREE);
			if (kd[3] == 0) { cds_lfht_add(ht, m->hash, &m->node); r = &m->node; }
			else if (kd[3] == 'u') r = cds_lfht_add_unique(ht, m->hash, match, &key, &m->node);
			else r = cds_lfht_add_replace(ht, m->hash, match, &key, &m->node);
			vrt_op_end();
			if (o->ru) abs_read_unlock();
			if (kd[3] == 0) { added[o->n] = 1; snprintf(res, sizeof res, "ok"); }
			else if (kd[3] == 'u') { int id = node_id(r, "add_unique"); if (id == o->n) added[id] = 1; snprintf(res, sizeof res, "n%d", id); }
			else if (!r) { added[o->n] = 1; snprintf(res, sizeof res, "NULL"); }
			else { int id = node_id(r, "add_replace"); if (id == o->n) vrt_fail("ORACLE add_replace returned the new node");
				obtain(id, me, "add_replace"); own[nown++] = id; added[o->n] = 1; snprintf(res, sizeof res, "n%d", id); }
		} else if (!strcmp(kd, "lookup")) {
			int key = o->k;
			vrt_log("\"op\":\"call\",\"api\":\"lookup\",\"h\":%d,\"k\":\"k%d\",\"rl\":%d,\"ru\":%d", o->h, o->k, o->rl, o->ru);
			if (o->rl) abs_read_lock();
			vrt_op_begin("lookup", VP_WAITFREE);
			cds_lfht_lookup(ht, o->h, match, &key, &it);
			vrt_op_end();
			if (o->ru) abs_read_unlock();
			if (!it.node) snprintf(res, sizeof res, "NULL"); else snprintf(res, sizeof res, "n%d", node_id(it.node, "lookup"));
		} else if (!strcmp(kd, "del")) {
			struct cds_lfht_node *n = o->n >= 0 ? &N[o->n].node : cds_lfht_iter_get_node(&it); int r;
			vrt_log("\"op\":\"call\",\"api\":\"del\",\"n\":\"%s\",\"rl\":%d,\"ru\":%d", n ? vrt_sym(n) : "NULL", o->rl, o->ru);
			if (o->rl) abs_read_lock();
			vrt_op_begin("del", VP_LOCKFREE);
			r = cds_lfht_del(ht, n);
			vrt_op_end();
			if (o->ru) abs_read_unlock();
			if (r == 0) { int id = node_id(n, "del"); obtain(id, me, "del"); own[nown++] = id; snprintf(res, sizeof res, "0"); }
			else if (r == -ENOENT) snprintf(res, sizeof res, "-ENOENT");
			else vrt_fail("ORACLE del returned %d", r);
		} else if (!strcmp(kd, "repl")) {
			struct mynode *m = &N[o->n]; int key = m->key, r; struct cds_lfht_node *old = cds_lfht_iter_get_node(&it);
			vrt_log("\"op\":\"call\",\"api\":\"repl\",\"n\":\"n%d\",\"old\":\"%s\",\"rl\":%d,\"ru\":%d", o->n, old ? vrt_sym(old) : "NULL", o->rl, o->ru);
			if (o->rl) abs_read_lock();
			cds_lfht_node_init(&m->node);
			vrt_op_begin("replace", VP_LOCKFREE);
			r = cds_lfht_replace(ht, &it, m->hash, match, &key, &m->node);
			vrt_op_end();
			if (o->ru) abs_read_unlock();
			if (r == 0) { int id = node_id(old, "replace"); obtain(id, me, "replace"); own[nown++] = id; added[o->n] = 1; snprintf(res, sizeof res, "0"); }
			else if (r == -ENOENT) snprintf(res, sizeof res, "-ENOENT");
			else if (r == -EINVAL) snprintf(res, sizeof res, "-EINVAL");
			else vrt_fail("ORACLE replace returned %d", r);
		} else if (!strcmp(kd, "dups") || !strcmp(kd, "iter")) {
			int key = o->k, cnt = 0, got[MAXN + 1]; size_t len = 0; struct cds_lfht_node *n; res[0] = 0;
			if (kd[0] == 'd') vrt_log("\"op\":\"call\",\"api\":\"dups\",\"h\":%d,\"k\":\"k%d\",\"rl\":%d,\"ru\":%d", o->h, o->k, o->rl, o->ru);
			else vrt_log("\"op\":\"call\",\"api\":\"iter\",\"rl\":%d,\"ru\":%d", o->rl, o->ru);
			if (o->rl) abs_read_lock();
			vrt_op_begin(kd, VP_WAITFREE);
			if (kd[0] == 'd') cds_lfht_lookup(ht, o->h, match, &key, &it); else cds_lfht_first(ht, &it);
			while ((n = cds_lfht_iter_get_node(&it)) != NULL) {
				if (++cnt > MAXN) vrt_fail("ORACLE traversal does not end");
				got[cnt - 1] = node_id(n, "traversal");
				len += snprintf(res + len, sizeof res - len, "%sn%d", len ? "," : "", got[cnt - 1]);
				for (int a = 0; a < cnt - 1; a++) {
					if (got[a] == got[cnt - 1]) vrt_fail("ORACLE traversal returned node n%d twice", got[a]);
					for (int u = 0; u < nukeys; u++) if (N[got[a]].key == ukeys[u] && N[got[cnt - 1]].key == ukeys[u])
						vrt_fail("ORACLE traversal returned two nodes (n%d, n%d) of key k%d, which is only inserted by add_unique/add_replace", got[a], got[cnt - 1], ukeys[u]);
				}
				if (kd[0] == 'd') cds_lfht_next_duplicate(ht, match, &key, &it); else cds_lfht_next(ht, &it);
			}
			vrt_op_end();
			if (o->ru) abs_read_unlock();
		} else if (!strcmp(kd, "reclaim")) {
			vrt_log("\"op\":\"call\",\"api\":\"reclaim\",\"rl\":0,\"ru\":0");
			vrt_op_begin("reclaim", VP_BLOCKING);
			lf_sync();
			vrt_op_end();
			for (int j = 0; j < nown; j++) {
				char w[16]; snprintf(w, sizeof w, "n%d", own[j]);
				vrt_log("\"op\":\"free\",\"var\":\"n%d\"", own[j]);
				vrt_quarantine(&N[own[j]], sizeof N[0], w);
			}
			nown = 0;
			snprintf(res, sizeof res, "ok");
		} else if (!strcmp(kd, "resize")) {
			vrt_log("\"op\":\"call\",\"api\":\"resize\",\"sz\":%d,\"rl\":0,\"ru\":0", o->size);
			vrt_op_begin("resize", VP_BLOCKING);
			cds_lfht_resize(ht, o->size);
			vrt_op_end();
			snprintf(res, sizeof res, "ok");
		} else if (!strcmp(kd, "wait")) {
			vrt_log("\"op\":\"call\",\"api\":\"wait\",\"rl\":0,\"ru\":0");
			vrt_wait_until(joined, o);
			vrt_log("\"op\":\"joined\"");
			snprintf(res, sizeof res, "ok");
		} else if (!strcmp(kd, "destroy")) {
			int r;
			vrt_log("\"op\":\"call\",\"api\":\"destroy\",\"rl\":0,\"ru\":0");
			vrt_op_begin("destroy", VP_BLOCKING);
			r = cds_lfht_destroy(ht, NULL);
			vrt_op_end();
			if (r == 0) { destroyed = 1; snprintf(res, sizeof res, "0"); }
			else if (r == -EPERM) snprintf(res, sizeof res, "-EPERM");
			else vrt_fail("ORACLE destroy returned %d", r);
		} else
			vrt_fail("SCENARIO unknown operation %s", kd);
		if (k == p->nops - 1) p->fin = 1;
		vrt_log("\"op\":\"ret\",\"r\":\"%s\"", res);
	}
	return NULL;
}

static int order_of_size(unsigned long x) { int o = 0; while (x > 1) { x >>= 1; o++; } return o; }

int main(int argc, char **argv)
{
	struct vrt_opts o; vrt_parse_args(argc, argv, &o);
	FILE *f = fopen(argc > 4 ? argv[4] : "/dev/null", "r"); char line[200]; struct prog *cur = NULL;
	static char waits[MAXTH][MAXOPS][96];
	unsigned long init_size = 1, max_size = 4; char mmname[16] = "order";
	if (!f) { perror("program"); return 2; }
	while (fgets(line, sizeof line, f)) {
		char a[96], b[16]; int x, y, z, w; unsigned long u, v;
		if (sscanf(line, "table %lu %lu %15s", &u, &v, b) == 3) { init_size = u; max_size = v; snprintf(mmname, sizeof mmname, "%s", b); continue; }
		if (sscanf(line, "node n%d %d %d", &x, &y, &z) == 3 && x >= 0 && x < MAXN) { N[x].hash = y; N[x].key = z; N[x].declared = 1; continue; }
		if (sscanf(line, "init n%d", &x) == 1 && x >= 0 && x < MAXN) { init_nodes[ninit++] = x; continue; }
		if (sscanf(line, "ukey %d", &x) == 1 && nukeys < MAXN) { ukeys[nukeys++] = x; continue; }
		if (sscanf(line, "thread %15s", a) == 1) { if (np == MAXTH) return 2; cur = &P[np++]; snprintf(cur->name, sizeof cur->name, "%s", a); continue; }
		if (!cur || cur->nops == MAXOPS) continue;
		struct op *op = &cur->ops[cur->nops]; op->n = -1;
		if (sscanf(line, "add n%d %d %d", &x, &y, &z) == 3) { strcpy(op->kind, "add"); op->n = x; op->rl = y; op->ru = z; cur->nops++; }
		else if (sscanf(line, "addu n%d %d %d", &x, &y, &z) == 3) { strcpy(op->kind, "addu"); op->n = x; op->rl = y; op->ru = z; cur->nops++; }
		else if (sscanf(line, "addr n%d %d %d", &x, &y, &z) == 3) { strcpy(op->kind, "addr"); op->n = x; op->rl = y; op->ru = z; cur->nops++; }
		else if (sscanf(line, "lookup %d %d %d %d", &x, &y, &z, &w) == 4) { strcpy(op->kind, "lookup"); op->h = x; op->k = y; op->rl = z; op->ru = w; cur->nops++; }
		else if (sscanf(line, "dups %d %d %d %d", &x, &y, &z, &w) == 4) { strcpy(op->kind, "dups"); op->h = x; op->k = y; op->rl = z; op->ru = w; cur->nops++; }
		else if (sscanf(line, "iter %d %d", &x, &y) == 2) { strcpy(op->kind, "iter"); op->rl = x; op->ru = y; cur->nops++; }
		else if (sscanf(line, "del n%d %d %d", &x, &y, &z) == 3) { strcpy(op->kind, "del"); op->n = x; op->rl = y; op->ru = z; cur->nops++; }
		else if (sscanf(line, "del @ %d %d", &y, &z) == 2) { strcpy(op->kind, "del"); op->n = -1; op->rl = y; op->ru = z; cur->nops++; }
		else if (sscanf(line, "repl n%d %d %d", &x, &y, &z) == 3) { strcpy(op->kind, "repl"); op->n = x; op->rl = y; op->ru = z; cur->nops++; }
		else if (sscanf(line, "resize %d", &x) == 1) { strcpy(op->kind, "resize"); op->size = x; cur->nops++; }
		else if (sscanf(line, "wait %95s", a) == 1) { strcpy(op->kind, "wait"); strcpy(waits[cur - P][cur->nops], a); cur->nops++; }
		else if (!strncmp(line, "reclaim", 7)) { strcpy(op->kind, "reclaim"); cur->nops++; }
		else if (!strncmp(line, "destroy", 7)) { strcpy(op->kind, "destroy"); cur->nops++; }
	}
	fclose(f);
	for (int t = 0; t < np; t++) for (int k = 0; k < P[t].nops; k++) if (waits[t][k][0]) {
		struct op *op = &P[t].ops[k];
		for (char *s = strtok(waits[t][k], ","); s; s = strtok(NULL, ",")) {
			int id = -1; for (int u = 0; u < np; u++) if (!strcmp(P[u].name, s)) id = u;
			if (id < 0 || id == t) { fprintf(stderr, "bad wait target %s\n", s); return 2; }
			op->ts[op->nts++] = id;
		}
	}
	for (int t = 0; t < np; t++) if (!P[t].nops) P[t].fin = 1;

	real_mm = !strcmp(mmname, "chunk") ? &cds_lfht_mm_chunk : !strcmp(mmname, "mmap") ? &cds_lfht_mm_mmap : &cds_lfht_mm_order;
	wrap_mm = *real_mm; wrap_mm.alloc_cds_lfht = w_alloc_ht; wrap_mm.alloc_bucket_table = w_alloc_bt; wrap_mm.free_bucket_table = w_free_bt;
	lf_flavor = abs_flavor; lf_flavor.update_synchronize_rcu = lf_sync;
	vrt_name_val(NULL, "NULL");
	for (int k = 0; k < MAXN; k++) { vrt_name(&N[k].node.next, VK_PTRF, "n%d.next", k); vrt_name_val(&N[k].node, "n%d", k); }
	ht = _cds_lfht_new_with_alloc(init_size, 1, max_size, 0, &wrap_mm, &lf_flavor, &rec_alloc, NULL);
	if (!ht) { fprintf(stderr, "table creation refused\n"); return 2; }
	vrt_name(&ht->size, VK_INT, "ht.size"); vrt_name(&ht->resize_target, VK_INT, "ht.resize_target");
	vrt_name(&ht->resize_initiated, VK_INT, "ht.resize_initiated"); vrt_name(&ht->in_progress_destroy, VK_INT, "ht.in_progress_destroy");
	vrt_name_mutex(&ht->resize_mutex, "ht.resize_mutex");
	for (int k = 0; k < ninit; k++) {		/* initial contents: sequential cds_lfht_add by the main thread (hooks inert) */
		struct mynode *m = &N[init_nodes[k]];
		cds_lfht_node_init(&m->node);
		cds_lfht_add(ht, m->hash, &m->node);
		added[init_nodes[k]] = 1;
	}
	for (int k = 0; k < np; k++) vrt_spawn(P[k].name, runner, &P[k]);
	vrt_run(&o);

	/* quiescent state: structure of the final list */
	if (!destroyed) {
		unsigned long size = ht->size, last = 0; int steps = 0, seenb[MAXB] = { 0 }, seenn[MAXN] = { 0 };
		struct cds_lfht_node *n = ht->bucket_at(ht, 0), *nx;
		for (; n; n = clear_flag(nx)) {
			if (++steps > MAXN + MAXB) vrt_fail("ORACLE final list is not END-terminated");
			nx = n->next;
			if (n->reverse_hash < last) vrt_fail("ORACLE final list not sorted by reversed hash at %s", vrt_sym(n));
			last = n->reverse_hash;
			if (is_removed(nx)) vrt_fail("ORACLE logically removed node %s still linked at quiescence", vrt_sym(n));
			if (is_bucket(nx)) {
				unsigned long j = bit_reverse_ulong(n->reverse_hash);
				if (j >= size || ht->bucket_at(ht, j) != n) vrt_fail("ORACLE stray bucket node %s in the final list", vrt_sym(n));
				seenb[j]++;
			} else {
				int id = node_id(n, "final list");
				if (seenn[id]++) vrt_fail("ORACLE node n%d linked twice", id);
				if (!added[id] || ownedby[id]) vrt_fail("ORACLE node n%d is in the final list but was removed or never added", id);
			}
		}
		for (unsigned long j = 0; j < size && j < MAXB; j++) if (seenb[j] != 1) vrt_fail("ORACLE bucket node b%lu not linked exactly once (size %lu)", j, size);
		for (int k = 0; k < MAXN; k++) if (added[k] && !ownedby[k] && !seenn[k]) vrt_fail("ORACLE node n%d lost: added, not removed, not in the final list", k);
		if (size != (1UL << order_of_size(size))) vrt_fail("ORACLE size %lu is not a power of two", size);
	}
	_exit(0);
}
