/*
 * VSCHED runtime: serialising scheduler + software x86-TSO store buffers + event trace.
 * See DESIGN.md section 2.3.  The runtime is compiled WITHOUT instrumentation; drivers include the
 * real library sources from /repo and are compiled with -DURCU_VERIF (L-A hooks) and, optionally,
 * -fsanitize=thread (L-B: compiler callbacks for plain accesses, served by this runtime, not libtsan).
 */
#ifndef VRT_H
#define VRT_H
#ifndef _GNU_SOURCE
#define _GNU_SOURCE
#endif
#include <pthread.h>
#include <stdint.h>
#include <stddef.h>
#include <poll.h>
#include <unistd.h>
#include <signal.h>
#include <stdlib.h>
#include <stdio.h>
#include <sys/syscall.h>
#include <sys/mman.h>
#include <sched.h>

#ifdef __cplusplus
extern "C" {
#endif

enum vrt_kind { VK_INT = 0, VK_PTR = 1, VK_PTRF = 2 /* pointer with low flag bits (3 bits) */ };

/* naming of shared locations and pointer values (symbolic trace) */
void vrt_name(const volatile void *addr, enum vrt_kind k, const char *fmt, ...) __attribute__((format(printf, 3, 4)));
void vrt_unname(const volatile void *addr);
void vrt_name_val(const void *p, const char *fmt, ...) __attribute__((format(printf, 2, 3)));
void vrt_unname_val(const void *p);
void vrt_name_mutex(const void *m, const char *name);
/* called (from the event logger) when an unnamed pointer value is stored into a named pointer variable */
void vrt_set_unknown_ptr_hook(void (*fn)(const char *var, unsigned long v));
#define VK_GPCTR 3	/* urcu gp/reader counter: logged as (phase ? 65536 : 0) + nesting count */

/* threads */
void vrt_spawn(const char *name, void *(*fn)(void *), void *arg);
void vrt_spawn_daemon(const char *name, void *(*fn)(void *), void *arg);
void vrt_daemonize(void);
void vrt_wait_until(int (*pred)(void *), void *arg);	/* scheduler-level blocking on a side-effect-free predicate */
const char *vrt_self_name(void);
int vrt_self(void);
int vrt_in_model(void);	/* 1 when called from a scheduled model thread */

/* run the scenario; returns when all non-daemon threads are done and daemons are idle */
struct vrt_opts {
	unsigned long seed;
	int tso;		/* 1: software store buffers */
	const char *trace;	/* ndjson trace path or NULL */
	const char *mode;	/* "pct" | "uniform" | NULL (from VRT_MODE or pct) */
};
void vrt_parse_args(int argc, char **argv, struct vrt_opts *o); /* <seed> <tso> [trace] ; env VRT_MODE VRT_SCHED ... */
void vrt_run(const struct vrt_opts *o);

/* driver-side events: one JSON object per call; "t" is added automatically */
void vrt_log(const char *fmt, ...) __attribute__((format(printf, 1, 2)));
const char *vrt_sym(const void *p);		/* symbolic name of a pointer value (static ring buffer) */
void vrt_fail(const char *what, ...) __attribute__((noreturn, format(printf, 1, 2)));
void vrt_yield(void);				/* explicit scheduling point (no event) */

/* operations (C17 solo mode + step accounting): progress class of the op being executed */
enum vrt_prog { VP_NONE = 0, VP_WAITFREE = 1, VP_LOCKFREE = 2, VP_BLOCKING = 3 };
void vrt_op_begin(const char *name, enum vrt_prog cls);
long vrt_op_end(void);			/* returns the number of own steps of the op */

/* quarantine ("freed") objects: any hooked or instrumented access is a UAF oracle failure */
void vrt_quarantine(const void *p, size_t len, const char *what);
void vrt_unquarantine(const void *p);
/* watch plain (L-B) accesses on named addresses: they become scheduling points + events */
void vrt_watch_plain(int on);

/* signals (C19) */
void vrt_set_sighandler(void (*fn)(void));	/* invoked on the victim's stack at a scheduling point */
void vrt_sig_allow(int on);			/* the calling thread may (not) be interrupted from now on (default: not) */

/* libc redirection targets (vrt_redirect.h maps the libc names onto these for library sources) */
int vrt_mutex_lock(pthread_mutex_t *m);
int vrt_mutex_trylock(pthread_mutex_t *m);
int vrt_mutex_unlock(pthread_mutex_t *m);
int vrt_cond_wait(pthread_cond_t *c, pthread_mutex_t *m);
int vrt_cond_broadcast(pthread_cond_t *c);
int vrt_cond_signal(pthread_cond_t *c);
int vrt_poll(struct pollfd *fds, nfds_t n, int ms);
long vrt_syscall(long nr, ...);
int vrt_pthread_create(pthread_t *tid, const pthread_attr_t *attr, void *(*fn)(void *), void *arg);
int vrt_pthread_join(pthread_t tid, void **ret);
int vrt_pthread_sigmask(int how, const sigset_t *set, sigset_t *old);
int vrt_sched_getcpu(void);
int vrt_usleep(unsigned us);
unsigned vrt_sleep(unsigned s);
void vrt_set_cpu(int cpu);
pid_t vrt_fork(void);			/* fork from a model thread (C16); child: only the caller survives, trace goes to <trace>.child */
int vrt_is_child(void);
int vrt_wait_child(pid_t pid);		/* exit status of the child (3 = an oracle failed there) */		/* model CPU of the calling thread (environment input) */

extern long vrt_nevents;
extern int vrt_tso;

#ifdef __cplusplus
}
#endif
#endif
