/*
 * Driver: real include/urcu/static/wfcqueue.h (inline, _LGPL_SOURCE) under VSCHED, executing the thread programs of a
 * scenario (same scenario file the TLC configuration is generated from).
 *   usage: d_wfcq <seed> <tso> <trace> <program-file>
 * program file: lines "thread <name>" followed by "enq <q> <n>", "deq <q> <blk> <lck>", "splice <dst> <src> <blk> <lck>",
 *               "empty <q>", "iter <q>".
 */
#define _LGPL_SOURCE
#include "vrt_redirect.h"
#include <urcu/wfcqueue.h>

#define MAXOPS 16
#define MAXN 16
struct op { char kind[8]; int q, s, n, blk, lck; };
struct prog { char name[16]; int nops; struct op ops[MAXOPS]; };
static struct prog P[8]; static int np;
static struct cds_wfcq_head qh[2]; static struct cds_wfcq_tail qt[2];
#include "place.h"
static struct cds_wfcq_node *nodes;	/* node n1 starts exactly at a 4 GiB boundary (place.h) */
static int dequeued[MAXN];
static int stateless;	/* odd seeds: a locked blocking dequeue uses the stateless entry point cds_wfcq_dequeue_blocking() (own wrapper in the
			 * library, own lock acquisition); its result carries no LAST flag: the ret event says so ("ws":"n") */

static int qidx(const char *s) { return s[1] == '2'; }
static const char *nname(struct cds_wfcq_node *n) { return vrt_sym(n); }

static void *runner(void *arg)
{
	struct prog *p = arg;
	for (int k = 0; k < p->nops; k++) {
		struct op *o = &p->ops[k]; char res[128];
		struct cds_wfcq_head *h = &qh[o->q]; struct cds_wfcq_tail *t = &qt[o->q];
		if (!strcmp(o->kind, "enq")) {
			vrt_log("\"op\":\"call\",\"api\":\"enq\",\"q\":\"q%d\",\"n\":\"n%d\"", o->q + 1, o->n);
			vrt_op_begin("wfcq_enqueue", VP_WAITFREE);
			bool r = cds_wfcq_enqueue(h, t, &nodes[o->n]);
			vrt_op_end();
			snprintf(res, sizeof res, "%s", r ? "nonEmpty" : "wasEmpty");
		} else if (!strcmp(o->kind, "deq")) {
			int state = 0; struct cds_wfcq_node *n; const char *ws = "y";
			vrt_log("\"op\":\"call\",\"api\":\"deq\",\"q\":\"q%d\",\"blk\":%d,\"lck\":%d", o->q + 1, o->blk, o->lck);
			vrt_op_begin(o->blk ? "wfcq_dequeue_blocking" : "wfcq_dequeue_nonblocking", (o->blk || o->lck) ? VP_BLOCKING : VP_LOCKFREE);
			if (o->lck) {
				if (o->blk && stateless) { n = cds_wfcq_dequeue_blocking(h, t); ws = "n"; }
				else if (o->blk) n = cds_wfcq_dequeue_with_state_blocking(h, t, &state);
				else { cds_wfcq_dequeue_lock(h, t); n = __cds_wfcq_dequeue_with_state_nonblocking(h, t, &state); cds_wfcq_dequeue_unlock(h, t); }
			} else {
				n = o->blk ? __cds_wfcq_dequeue_with_state_blocking(h, t, &state) : __cds_wfcq_dequeue_with_state_nonblocking(h, t, &state);
			}
			vrt_op_end();
			if (n == CDS_WFCQ_WOULDBLOCK) snprintf(res, sizeof res, "WOULDBLOCK");
			else if (!n) snprintf(res, sizeof res, "NULL");
			else {
				int id = (int)(n - nodes);
				if (id < 0 || id >= MAXN) vrt_fail("ORACLE dequeue returned a pointer that is not a queued node");
				if (dequeued[id]++) vrt_fail("ORACLE node n%d dequeued twice", id);
				snprintf(res, sizeof res, "%s%s", nname(n), (state & CDS_WFCQ_STATE_LAST) ? "/LAST" : "");
			}
			vrt_log("\"op\":\"ret\",\"r\":\"%s\",\"ws\":\"%s\"", res, ws);
			continue;
		} else if (!strcmp(o->kind, "splice")) {
			enum cds_wfcq_ret r;
			vrt_log("\"op\":\"call\",\"api\":\"splice\",\"q\":\"q%d\",\"s\":\"q%d\",\"blk\":%d,\"lck\":%d", o->q + 1, o->s + 1, o->blk, o->lck);
			vrt_op_begin("wfcq_splice", (o->blk || o->lck) ? VP_BLOCKING : VP_LOCKFREE);
			if (o->lck) {
				if (o->blk) r = cds_wfcq_splice_blocking(h, t, &qh[o->s], &qt[o->s]);
				else { cds_wfcq_dequeue_lock(&qh[o->s], &qt[o->s]); r = __cds_wfcq_splice_nonblocking(h, t, &qh[o->s], &qt[o->s]); cds_wfcq_dequeue_unlock(&qh[o->s], &qt[o->s]); }
			} else
				r = o->blk ? __cds_wfcq_splice_blocking(h, t, &qh[o->s], &qt[o->s]) : __cds_wfcq_splice_nonblocking(h, t, &qh[o->s], &qt[o->s]);
			vrt_op_end();
			snprintf(res, sizeof res, "%s", r == CDS_WFCQ_RET_WOULDBLOCK ? "WOULDBLOCK" : r == CDS_WFCQ_RET_DEST_EMPTY ? "DEST_EMPTY" :
				r == CDS_WFCQ_RET_DEST_NON_EMPTY ? "DEST_NON_EMPTY" : "SRC_EMPTY");
		} else if (!strcmp(o->kind, "empty")) {
			vrt_log("\"op\":\"call\",\"api\":\"empty\",\"q\":\"q%d\"", o->q + 1);
			vrt_op_begin("wfcq_empty", VP_WAITFREE);
			bool r = cds_wfcq_empty(h, t);
			vrt_op_end();
			snprintf(res, sizeof res, "%s", r ? "TRUE" : "FALSE");
		} else {
			struct cds_wfcq_node *n; size_t len = 0; res[0] = 0;
			vrt_log("\"op\":\"call\",\"api\":\"iter\",\"q\":\"q%d\"", o->q + 1);
			vrt_op_begin("wfcq_for_each_blocking", VP_BLOCKING);
			__cds_wfcq_for_each_blocking(h, t, n) {
				len += snprintf(res + len, sizeof res - len, "%s%s", len ? "," : "", nname(n));
				if (len > 100) vrt_fail("ORACLE iteration does not terminate");
			}
			vrt_op_end();
		}
		vrt_log("\"op\":\"ret\",\"r\":\"%s\"", res);
	}
	return NULL;
}

int main(int argc, char **argv)
{
	struct vrt_opts o; vrt_parse_args(argc, argv, &o);
	stateless = (int) (o.seed & 1);
	FILE *f = fopen(argc > 4 ? argv[4] : "/dev/null", "r"); char line[128]; struct prog *cur = NULL;
	if (!f) { perror("program"); return 2; }
	while (fgets(line, sizeof line, f)) {
		char a[16], b[16], c[16]; int x, y;
		if (sscanf(line, "thread %15s", a) == 1) { cur = &P[np++]; snprintf(cur->name, sizeof cur->name, "%s", a); continue; }
		if (!cur) continue;
		struct op *op = &cur->ops[cur->nops];
		if (sscanf(line, "enq %15s n%d", a, &x) == 2) { strcpy(op->kind, "enq"); op->q = qidx(a); op->n = x; cur->nops++; }
		else if (sscanf(line, "deq %15s %d %d", a, &x, &y) == 3) { strcpy(op->kind, "deq"); op->q = qidx(a); op->blk = x; op->lck = y; cur->nops++; }
		else if (sscanf(line, "splice %15s %15s %d %d", a, b, &x, &y) == 4) { strcpy(op->kind, "splice"); op->q = qidx(a); op->s = qidx(b); op->blk = x; op->lck = y; cur->nops++; }
		else if (sscanf(line, "empty %15s", a) == 1) { strcpy(op->kind, "empty"); op->q = qidx(a); cur->nops++; }
		else if (sscanf(line, "iter %15s", a) == 1) { strcpy(op->kind, "iter"); op->q = qidx(a); cur->nops++; }
		(void) c;
	}
	fclose(f);
	vrt_name_val(NULL, "NULL");
	for (int q = 0; q < 2; q++) {
		cds_wfcq_init(&qh[q], &qt[q]);
		vrt_name(&qh[q].node.next, VK_PTR, "Hq%d.next", q + 1); vrt_name(&qt[q].p, VK_PTR, "q%d.tail", q + 1);
		vrt_name_val(&qh[q].node, "Hq%d", q + 1);
		char mn[16]; snprintf(mn, sizeof mn, "q%d.lock", q + 1); vrt_name_mutex(&qh[q].lock, mn);
	}
	nodes = place_at_boundary(sizeof *nodes, MAXN, 0x400000000UL);
	for (int k = 0; k < MAXN; k++) { cds_wfcq_node_init(&nodes[k]); vrt_name(&nodes[k].next, VK_PTR, "n%d.next", k); vrt_name_val(&nodes[k], "n%d", k); }
	for (int k = 0; k < np; k++) vrt_spawn(P[k].name, runner, &P[k]);
	vrt_run(&o);
	_exit(0);
}
