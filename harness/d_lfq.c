/*
 * Driver: real include/urcu/static/rculfqueue.h (inline, _LGPL_SOURCE) under VSCHED with the abstract RCU of absrcu.h,
 * executing the thread programs of a scenario (same scenario file the TLC configuration is generated from).
 *   usage: d_lfq <seed> <tso> <trace> <program-file>
 * program file: lines "thread <name>" followed by "enq n<k>", "deq", "sync", "free", "reenq", "destroy", "wait <t1>,<t2>,..".
 *
 * The library's malloc()/free() (dummy nodes) are redirected to d_malloc()/d_free() for this translation unit: blocks get
 * the symbolic names dm1, dm2, ... in allocation order (Lfq.tla: nalloc) and a freed block is quarantined, never reused.
 * Every operation starts with an explicit scheduling point (vrt_yield) so that rcu_read_lock / the grace-period snapshot of
 * synchronize_rcu happen in a scheduled step of their own (Lfq.tla: t_top), exactly as in the specification.
 */
#define _LGPL_SOURCE
#include "vrt_redirect.h"
#include <stdbool.h>
#include "absrcu.h"
#include <urcu-call-rcu.h>
#include <urcu/assert.h>
#include <urcu/uatomic.h>
#include <urcu-pointer.h>

#define MAXDM 64
static void *dm_blk[MAXDM]; static size_t dm_len[MAXDM]; static int ndm;
static ABS_NS void *d_malloc(size_t sz)
{
	void *p = malloc(sz);
	if (!p || ndm == MAXDM) vrt_fail("RUNTIME dummy allocation failed");
	memset(p, 0xa5, sz);
	dm_blk[ndm] = p; dm_len[ndm] = sz; ndm++;
	/* struct cds_lfq_node_rcu_dummy starts with its struct cds_lfq_node_rcu parent, whose first member is next */
	vrt_name(p, VK_PTR, "dm%d.next", ndm); vrt_name_val(p, "dm%d", ndm);
	return p;
}
static ABS_NS void d_free(void *p)
{
	for (int k = 0; k < ndm; k++) if (dm_blk[k] == p) {
		vrt_log("\"op\":\"free\",\"var\":\"dm%d\"", k + 1);
		char w[16]; snprintf(w, sizeof w, "dm%d", k + 1);
		vrt_quarantine(p, dm_len[k], w);
		return;
	}
	vrt_fail("ORACLE library freed a block it did not allocate (%s)", vrt_sym(p));
}
#define malloc d_malloc
#define free d_free
#include <urcu/rculfqueue.h>
#undef malloc
#undef free

#define MAXOPS 16
#define MAXN 16
#define MAXTH 8
struct op { char kind[8]; int n; int nts; int ts[MAXTH]; };
struct prog { char name[16]; int nops; struct op ops[MAXOPS]; int fin; };
static struct prog P[MAXTH]; static int np;
static struct cds_lfq_queue_rcu q;
static struct cds_lfq_node_rcu nodes[MAXN];
static int inq[MAXN];			/* oracle: enqueued and not yet dequeued */

static ABS_NS int joined(void *arg)
{
	struct op *o = arg;
	for (int k = 0; k < o->nts; k++) if (!P[o->ts[k]].fin) return 0;
	return 1;
}

static void *runner(void *arg)
{
	struct prog *p = arg; int got[MAXOPS], ngot = 0;
	vrt_op_begin("init", VP_NONE); vrt_op_end();	/* from here on driver code between operations is not library code */
	for (int k = 0; k < p->nops; k++) {
		struct op *o = &p->ops[k]; char res[64] = "-";
		vrt_yield();
		if (!strcmp(o->kind, "enq") || !strcmp(o->kind, "reenq")) {
			int id = o->n;
			if (o->kind[0] == 'r') {
				if (ngot) { id = got[0]; memmove(got, got + 1, --ngot * sizeof got[0]); } else id = -1;
				vrt_log("\"op\":\"call\",\"api\":\"reenq\",\"n\":\"%s\"", id < 0 ? "NULL" : vrt_sym(&nodes[id]));
			} else
				vrt_log("\"op\":\"call\",\"api\":\"enq\",\"n\":\"n%d\"", id);
			if (id >= 0) {
				if (inq[id]++) vrt_fail("SCENARIO node n%d enqueued twice", id);
				cds_lfq_node_init_rcu(&nodes[id]);
				abs_read_lock();
				vrt_op_begin("lfq_enqueue", VP_LOCKFREE);
				cds_lfq_enqueue_rcu(&q, &nodes[id]);
				vrt_op_end();
				abs_read_unlock();
				snprintf(res, sizeof res, "ok");
			}
		} else if (!strcmp(o->kind, "deq")) {
			struct cds_lfq_node_rcu *n;
			vrt_log("\"op\":\"call\",\"api\":\"deq\"");
			abs_read_lock();
			vrt_op_begin("lfq_dequeue", VP_LOCKFREE);
			n = cds_lfq_dequeue_rcu(&q);
			vrt_op_end();
			abs_read_unlock();
			if (!n) snprintf(res, sizeof res, "NULL");
			else {
				int id = (int)(n - nodes);
				if (n < nodes || n >= nodes + MAXN) vrt_fail("ORACLE dequeue returned %s, which is not a user node", vrt_sym(n));
				if (!inq[id]) vrt_fail("ORACLE node n%d dequeued while not enqueued (dequeued twice)", id);
				inq[id] = 0; got[ngot++] = id;
				snprintf(res, sizeof res, "%s", vrt_sym(n));
			}
		} else if (!strcmp(o->kind, "sync")) {
			vrt_log("\"op\":\"call\",\"api\":\"sync\"");
			abs_synchronize_rcu();
		} else if (!strcmp(o->kind, "free")) {
			vrt_log("\"op\":\"call\",\"api\":\"free\"");
			for (int j = 0; j < ngot; j++) {
				vrt_log("\"op\":\"free\",\"var\":\"n%d\"", got[j]);
				char w[16]; snprintf(w, sizeof w, "n%d", got[j]);
				vrt_quarantine(&nodes[got[j]], sizeof nodes[0], w);
			}
			ngot = 0;
		} else if (!strcmp(o->kind, "destroy")) {
			vrt_log("\"op\":\"call\",\"api\":\"destroy\"");
			vrt_op_begin("lfq_destroy", VP_WAITFREE);
			int r = cds_lfq_destroy_rcu(&q);
			vrt_op_end();
			if (r != 0 && r != -EPERM) vrt_fail("ORACLE destroy returned %d", r);
			snprintf(res, sizeof res, "%s", r ? "-1" : "0");
		} else if (!strcmp(o->kind, "wait")) {
			vrt_log("\"op\":\"call\",\"api\":\"wait\"");
			vrt_wait_until(joined, o);
			vrt_log("\"op\":\"joined\"");
		} else
			vrt_fail("SCENARIO unknown operation %s", o->kind);
		if (k == p->nops - 1) p->fin = 1;
		vrt_log("\"op\":\"ret\",\"r\":\"%s\"", res);
	}
	return NULL;
}

int main(int argc, char **argv)
{
	struct vrt_opts o; vrt_parse_args(argc, argv, &o);
	FILE *f = fopen(argc > 4 ? argv[4] : "/dev/null", "r"); char line[160]; struct prog *cur = NULL;
	char waits[MAXTH][MAXOPS][96];
	if (!f) { perror("program"); return 2; }
	memset(waits, 0, sizeof waits);
	while (fgets(line, sizeof line, f)) {
		char a[96]; int x;
		if (sscanf(line, "thread %15s", a) == 1) { if (np == MAXTH) return 2; cur = &P[np++]; snprintf(cur->name, sizeof cur->name, "%s", a); continue; }
		if (!cur || cur->nops == MAXOPS) continue;
		struct op *op = &cur->ops[cur->nops];
		if (sscanf(line, "enq n%d", &x) == 1) { strcpy(op->kind, "enq"); op->n = x; cur->nops++; }
		else if (sscanf(line, "wait %95s", a) == 1) { strcpy(op->kind, "wait"); strcpy(waits[cur - P][cur->nops], a); cur->nops++; }
		else if (sscanf(line, "%7s", a) == 1 && (!strcmp(a, "deq") || !strcmp(a, "sync") || !strcmp(a, "free") || !strcmp(a, "reenq") || !strcmp(a, "destroy"))) {
			strcpy(op->kind, a); cur->nops++; }
	}
	fclose(f);
	for (int t = 0; t < np; t++) for (int k = 0; k < P[t].nops; k++) if (waits[t][k][0]) {	/* resolve thread names of wait */
		struct op *op = &P[t].ops[k];
		for (char *s = strtok(waits[t][k], ","); s; s = strtok(NULL, ",")) {
			int id = -1; for (int u = 0; u < np; u++) if (!strcmp(P[u].name, s)) id = u;
			if (id < 0 || id == t) { fprintf(stderr, "bad wait target %s\n", s); return 2; }
			op->ts[op->nts++] = id;
		}
	}
	for (int t = 0; t < np; t++) if (!P[t].nops) P[t].fin = 1;
	vrt_name_val(NULL, "NULL");
	cds_lfq_init_rcu(&q, abs_call_rcu);			/* allocates dm1 */
	vrt_name(&q.head, VK_PTR, "q.head"); vrt_name(&q.tail, VK_PTR, "q.tail");
	for (int k = 0; k < MAXN; k++) { cds_lfq_node_init_rcu(&nodes[k]); vrt_name(&nodes[k].next, VK_PTR, "n%d.next", k); vrt_name_val(&nodes[k], "n%d", k); }
	vrt_watch_plain(1);					/* plain accesses to named locations (node init, destroy) are events */
	abs_rcu_start();
	for (int k = 0; k < np; k++) vrt_spawn(P[k].name, runner, &P[k]);
	vrt_run(&o);
	_exit(0);
}
