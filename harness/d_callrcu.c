/*
 * Driver for C03 / C04: the real src/urcu-call-rcu-impl.h (call_rcu, helper threads, call_rcu_data_free, per-thread /
 * per-CPU helpers, rcu_barrier, before_fork / after_fork_parent) under VSCHED.
 *
 * Default build (abstract flavor):  the implementation header is included directly; the flavor functions it calls
 *   (_rcu_read_lock, _rcu_read_unlock, _rcu_read_ongoing, rcu_register_thread, rcu_unregister_thread,
 *   rcu_thread_offline, rcu_thread_online, synchronize_rcu) are the abstract RCU of the framework: read-side sections are
 *   intervals (events rlock / runlock), a grace period is a scheduler-level blocking step (events gp_begin / gp_end)
 *   enabled once every section open at its start has ended -- exactly the synchronize_rcu procedure of spec/CallRcu.tla.
 *   Grace-period internals of the real flavors are C01's business.
 * -DCR_FLAVOR_MB / -DCR_FLAVOR_QSBR / -DCR_FLAVOR_BP / -DCR_FLAVOR_MEMB:  a real flavor translation unit (src/urcu.c,
 *   src/urcu-qsbr.c, src/urcu-bp.c), which itself includes urcu-call-rcu-impl.h; the driver-level oracles are the same,
 *   the grace-period internals are projected out of the trace by tools/callrcu_common.py.
 *
 * Helper threads are created by the library through the redirected pthread_create and become daemon model threads
 * h1, h2, ... in creation order; the K-th call_rcu_data structure allocated by the library is named cK.
 *
 *   usage: d_callrcu <seed> <tso> <trace> <program-file>
 * program file:  "re <n> <m>"  the callback of rcu_head n passes rcu_head m to call_rcu()
 *                "thread <name>" followed by "<op> <n> <x> <f> <c>" lines, ops:
 *                call rlock runlock sync getdef create setthr setcpu cpu free barrier pause resume createall freeall offline online
 *                "ncpu <k>"  get_possible_cpus_array_len() returns k (scenarios with createall / freeall: one helper per model CPU)
 *                pub <obj> (old = rcu_xchg_pointer(&gptr, obj)) and qfree (the unpublished object is reclaimed: quarantined)
 *                "sig <thread>"  C19: the runtime may deliver the signal handler (VRT_SIGS / VRT_SIGAT) to that thread at any of its
 *                scheduling points between its registration and its unregistration -- in the middle of call_rcu(), of the wfcq
 *                enqueue, of the lazy creation of the default helper, of the flavor's own rcu_read_lock / rcu_read_unlock.
 *                The handler does rcu_read_lock(); p = rcu_dereference(gptr); touch *p; rcu_read_unlock() with the flavor of the build.
 *
 * Oracles (independent of the specification): callback invoked twice / never (at quiescence) / with a wrong function or
 * head / while a read-side section open at call_rcu() entry is still open; rcu_barrier() returning before a callback
 * whose call_rcu() had returned when it was called has finished; accesses to freed call_rcu_data / completion / work
 * objects (the library's malloc/calloc/free are interposed: freed objects are quarantined, never reused); double free.
 * call_rcu() returning with the caller's read-side nesting count changed.
 * C19: the handler touching a reclaimed object (flag + quarantine); at handler exit the interrupted thread's reader state --
 * nesting count, rcu_read_ongoing(), inside a section the whole reader word (phase) -- differs from the state at handler entry.
 * Both states are logged (events sigst) and compared with the specification's by the trace validation.
 */
#include "vrt_redirect.h"
#include <stdarg.h>

#define NS __attribute__((no_sanitize_thread))
static void *d_malloc(size_t sz);
static void *d_calloc(size_t n, size_t sz);
static void d_free(void *p);

#if defined(CR_FLAVOR_MB) || defined(CR_FLAVOR_MEMB) || defined(CR_FLAVOR_QSBR) || defined(CR_FLAVOR_BP)
#define CR_REAL 1
#endif


/* ------------------------------------------------------------------ directed schedules (spec -> code)
 * CR_SCRIPT=<file>: lines "<thread> <kind> <var|*>" -- an order on driver-visible events (call ret rlock runlock gp_begin
 * gp_end cb cbend; for operations other than call_rcu the variable of call / ret is the operation name; alloc / alloced ARR: the
 * library allocates the per-CPU pointer array) taken from a TLC behaviour / counterexample of spec/CallRcu.tla.  An event that matches a pending line waits
 * (scheduler-level predicate) until every earlier line has happened; events that match no pending line and all other steps
 * are scheduled freely by the seeded scheduler.  Only orders that the unmodified code can always follow are stored with the
 * scenarios (a gate that can never open ends in the runtime's DEADLOCK oracle). */
struct sent { char t[16], k[12], v[24]; int done; };
static struct sent *S; static int ns;
static NS int gate_open(void *a) { int e = (int)(long) a; for (int j = 0; j < e; j++) if (!S[j].done) return 0; return 1; }
static NS int gate(const char *k, const char *v)
{
	if (!ns || !vrt_in_model()) return -1;
	const char *t = vrt_self_name();
	for (int e = 0; e < ns; e++) {
		if (S[e].done || strcmp(S[e].t, t) || strcmp(S[e].k, k) || (strcmp(S[e].v, "*") && strcmp(S[e].v, v))) continue;
		vrt_wait_until(gate_open, (void *)(long) e);
		return e;
	}
	return -1;
}
static NS void gate_done(int e) { if (e >= 0) S[e].done = 1; }

#ifndef CR_REAL
/* ------------------------------------------------------------------ abstract flavor */
#define _LGPL_SOURCE
#include <urcu/compiler.h>
#include <urcu/arch.h>
#include <urcu/uatomic.h>
#include <stdbool.h>
#include <urcu/flavor.h>	/* struct urcu_atfork */
#define D_MAXT 32
static int d_nest[D_MAXT];
static unsigned long d_cs[D_MAXT];		/* number of the open outermost section of each model thread (0: none) */
static unsigned long d_ncs[D_MAXT];
struct d_gp { unsigned long snap[D_MAXT]; };
static NS void d_read_lock(void)
{
	int t = vrt_self(); if (t < 0) return;
	int g = gate("rlock", "-");
	if (d_nest[t]++ == 0) d_cs[t] = ++d_ncs[t];
	vrt_log("\"op\":\"rlock\",\"r\":%d", d_nest[t]);
	gate_done(g);
}
static NS void d_read_unlock(void)
{
	int t = vrt_self(); if (t < 0) return;
	if (d_nest[t] <= 0) vrt_fail("ORACLE rcu_read_unlock without matching lock");
	int g = gate("runlock", "-");
	if (--d_nest[t] == 0) d_cs[t] = 0;
	vrt_log("\"op\":\"runlock\",\"r\":%d", d_nest[t]);
	gate_done(g);
}
static NS int d_read_ongoing(void) { int t = vrt_self(); return t >= 0 && d_nest[t] > 0; }
static NS int d_true(void *p) { (void) p; return 1; }
static NS int d_gp_done(void *p)
{
	struct d_gp *g = p;
	for (int i = 0; i < D_MAXT; i++) if (g->snap[i] && d_cs[i] == g->snap[i]) return 0;
	return 1;
}
static NS void d_synchronize_rcu(void)
{
	struct d_gp g; int t = vrt_self();
	if (t < 0) return;
	if (d_nest[t] > 0) vrt_fail("ORACLE synchronize_rcu called inside a read-side critical section");
	vrt_wait_until(d_true, NULL);		/* full barrier at the start of a grace period: scheduling point that drains the store buffer */
	int e = gate("gp_begin", "-");
	for (int i = 0; i < D_MAXT; i++) g.snap[i] = i == t ? 0 : d_cs[i];
	vrt_log("\"op\":\"gp_begin\"");
	gate_done(e);
	vrt_wait_until(d_gp_done, &g);
	e = gate("gp_end", "-");
	vrt_log("\"op\":\"gp_end\"");
	gate_done(e);
}
static NS void d_noop(void) {}
#define _rcu_read_lock d_read_lock
#define _rcu_read_unlock d_read_unlock
#define _rcu_read_ongoing d_read_ongoing
#define rcu_register_thread d_noop
#define rcu_unregister_thread d_noop
#define rcu_thread_offline d_noop
#define rcu_thread_online d_noop
#define synchronize_rcu d_synchronize_rcu
#define d_open_cs(i) d_cs[i]
#endif

/* the possible-CPU array length is an environment input: "ncpu <k>" in the program file overrides the machine's value.
 * compat-smp.h has no include guard, so the name is rewritten by a variadic macro: the definition
 * "get_possible_cpus_array_len(void)" becomes d_gpcal_void(), every call "get_possible_cpus_array_len()" becomes d_gpcal_() */
static int d_ncpu;
static inline int d_gpcal_void(void);
static NS int d_gpcal_(void) { return d_ncpu > 0 ? d_ncpu : d_gpcal_void(); }
#define get_possible_cpus_array_len(...) d_gpcal_##__VA_ARGS__()
#define malloc d_malloc
#define calloc d_calloc
#define free d_free
/* directed schedules may also order the acquisitions / releases of call_rcu_mutex ("<thread> lock call_rcu_mutex"): the windows between
 * two critical sections of one function (call_rcu_data_free drops the mutex around get_default_call_rcu_data()) have no other visible event */
static pthread_mutex_t *d_crm;
static NS int d_mutex_lock(pthread_mutex_t *m) { int g = m == d_crm ? gate("lock", "call_rcu_mutex") : -1; int r = vrt_mutex_lock(m); gate_done(g); return r; }
static NS int d_mutex_unlock(pthread_mutex_t *m) { int g = m == d_crm ? gate("unlock", "call_rcu_mutex") : -1; int r = vrt_mutex_unlock(m); gate_done(g); return r; }
#undef pthread_mutex_lock
#undef pthread_mutex_unlock
#define pthread_mutex_lock d_mutex_lock
#define pthread_mutex_unlock d_mutex_unlock
#ifndef CR_REAL
#include REPO_SRC(urcu-call-rcu-impl.h)
#elif defined(CR_FLAVOR_MB)
#define RCU_MB
#include REPO_SRC(urcu.c)
#elif defined(CR_FLAVOR_MEMB)
#define RCU_MEMBARRIER
#include REPO_SRC(urcu.c)
#elif defined(CR_FLAVOR_QSBR)
#include REPO_SRC(urcu-qsbr.c)
#else
#include REPO_SRC(urcu-bp.c)
#endif
#undef malloc
#undef calloc
#undef free
#undef get_possible_cpus_array_len
#undef pthread_mutex_lock
#undef pthread_mutex_unlock
#define pthread_mutex_lock vrt_mutex_lock
#define pthread_mutex_unlock vrt_mutex_unlock
/* the included sources reference the compat futex fallback (only used when futex() returns ENOSYS) */
int compat_futex_noasync(int32_t *uaddr, int op, int32_t val, const struct timespec *timeout, int32_t *uaddr2, int32_t val3)
{ (void) uaddr; (void) op; (void) val; (void) timeout; (void) uaddr2; (void) val3; vrt_fail("RUNTIME compat futex fallback reached"); }
int compat_futex_async(int32_t *uaddr, int op, int32_t val, const struct timespec *timeout, int32_t *uaddr2, int32_t val3)
{ (void) uaddr; (void) op; (void) val; (void) timeout; (void) uaddr2; (void) val3; vrt_fail("RUNTIME compat futex fallback reached"); }

#ifdef CR_REAL
/* real flavor: driver-level section ghosts (as harness/d_gp.c) for the scenario's own rlock/runlock; the read lock taken
 * inside call_rcu() is internal to the library and not tracked here */
#define D_MAXT 32
static int d_nest[D_MAXT];
static unsigned long d_cs[D_MAXT], d_ncs[D_MAXT];
/* the calling thread's reader word as the thread itself sees it (store-buffer aware, no scheduling point, no event) */
static NS unsigned long d_reader_word(void)
{
#if defined(CR_FLAVOR_BP)
	struct urcu_bp_reader *r = URCU_TLS(urcu_bp_reader);
	return r ? uv_do_load(&r->ctr, sizeof r->ctr, 0) : 0;
#else
	return uv_do_load(&URCU_TLS(rcu_reader).ctr, sizeof URCU_TLS(rcu_reader).ctr, 0);
#endif
}
#if defined(CR_FLAVOR_BP)
#define D_NEST_MASK URCU_BP_GP_CTR_NEST_MASK
#elif defined(CR_FLAVOR_QSBR)
#define D_NEST_MASK 0UL
#else
#define D_NEST_MASK URCU_GP_CTR_NEST_MASK
#endif
static int d_in_handler[D_MAXT];
static int d_win[D_MAXT];	/* 1: inside the real rcu_read_lock() of a scenario rlock, 2: inside the real rcu_read_unlock() of a scenario runlock */
/* the flavor's lock / unlock are library code: an operation of their own for the runtime (plain accesses of the reader word stay
 * coherent with the software store buffer) -- except inside the handler, which runs inside the interrupted operation */
static NS void d_read_lock(void)
{
	int t = vrt_self(), h = d_in_handler[t];
	if (!h) { d_win[t] = 1; vrt_op_begin("rcu_read_lock", VP_WAITFREE); }
	rcu_read_lock();
	if (!h) { vrt_op_end(); d_win[t] = 0; }
	if (d_nest[t]++ == 0) d_cs[t] = ++d_ncs[t];
	/* inside the handler the nesting count is the flavor's own (it includes the read lock call_rcu() holds internally) */
	vrt_log("\"op\":\"rlock\",\"r\":%d", d_in_handler[t] ? (int)(d_reader_word() & D_NEST_MASK) : d_nest[t]);
}
static NS void d_read_unlock(void)
{
	int t = vrt_self();
	if (--d_nest[t] == 0) d_cs[t] = 0;
	vrt_log("\"op\":\"runlock\",\"r\":%d", d_in_handler[t] ? (int)(d_reader_word() & D_NEST_MASK) - 1 : d_nest[t]);
	if (!d_in_handler[t]) { d_win[t] = 2; vrt_op_begin("rcu_read_unlock", VP_WAITFREE); }
	rcu_read_unlock();
	if (!d_in_handler[t]) { vrt_op_end(); d_win[t] = 0; }
}
static NS void d_synchronize_rcu(void) { synchronize_rcu(); }
#else
static NS unsigned long d_reader_word(void) { int t = vrt_self(); return t >= 0 ? (unsigned long) d_nest[t] : 0; }
#define D_NEST_MASK (~0UL)
static int d_in_handler[D_MAXT], d_win[D_MAXT];
#define rcu_read_ongoing d_read_ongoing
#endif

/* ------------------------------------------------------------------ scenario program */
#define MAXOPS 24
#define MAXTHR 8
#define MAXN 16
#define MAXSLOT 8
struct op { char kind[12]; char n[12]; char x[12]; int f, c; };
struct prog { char name[16]; int nops; struct op ops[MAXOPS]; int idx; };
static struct prog P[MAXTHR]; static int np;
static __thread struct prog *me; static __thread int cur_op;

struct obj { struct rcu_head head; int id; };
static struct obj objs[MAXN];
static int re_of[MAXN];			/* callback of node k re-enqueues node re_of[k] (0: none) */
static int cnt[MAXN], fin[MAXN], queued[MAXN], entered[MAXN];
static unsigned long snap[MAXN][D_MAXT];
static struct call_rcu_data *slots[MAXSLOT];

/* C19: objects published through gptr, the signal handler */
#define NGOBJ 3
struct gobj { int val; };
static struct gobj gobjs[NGOBJ];
static struct gobj *gptr;
static int gfreed[NGOBJ];
static __thread struct gobj *gold;
static char sig_threads[MAXTHR][16]; static int nsig;
static NS int sig_thread(const char *name) { for (int i = 0; i < nsig; i++) if (!strcmp(sig_threads[i], name)) return 1; return 0; }
static NS void sig_handler(void)
{
	int t = vrt_self();
	unsigned long w0 = d_reader_word(), w1; int on0 = !!rcu_read_ongoing(), on1;
	struct gobj *p;
	d_in_handler[t]++;
	vrt_log("\"op\":\"sigst\",\"at\":\"enter\",\"nest\":%lu,\"ongoing\":%d,\"win\":%d", w0 & D_NEST_MASK, on0, d_win[t]);
	d_read_lock();
	p = rcu_dereference(gptr);
	if (p) {
		if (gfreed[p - gobjs]) vrt_fail("ORACLE use-after-free in signal handler: obj%d touched after it was reclaimed", (int)(p - gobjs));
		(void) uatomic_load(&p->val);		/* hooked access: the runtime's quarantine check */
	}
	d_read_unlock();
	w1 = d_reader_word(); on1 = !!rcu_read_ongoing();
	vrt_log("\"op\":\"sigst\",\"at\":\"exit\",\"nest\":%lu,\"ongoing\":%d", w1 & D_NEST_MASK, on1);
	d_in_handler[t]--;
	/* nesting and rcu_read_ongoing() exactly as found; inside a section the whole word (its phase) too */
	if ((w1 & D_NEST_MASK) != (w0 & D_NEST_MASK) || on1 != on0 || ((w0 & D_NEST_MASK) && w1 != w0))
		vrt_fail("ORACLE signal handler changed the interrupted thread's reader state (reader word %lx -> %lx, rcu_read_ongoing %d -> %d)", w0, w1, on0, on1);
	if (on0 != !!(w0 & D_NEST_MASK))
		vrt_fail("ORACLE rcu_read_ongoing() = %d disagrees with the reader's nesting count %lu", on0, w0 & D_NEST_MASK);
}

/* ------------------------------------------------------------------ recording allocator for the library */
enum { K_CRDP = 1, K_COMP, K_WORK };
struct arec { void *p; size_t sz; int kind, freed; char name[40]; };
static struct arec A[256]; static int na; static int ncrdp; static int arr_named;
static NS struct arec *arec_of(void *p) { for (int i = 0; i < na; i++) if (A[i].p == p) return &A[i]; return NULL; }
static NS struct arec *arec_new(void *p, size_t sz, int kind)
{
	if (na == 256) vrt_fail("RUNTIME too many library allocations");
	A[na] = (struct arec){ p, sz, kind, 0, "" }; return &A[na++];
}
static NS void *d_malloc(size_t sz)
{
	void *p = (malloc)(sz);
	if (!p) return p;
	if (sz == sizeof(struct call_rcu_data)) {
		struct call_rcu_data *c = p; struct arec *a = arec_new(p, sz, K_CRDP); int k = ++ncrdp;
		snprintf(a->name, sizeof a->name, "c%d", k);
		vrt_name_val(c, "c%d", k); vrt_name_val(&c->cbs_head.node, "Hc%d", k);
		vrt_name(&c->cbs_tail.p, VK_PTR, "c%d.tail", k); vrt_name(&c->cbs_head.node.next, VK_PTR, "Hc%d.next", k);
		vrt_name(&c->flags, VK_INT, "c%d.flags", k); vrt_name(&c->futex, VK_INT, "c%d.futex", k); vrt_name(&c->qlen, VK_INT, "c%d.qlen", k);
	} else if (vrt_in_model() && me && !arr_named && (!strcmp(me->ops[cur_op].kind, "setcpu") || !strcmp(me->ops[cur_op].kind, "createall"))) {
		arr_named = 1;
		/* directed schedules: "alloc ARR" / "alloced ARR" bracket the window in which cpus_array_len is already set and
		 * per_cpu_call_rcu_data is still NULL (the caller holds call_rcu_mutex) */
		gate_done(gate("alloc", "ARR"));
		gate_done(gate("alloced", "ARR"));
		/* alloc_cpu_call_rcu_data(): the per-CPU pointer array (set_cpu_call_rcu_data allocates nothing else); only the
		 * first model CPUs are used */
		struct call_rcu_data **arr = p;
		vrt_name_val(p, "ARR");
		for (int i = 0; i < 4 && (size_t) i < sz / sizeof(*arr); i++) vrt_name(&arr[i], VK_PTR, "pcpu%d", i);
	}
	return p;
}
static NS void *d_calloc(size_t n, size_t sz)
{
	void *p = (calloc)(n, sz);
	if (!p) return p;
	if (n * sz == sizeof(struct call_rcu_completion)) {
		struct call_rcu_completion *k = p; struct arec *a = arec_new(p, n * sz, K_COMP);
		snprintf(a->name, sizeof a->name, "k%s.%d", me ? me->name : "?", cur_op + 1);
		vrt_name_val(k, "%s", a->name);
		vrt_name(&k->barrier_count, VK_INT, "%s.count", a->name); vrt_name(&k->futex, VK_INT, "%s.futex", a->name);
		vrt_name(&k->ref.refcount, VK_INT, "%s.ref", a->name);
	} else if (n * sz == sizeof(struct call_rcu_completion_work)) {
		arec_new(p, n * sz, K_WORK);	/* named when it is enqueued (the helper it goes to is part of its name) */
	}
	return p;
}
static NS void d_free(void *p)
{
	struct arec *a = p ? arec_of(p) : NULL;
	if (!a) { (free)(p); return; }
	if (a->freed) vrt_fail("ORACLE double free of %s", a->name);
	a->freed = 1;
	vrt_log("\"op\":\"free\",\"var\":\"%s\"", a->name);
	vrt_quarantine(p, a->sz, a->name);	/* never handed back to the allocator: any later access is a UAF failure */
}
/* a pointer without a name is stored into a named pointer variable: a barrier work item being enqueued */
static NS void name_unknown(const char *var, unsigned long v)
{
	for (int i = 0; i < na; i++) {
		if (A[i].kind != K_WORK || (unsigned long) A[i].p != v || A[i].name[0]) continue;
		struct call_rcu_completion_work *w = A[i].p; struct arec *k = arec_of(w->completion);
		char c[16]; snprintf(c, sizeof c, "%s", var); char *dot = strchr(c, '.'); if (dot) *dot = 0;	/* "cK.tail" -> "cK" */
		snprintf(A[i].name, sizeof A[i].name, "w.%s.%s", k ? k->name : "?", c);
		vrt_name_val(w, "%s", A[i].name); vrt_name(&w->head.next.next, VK_PTR, "%s.next", A[i].name);
		return;
	}
}

/* ------------------------------------------------------------------ callbacks */
static NS void cb_common(struct rcu_head *h, const char *fname)
{
	struct obj *o = caa_container_of(h, struct obj, head); int k = (int)(o - objs);
	if (k < 0 || k >= MAXN || &objs[k].head != h) vrt_fail("ORACLE callback invoked with a pointer that is not a registered rcu_head");
	char nm[8]; snprintf(nm, sizeof nm, "n%d", k);
	int g = gate("cb", nm);
	vrt_log("\"op\":\"cb\",\"var\":\"n%d\",\"a\":\"%s\"", k, fname);
	gate_done(g);
	if (!entered[k]) vrt_fail("ORACLE callback of n%d invoked although it was never passed to call_rcu", k);
	if (cnt[k]++) vrt_fail("ORACLE callback of n%d invoked twice", k);
	if (strcmp(fname, re_of[k] ? "re" : "cb")) vrt_fail("ORACLE n%d invoked with function %s, registered with %s", k, fname, re_of[k] ? "re" : "cb");
	for (int i = 0; i < D_MAXT; i++) if (snap[k][i] && d_cs[i] == snap[k][i])
		vrt_fail("ORACLE callback of n%d invoked while a read-side critical section (thread #%d) that began before call_rcu() is still open", k, i);
}
static NS void do_call_rcu(int k, void (*fn)(struct rcu_head *));
static NS void cb_plain(struct rcu_head *h)
{
	struct obj *o = caa_container_of(h, struct obj, head);
	cb_common(h, "cb");
	char nm[8]; snprintf(nm, sizeof nm, "n%d", (int)(o - objs));
	int g = gate("cbend", nm);
	fin[o - objs] = 1;
	vrt_log("\"op\":\"cbend\",\"var\":\"n%d\"", (int)(o - objs));
	gate_done(g);
}
static NS void cb_re(struct rcu_head *h)
{
	struct obj *o = caa_container_of(h, struct obj, head); int k = (int)(o - objs);
	cb_common(h, "re");
	int m = re_of[k];
	do_call_rcu(m, re_of[m] ? cb_re : cb_plain);
	fin[k] = 1;
	vrt_log("\"op\":\"cbend\",\"var\":\"n%d\"", k);
}
static NS void do_call_rcu(int k, void (*fn)(struct rcu_head *))
{
	if (entered[k]) vrt_fail("SCENARIO rcu_head n%d passed to call_rcu twice", k);
	char nm[8]; snprintf(nm, sizeof nm, "n%d", k);
	int g = gate("call", nm);
	entered[k] = 1;
	for (int i = 0; i < D_MAXT; i++) snap[k][i] = d_cs[i];
	vrt_log("\"op\":\"call\",\"var\":\"n%d\",\"a\":\"call\"", k);
	gate_done(g);
	unsigned long n0 = d_reader_word() & D_NEST_MASK, n1;
	call_rcu(&objs[k].head, fn);
	if ((n1 = d_reader_word() & D_NEST_MASK) != n0)
		vrt_fail("ORACLE call_rcu() changed the caller's read-side nesting count (%lu -> %lu)", n0, n1);
	g = gate("ret", nm);
	queued[k] = 1;
	vrt_log("\"op\":\"ret\",\"r\":\"-\"");
	gate_done(g);
}

/* ------------------------------------------------------------------ scenario threads */
static NS int slot_of(const char *x) { return (x[0] == 's' && x[1] >= '1' && x[1] <= '0' + MAXSLOT) ? x[1] - '1' : -1; }
static NS struct call_rcu_data *crdp_of(const char *x) { int s = slot_of(x); return s < 0 ? NULL : slots[s]; }

static NS void *runner(void *arg)
{
	struct prog *p = arg; me = p;
#ifdef CR_REAL
	rcu_register_thread();
#endif
	if (sig_thread(p->name)) vrt_sig_allow(1);
	for (int i = 0; i < p->nops; i++) {
		struct op *o = &p->ops[i]; cur_op = i; char res[40] = "-";
		if (!strcmp(o->kind, "rlock")) { d_read_lock(); continue; }
		if (!strcmp(o->kind, "runlock")) { d_read_unlock(); continue; }
		if (!strcmp(o->kind, "cpu")) { vrt_set_cpu(o->c); continue; }
		if (!strcmp(o->kind, "offline") || !strcmp(o->kind, "online")) {	/* qsbr integration runs; nothing for the other flavors */
#ifdef CR_FLAVOR_QSBR
			if (o->kind[1] == 'f') rcu_thread_offline(); else rcu_thread_online();
#endif
			continue;
		}
		if (!strcmp(o->kind, "call")) {
			int k = atoi(o->n + 1);
			vrt_op_begin("call_rcu", VP_BLOCKING);
			do_call_rcu(k, re_of[k] ? cb_re : cb_plain);
			vrt_op_end();
			continue;
		}
		struct call_rcu_data *c = crdp_of(o->x);
		int g = gate("call", o->kind);
		vrt_log("\"op\":\"call\",\"var\":\"%s\",\"a\":\"%s\"", (!strcmp(o->kind, "free") || !strcmp(o->kind, "setcpu") || !strcmp(o->kind, "setthr")) && slot_of(o->x) >= 0 ? vrt_sym(c) : "-", o->kind);
		gate_done(g);
		vrt_op_begin(o->kind, VP_BLOCKING);
		if (!strcmp(o->kind, "sync")) d_synchronize_rcu();
		else if (!strcmp(o->kind, "getdef")) (void) get_default_call_rcu_data();
		else if (!strcmp(o->kind, "pub")) {
			int k = atoi(o->n + 3); if (k < 0 || k >= NGOBJ) vrt_fail("SCENARIO bad object %s", o->n);
			gold = rcu_xchg_pointer(&gptr, &gobjs[k]);
			snprintf(res, sizeof res, "%s", vrt_sym(gold));
		} else if (!strcmp(o->kind, "qfree")) {
			if (!gold) vrt_fail("SCENARIO qfree without pub");
			gfreed[gold - gobjs] = 1;
			vrt_quarantine(gold, sizeof *gold, gold == &gobjs[0] ? "obj0" : gold == &gobjs[1] ? "obj1" : "obj2");
			gold = NULL;
		}
		else if (!strcmp(o->kind, "create")) {
			int s = slot_of(o->x); if (s < 0) vrt_fail("SCENARIO bad slot %s", o->x);
			slots[s] = create_call_rcu_data(o->f, -1);
			snprintf(res, sizeof res, "%s", vrt_sym(slots[s]));
		} else if (!strcmp(o->kind, "setthr")) set_thread_call_rcu_data(c);
		else if (!strcmp(o->kind, "setcpu")) {
			int r = set_cpu_call_rcu_data(o->c, c);
			snprintf(res, sizeof res, "%s", r == 0 ? "0" : r == -EEXIST ? "EEXIST" : "ERR");
			if (r && r != -EEXIST) vrt_fail("RUNTIME set_cpu_call_rcu_data(%d) failed: %d (fewer than %d possible CPUs on this machine?)", o->c, r, o->c + 1);
		} else if (!strcmp(o->kind, "createall")) {
			int r = create_all_cpu_call_rcu_data(o->f);
			snprintf(res, sizeof res, "%s", r == 0 ? "0" : "ERR");
			if (r) vrt_fail("RUNTIME create_all_cpu_call_rcu_data failed: %d", r);
		} else if (!strcmp(o->kind, "freeall")) free_all_cpu_call_rcu_data();
		else if (!strcmp(o->kind, "free")) call_rcu_data_free(c);
		else if (!strcmp(o->kind, "barrier")) {
			int before[MAXN]; memcpy(before, queued, sizeof before);
			if (d_nest[vrt_self()] > 0) vrt_fail("SCENARIO rcu_barrier inside a read-side critical section");
			rcu_barrier();
			for (int k = 0; k < MAXN; k++) if (before[k] && !fin[k])
				vrt_fail("ORACLE rcu_barrier returned before the callback of n%d, queued before the call, has finished", k);
		} else if (!strcmp(o->kind, "pause")) call_rcu_before_fork();
		else if (!strcmp(o->kind, "resume")) call_rcu_after_fork_parent();
		else vrt_fail("RUNTIME unknown op %s", o->kind);
		vrt_op_end();
		g = gate("ret", o->kind);
		vrt_log("\"op\":\"ret\",\"r\":\"%s\"", res);
		gate_done(g);
	}
	vrt_sig_allow(0);
#ifdef CR_REAL
	rcu_unregister_thread();
#endif
	return NULL;
}

int main(int argc, char **argv)
{
	struct vrt_opts o; vrt_parse_args(argc, argv, &o);
	FILE *f = fopen(argc > 4 ? argv[4] : "/dev/null", "r"); char line[128]; struct prog *cur = NULL;
	if (!f) { perror("program"); return 2; }
	while (fgets(line, sizeof line, f)) {
		char a[16], b[16], c[16]; int x, y;
		if (sscanf(line, "re n%d n%d", &x, &y) == 2) { if (x < 1 || x >= MAXN || y < 1 || y >= MAXN) return 2; re_of[x] = y; continue; }
		if (sscanf(line, "ncpu %d", &x) == 1) { d_ncpu = x; continue; }
		if (sscanf(line, "sig %15s", a) == 1) { if (nsig == MAXTHR) return 2; snprintf(sig_threads[nsig++], 16, "%s", a); continue; }
		if (sscanf(line, "thread %15s", a) == 1) { if (np == MAXTHR) return 2; cur = &P[np]; cur->idx = np++; snprintf(cur->name, sizeof cur->name, "%s", a); continue; }
		if (!cur || cur->nops == MAXOPS) continue;
		struct op *op = &cur->ops[cur->nops];
		if (sscanf(line, "%11s %11s %11s %d %d", a, b, c, &x, &y) == 5) {
			snprintf(op->kind, sizeof op->kind, "%s", a); snprintf(op->n, sizeof op->n, "%s", b); snprintf(op->x, sizeof op->x, "%s", c);
			op->f = x; op->c = y; cur->nops++;
		}
	}
	fclose(f);
	if (getenv("CR_SCRIPT")) {
		FILE *sf = fopen(getenv("CR_SCRIPT"), "r"); if (!sf) { perror("CR_SCRIPT"); return 2; }
		S = calloc(256, sizeof *S);
		while (ns < 256 && fgets(line, sizeof line, sf)) if (line[0] != '#' && sscanf(line, "%15s %11s %23s", S[ns].t, S[ns].k, S[ns].v) == 3) ns++;
		fclose(sf);
	}
	vrt_name_val(NULL, "NULL");
	for (int k = 0; k < MAXN; k++) { objs[k].id = k; vrt_name_val(&objs[k].head, "n%d", k); vrt_name(&objs[k].head.next.next, VK_PTR, "n%d.next", k); }
	for (int k = 0; k < NGOBJ; k++) vrt_name_val(&gobjs[k], "obj%d", k);
	gptr = &gobjs[0];
	vrt_name(&gptr, VK_PTR, "gptr");
	if (nsig) vrt_set_sighandler(sig_handler);
	/* CR_WATCH_PLAIN=2 (C19, thorough tier): every compiler-instrumented plain access of the library code inside an operation is a scheduling
	 * point too, i.e. one more place where the handler can be delivered (the accesses themselves are not part of the specification: projected away) */
	if (getenv("CR_WATCH_PLAIN")) vrt_watch_plain(atoi(getenv("CR_WATCH_PLAIN")));
	vrt_name(&default_call_rcu_data, VK_PTR, "dflt");
	vrt_name(&per_cpu_call_rcu_data, VK_PTR, "pcpu");
	vrt_name_mutex(&call_rcu_mutex, "call_rcu_mutex"); d_crm = &call_rcu_mutex;
	vrt_set_unknown_ptr_hook(name_unknown);
	for (int k = 0; k < np; k++) vrt_spawn(P[k].name, runner, &P[k]);
	vrt_run(&o);
	/* quiescence: every scenario thread has finished, every helper is parked (or gone) */
	for (int k = 0; k < MAXN; k++) if (entered[k] && (cnt[k] != 1 || !fin[k])) {
		fprintf(stderr, "VRT-FAIL ORACLE callback of n%d never ran at quiescence (helpers parked)\n", k);
		if (o.trace) { FILE *t = fopen(o.trace, "a"); if (t) { fprintf(t, "{\"t\":\"main\",\"op\":\"fail\",\"what\":\"NEVER_RAN n%d\"}\n", k); fclose(t); } }
		_exit(3);
	}
	_exit(0);
}
