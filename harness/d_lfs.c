/*
 * Driver (C11): real include/urcu/static/lfstack.h and, in "legacy" mode, include/urcu/static/rculfstack.h (inline,
 * _LGPL_SOURCE) under VSCHED, executing the thread programs of a scenario (same scenario file the TLC configuration of
 * spec/Lfs.tla is generated from).  Read-side critical sections and grace periods are the abstract ones of absrcu.h.
 *   usage: d_lfs <seed> <tso> <trace> <program-file>
 * program file: "mode lfs|legacy", then "thread <name>" followed by
 *   "push n<k>" | "push @<j>"   cds_lfs_push / cds_lfs_push_rcu; @j: the node returned by this thread's j-th pop (nothing if NULL)
 *   "pop <lck> <rcu>"           lck: cds_lfs_pop_blocking; rcu: read_lock, __cds_lfs_pop / cds_lfs_pop_rcu, read_unlock;
 *                               neither: __cds_lfs_pop (single consumer)
 *   "popall <lck>"              cds_lfs_pop_all_blocking / __cds_lfs_pop_all, then cds_lfs_for_each over the popped list
 *   "sync <gp>"                 gp=1: synchronize_rcu (abstract); gp=0: nothing (negative control: reuse without grace period)
 *   "empty"                     cds_lfs_empty
 * The plain accesses of node->next (store in push, loads in cds_lfs_for_each) are watched: scheduling points + events.
 * Every abstract-RCU call is preceded by an explicit scheduling point so that it is one step of its own, as in the spec.
 * Oracles: a node returned while another thread still holds it (double pop / ABA), a returned pointer that is not a
 * pushed node, a traversal that does not end, and at the end of the run every node is either on the stack (once) or
 * held by a thread (once).
 */
#define _LGPL_SOURCE
#include "vrt_redirect.h"
#define CDS_LFS_RCU_DEPRECATED
#include <urcu/lfstack.h>
#include <urcu/rculfstack.h>
#include "absrcu.h"

#define MAXOPS 16
#define MAXN 16
struct op { char kind[8]; int n, reg, lck, rcu, gp; };
struct prog { char name[16]; int nops; struct op ops[MAXOPS]; int npop; int got[MAXOPS]; };
static struct prog P[8]; static int np;
static int legacy;
/* The node arrays live at an adversarial address: node n1 starts exactly at a 4 GiB boundary (low 32 address bits zero), so a result
 * derived from a truncated node pointer ("stack was non-empty" computed through an int) differs from the pointer test; fallback: heap. */
#include <sys/mman.h>
#ifndef MAP_FIXED_NOREPLACE
#define MAP_FIXED_NOREPLACE 0x100000
#endif
static struct cds_lfs_stack stk; static struct cds_lfs_node *nodes;
static struct cds_lfs_stack_rcu rstk; static struct cds_lfs_node_rcu *rnodes;
static void *place_nodes(size_t esz, unsigned long b)
{
	void *r = mmap((void *) (b - 4096), 8192, PROT_READ | PROT_WRITE, MAP_PRIVATE | MAP_ANONYMOUS | MAP_FIXED_NOREPLACE, -1, 0);
	if (r == (void *) (b - 4096) && esz * MAXN < 4096) return (void *) (b - esz);		/* element 1 at the boundary */
	if (r != MAP_FAILED) munmap(r, 8192);
	return calloc(MAXN, esz);
}
static int pushed[MAXN], held[MAXN];

static int node_id(void *n, const char *what)
{
	long id = legacy ? (struct cds_lfs_node_rcu *) n - rnodes : (struct cds_lfs_node *) n - nodes;
	void *base = legacy ? (void *) rnodes : (void *) nodes;
	if (n < base || id >= MAXN || (legacy ? (void *) &rnodes[id] : (void *) &nodes[id]) != n || !pushed[id])
		vrt_fail("ORACLE %s returned a pointer that is not a pushed node (%s)", what, vrt_sym(n));
	return (int) id;
}
static int take(void *n, const char *what)
{
	int id = node_id(n, what);
	if (held[id]++) vrt_fail("ORACLE node n%d returned by %s while still held by a thread (popped twice)", id, what);
	return id;
}

static void *runner(void *arg)
{
	struct prog *p = arg;
	for (int k = 0; k < p->nops; k++) {
		struct op *o = &p->ops[k]; char res[160];
		if (!strcmp(o->kind, "push")) {
			int id = o->reg ? (o->reg <= p->npop ? p->got[o->reg - 1] : -1) : o->n;
			if (id < 0) {
				vrt_log("\"op\":\"call\",\"api\":\"push\",\"n\":\"NULL\"");
				snprintf(res, sizeof res, "SKIP");
			} else {
				int r;
				pushed[id] = 1; held[id] = 0;
				vrt_log("\"op\":\"call\",\"api\":\"push\",\"n\":\"n%d\"", id);
				vrt_op_begin("lfs_push", VP_LOCKFREE);
				r = legacy ? cds_lfs_push_rcu(&rstk, &rnodes[id]) : (int) cds_lfs_push(&stk, &nodes[id]);
				vrt_op_end();
				snprintf(res, sizeof res, "%s", r ? "nonEmpty" : "wasEmpty");
			}
		} else if (!strcmp(o->kind, "pop")) {
			void *n;
			vrt_log("\"op\":\"call\",\"api\":\"pop\",\"lck\":%d,\"rcu\":%d", o->lck, o->rcu);
			if (o->rcu) { vrt_yield(); abs_read_lock(); }
			vrt_op_begin("lfs_pop", o->lck ? VP_BLOCKING : VP_LOCKFREE);
			if (legacy) n = cds_lfs_pop_rcu(&rstk);
			else n = o->lck ? cds_lfs_pop_blocking(&stk) : __cds_lfs_pop(&stk);
			vrt_op_end();
			if (o->rcu) { vrt_yield(); abs_read_unlock(); }
			if (!n) { p->got[p->npop++] = -1; snprintf(res, sizeof res, "NULL"); }
			else { p->got[p->npop++] = take(n, "pop"); snprintf(res, sizeof res, "%s", vrt_sym(n)); }
		} else if (!strcmp(o->kind, "popall")) {
			struct cds_lfs_head *h; struct cds_lfs_node *n, *got[MAXN + 1]; int ng = 0; size_t len = 0;
			vrt_log("\"op\":\"call\",\"api\":\"popall\",\"lck\":%d", o->lck);
			vrt_op_begin("lfs_pop_all", o->lck ? VP_BLOCKING : VP_WAITFREE);
			h = o->lck ? cds_lfs_pop_all_blocking(&stk) : __cds_lfs_pop_all(&stk);
			cds_lfs_for_each(h, n) {
				if (ng == MAXN) vrt_fail("ORACLE traversal of the popped list does not end");
				got[ng++] = n;
			}
			vrt_op_end();
			res[0] = 0;
			for (int j = 0; j < ng; j++) {
				take(got[j], "pop_all");
				len += snprintf(res + len, sizeof res - len, "%s%s", j ? "," : "", vrt_sym(got[j]));
			}
		} else if (!strcmp(o->kind, "sync")) {
			vrt_log("\"op\":\"call\",\"api\":\"sync\",\"gp\":%d", o->gp);
			if (o->gp) { vrt_yield(); abs_synchronize_rcu(); }
			snprintf(res, sizeof res, "ok");
		} else {
			vrt_log("\"op\":\"call\",\"api\":\"empty\"");
			vrt_op_begin("lfs_empty", VP_WAITFREE);
			bool r = cds_lfs_empty(&stk);
			vrt_op_end();
			snprintf(res, sizeof res, "%s", r ? "TRUE" : "FALSE");
		}
		vrt_log("\"op\":\"ret\",\"r\":\"%s\"", res);
	}
	return NULL;
}

int main(int argc, char **argv)
{
	struct vrt_opts o; vrt_parse_args(argc, argv, &o);
	FILE *f = fopen(argc > 4 ? argv[4] : "/dev/null", "r"); char line[128]; struct prog *cur = NULL;
	if (!f) { perror("program"); return 2; }
	while (fgets(line, sizeof line, f)) {
		char a[16]; int x, y;
		if (sscanf(line, "mode %15s", a) == 1) { legacy = !strcmp(a, "legacy"); continue; }
		if (sscanf(line, "thread %15s", a) == 1) { cur = &P[np++]; snprintf(cur->name, sizeof cur->name, "%s", a); continue; }
		if (!cur || cur->nops == MAXOPS) continue;
		struct op *op = &cur->ops[cur->nops];
		if (sscanf(line, "push n%d", &x) == 1 && x >= 0 && x < MAXN) { strcpy(op->kind, "push"); op->n = x; cur->nops++; }
		else if (sscanf(line, "push @%d", &x) == 1 && x >= 1 && x <= MAXOPS) { strcpy(op->kind, "push"); op->reg = x; cur->nops++; }
		else if (sscanf(line, "popall %d", &x) == 1) { strcpy(op->kind, "popall"); op->lck = x; cur->nops++; }
		else if (sscanf(line, "pop %d %d", &x, &y) == 2) { strcpy(op->kind, "pop"); op->lck = x; op->rcu = y; cur->nops++; }
		else if (sscanf(line, "sync %d", &x) == 1) { strcpy(op->kind, "sync"); op->gp = x; cur->nops++; }
		else if (!strncmp(line, "empty", 5)) { strcpy(op->kind, "empty"); cur->nops++; }
	}
	fclose(f);
	vrt_name_val(NULL, "NULL");
	nodes = place_nodes(sizeof *nodes, 0x100000000UL); rnodes = place_nodes(sizeof *rnodes, 0x200000000UL);
	if (legacy) {
		cds_lfs_init_rcu(&rstk);
		vrt_name(&rstk.head, VK_PTR, "s1.head");
		for (int k = 0; k < MAXN; k++) { cds_lfs_node_init_rcu(&rnodes[k]); vrt_name(&rnodes[k].next, VK_PTR, "n%d.next", k); vrt_name_val(&rnodes[k], "n%d", k); }
	} else {
		cds_lfs_init(&stk);
		vrt_name(&stk.head, VK_PTR, "s1.head"); vrt_name_mutex(&stk.lock, "s1.lock");
		for (int k = 0; k < MAXN; k++) { cds_lfs_node_init(&nodes[k]); vrt_name(&nodes[k].next, VK_PTR, "n%d.next", k); vrt_name_val(&nodes[k], "n%d", k); }
	}
	vrt_watch_plain(1);
	for (int k = 0; k < np; k++) vrt_spawn(P[k].name, runner, &P[k]);
	vrt_run(&o);
	/* quiescent state: lost-node / duplicate oracle over the final stack */
	int on[MAXN] = { 0 }, steps = 0;
	for (void *h = legacy ? (void *) rstk.head : (void *) stk.head; h != NULL;
	     h = legacy ? (void *) ((struct cds_lfs_node_rcu *) h)->next : (void *) ((struct cds_lfs_head *) h)->node.next) {
		if (++steps > MAXN) vrt_fail("ORACLE final stack is not a NULL-terminated list");
		int id = node_id(h, "final stack");
		if (on[id]++) vrt_fail("ORACLE node n%d linked twice in the final stack", id);
		if (held[id]) vrt_fail("ORACLE node n%d is held by a thread but still on the stack", id);
	}
	for (int k = 0; k < MAXN; k++)
		if (pushed[k] && !held[k] && !on[k]) vrt_fail("ORACLE node n%d lost: pushed, not held by any thread, not on the final stack", k);
	_exit(0);
}
